"""Self-validation bank (thorough tier): the rules of a property are re-run, in-process, on scratch copies of the
CURRENT tree with (a) each seeded breaking change that is recorded as detectable by this property applied -> some rule
must fire; (b) each behaviour-preserving variant (generated, variants.py) and each independently written
behaviour-preserving refactoring (benign/<id>/patch.diff, with its equivalence demonstration) applied -> no rule may fire.  A bank failure means the checker, not
the repository, is broken (ANALYSIS-ERROR).  Scratch copies live under a fresh mkdtemp outside /repo and /verif and are
removed on exit."""
from __future__ import annotations

import json
import os
import shutil
import subprocess
import tempfile
from concurrent.futures import ProcessPoolExecutor
from pathlib import Path
from typing import Dict, List, Tuple

from .model import AnalysisError
from .report import VERIF


def _copy(repo: str, dst: str):
    shutil.copytree(repo, dst, ignore=shutil.ignore_patterns('.git', '.hypothesis', '__pycache__', '*.egg-info', 'docs', 'tests'))


def _run_rules(repo: str, rules: List[str]) -> Tuple[List[str], List[str]]:
    from .ctx import Ctx
    from .driver import registry
    ctx = Ctx(repo, 'quick')
    reg = registry()
    fired: List[str] = []
    errors: List[str] = []
    for rid in rules:
        try:
            res = reg[rid](ctx)
            fired.extend(f'{rid} {f.construct}' for f in res.findings)
        except AnalysisError as e:
            errors.append(f'{rid}: {e.reason}')
    return fired, errors


def _job(args) -> Dict:
    kind, name, repo, rules, known = args
    d = tempfile.mkdtemp(prefix='hplsa_bank_')
    try:
        dst = os.path.join(d, 'repo')
        _copy(repo, dst)
        if kind == 'seeded':
            r = subprocess.run(['git', 'apply', '--unsafe-paths', '--directory', dst, str(VERIF / 'seeded' / name / 'patch.diff')], capture_output=True, text=True, cwd='/')
            if r.returncode != 0:
                return {'kind': kind, 'name': name, 'status': 'inapplicable'}
        elif kind == 'benign':
            r = subprocess.run(['git', 'apply', '--unsafe-paths', '--directory', dst, str(VERIF / 'benign' / name / 'patch.diff')], capture_output=True, text=True, cwd='/')
            if r.returncode != 0:
                return {'kind': kind, 'name': name, 'status': 'inapplicable'}
        else:
            from .variants import VARIANTS
            try:
                VARIANTS[name](os.path.join(dst, 'src', 'hpl'))
            except AssertionError:
                return {'kind': kind, 'name': name, 'status': 'inapplicable'}
        fired, errors = _run_rules(dst, rules)
        fired = [f for f in fired if f not in known]
        return {'kind': kind, 'name': name, 'status': 'done', 'fired': fired, 'errors': errors}
    finally:
        shutil.rmtree(d, ignore_errors=True)


def run_bank(pid: str, rules: List[str], ctx) -> Dict:
    from .report import load_known
    from .variants import VARIANTS
    expect_file = VERIF / 'seeded' / 'MATRIX.json'
    matrix = json.loads(expect_file.read_text()) if expect_file.exists() else {}
    seeded = sorted(s for s, res in matrix.items() if pid in res and not str(res[pid][0]).startswith('EXIT'))
    known = {f'{k["rule"]} {k["construct"]}' for k in load_known().get('findings', []) if k['property'] == pid}
    # rule instances that already fail on the current tree are not attributed to a variant
    base_fired, base_err = _run_rules(ctx.repo, rules)
    known |= set(base_fired)
    benign_dir = VERIF / 'benign'
    benign = sorted(d.name for d in benign_dir.iterdir() if (d / 'patch.diff').exists()) if benign_dir.exists() else []
    jobs = [('seeded', s, ctx.repo, rules, known) for s in seeded] + [('variant', v, ctx.repo, rules, known) for v in VARIANTS] + \
        [('benign', b, ctx.repo, rules, known) for b in benign]
    with ProcessPoolExecutor(max_workers=min(16, max(1, len(jobs)))) as ex:
        results = list(ex.map(_job, jobs))
    bad: List[str] = []
    n_fire = n_silent = n_skip = 0
    for res in results:
        if res['status'] == 'inapplicable':
            n_skip += 1
            continue
        if res['kind'] == 'seeded':
            if res['fired']:
                n_fire += 1
            else:
                bad.append(f'seeded change {res["name"]} is no longer detected by the rules of {pid}' + (f' (errors: {res["errors"]})' if res['errors'] else ''))
        else:
            if res['fired'] or res['errors']:
                bad.append(f'behaviour-preserving {res["kind"]} {res["name"]} raises an alarm: {(res["fired"] + res["errors"])[:2]}')
            else:
                n_silent += 1
    if bad:
        raise AnalysisError('SELFTEST', '; '.join(bad[:3]))
    return {'must_fire': n_fire, 'must_stay_silent': n_silent, 'inapplicable_on_current_tree': n_skip,
            'seeded': seeded, 'variants': list(VARIANTS), 'benign_refactorings': len(benign)}

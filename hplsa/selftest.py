"""placeholder: self-validation bank (thorough tier)"""


def run_bank(pid, rules, ctx):
    return {'variants': 0, 'note': 'bank not built yet'}

"""E8 exception and effect rules X1-X8."""
from __future__ import annotations

import ast
from typing import Dict, List, Optional, Set, Tuple

from .ctx import Ctx
from .model import AnalysisError, ClassInfo, FunctionInfo, ModuleInfo
from .report import RuleResult
from .rules_tables import function_rows


# ======================================================================= X1
class _DA:
    """definite assignment over structured statements (no goto in Python)"""

    def __init__(self, fn: ast.FunctionDef):
        self.fn = fn
        self.locals: Set[str] = set()
        self.globals: Set[str] = set()
        self.hits: List[Tuple[str, int]] = []
        a = fn.args
        self.params = {x.arg for x in a.posonlyargs + a.args + a.kwonlyargs}
        if a.vararg:
            self.params.add(a.vararg.arg)
        if a.kwarg:
            self.params.add(a.kwarg.arg)
        self._collect(fn.body)
        self.locals -= self.globals

    def _collect(self, body):
        for st in body:
            for n in self._walk_scope(st):
                if isinstance(n, (ast.Global, ast.Nonlocal)):
                    self.globals.update(n.names)
                elif isinstance(n, ast.Name) and isinstance(n.ctx, (ast.Store, ast.Del)):
                    self.locals.add(n.id)
                elif isinstance(n, (ast.FunctionDef, ast.ClassDef)):
                    self.locals.add(n.name)
                elif isinstance(n, ast.ExceptHandler) and n.name:
                    self.locals.add(n.name)
                elif isinstance(n, ast.alias):
                    self.locals.add((n.asname or n.name).split('.')[0])

    @staticmethod
    def _walk_scope(node):
        """walk without entering nested function / lambda / comprehension scopes"""
        if isinstance(node, (ast.ListComp, ast.SetComp, ast.DictComp, ast.GeneratorExp)):
            node = node.generators[0].iter   # only the first iterable belongs to the enclosing scope
        todo = [node]
        while todo:
            n = todo.pop()
            yield n
            for c in ast.iter_child_nodes(n):
                if isinstance(c, (ast.FunctionDef, ast.AsyncFunctionDef, ast.Lambda, ast.ClassDef)):
                    if isinstance(c, (ast.FunctionDef, ast.ClassDef)):
                        yield c
                    continue
                if isinstance(c, (ast.ListComp, ast.SetComp, ast.DictComp, ast.GeneratorExp)):
                    # the first iterable is evaluated in the enclosing scope
                    todo.append(c.generators[0].iter)
                    continue
                todo.append(c)

    def uses(self, node, A: Set[str]):
        for n in self._walk_scope(node):
            if isinstance(n, ast.Name) and isinstance(n.ctx, ast.Load) and n.id in self.locals and n.id not in self.params and n.id not in A:
                self.hits.append((n.id, n.lineno))
        for n in self._walk_scope(node):
            if isinstance(n, ast.NamedExpr):
                A.add(n.target.id)

    def bind(self, target, A: Set[str]):
        for n in ast.walk(target):
            if isinstance(n, ast.Name) and isinstance(n.ctx, ast.Store):
                A.add(n.id)

    def block(self, body, A: Optional[Set[str]], loop: Optional[Dict] = None) -> Optional[Set[str]]:
        for st in body:
            if A is None:
                return None
            A = self.stmt(st, A, loop)
        return A

    def stmt(self, st, A: Set[str], loop) -> Optional[Set[str]]:
        A = set(A)
        if isinstance(st, (ast.Assign,)):
            self.uses(st.value, A)
            for t in st.targets:
                for n in ast.walk(t):
                    if isinstance(n, (ast.Subscript, ast.Attribute)):
                        self.uses(n.value, A)
                        if isinstance(n, ast.Subscript):
                            self.uses(n.slice, A)
                self.bind(t, A)
            return A
        if isinstance(st, ast.AnnAssign):
            if st.value is not None:
                self.uses(st.value, A)
                self.bind(st.target, A)
            return A
        if isinstance(st, ast.AugAssign):
            self.uses(st.value, A)
            if isinstance(st.target, ast.Name):
                if st.target.id in self.locals and st.target.id not in self.params and st.target.id not in A:
                    self.hits.append((st.target.id, st.lineno))
                A.add(st.target.id)
            else:
                self.uses(st.target, A)
            return A
        if isinstance(st, (ast.Expr,)):
            self.uses(st.value, A)
            return A
        if isinstance(st, ast.Return):
            if st.value is not None:
                self.uses(st.value, A)
            return None
        if isinstance(st, ast.Raise):
            if st.exc is not None:
                self.uses(st.exc, A)
            if st.cause is not None:
                self.uses(st.cause, A)
            return None
        if isinstance(st, ast.Assert):
            self.uses(st.test, A)
            if st.msg is not None:
                self.uses(st.msg, set(A))
            return A
        if isinstance(st, ast.Delete):
            for t in st.targets:
                if isinstance(t, ast.Name):
                    A.discard(t.id)
            return A
        if isinstance(st, (ast.Pass, ast.Global, ast.Nonlocal)):
            return A
        if isinstance(st, (ast.Import, ast.ImportFrom)):
            for a in st.names:
                A.add((a.asname or a.name).split('.')[0])
            return A
        if isinstance(st, (ast.FunctionDef, ast.AsyncFunctionDef, ast.ClassDef)):
            A.add(st.name)
            return A
        if isinstance(st, ast.If):
            self.uses(st.test, A)
            const = _const_truth(st.test)
            a = self.block(st.body, set(A), loop) if const is not False else None
            b = self.block(st.orelse, set(A), loop) if const is not True else None
            if a is None:
                return b
            if b is None:
                return a
            return a & b
        if isinstance(st, (ast.For, ast.AsyncFor)):
            self.uses(st.iter, A)
            inner = set(A)
            self.bind(st.target, inner)
            ctl = {'break': []}
            body_end = self.block(st.body, inner, ctl)
            after = set(A)  # zero iterations
            if st.orelse:
                e = self.block(st.orelse, set(A) if body_end is None else (set(A) & body_end) | set(A), loop)
                outs = ([e] if e is not None else []) + ctl['break']
            else:
                outs = [after] + ctl['break']
            if not outs:
                return None
            res = set(outs[0])
            for o in outs[1:]:
                res &= o
            return res
        if isinstance(st, ast.While):
            self.uses(st.test, A)
            ctl = {'break': []}
            body_end = self.block(st.body, set(A), ctl)
            infinite = _const_truth(st.test) is True
            outs = list(ctl['break'])
            if not infinite:
                if st.orelse:
                    e = self.block(st.orelse, set(A), loop)
                    if e is not None:
                        outs.append(e)
                else:
                    outs.append(set(A))
            if not outs:
                return None
            res = set(outs[0])
            for o in outs[1:]:
                res &= o
            return res
        if isinstance(st, ast.Break):
            if loop is not None:
                loop['break'].append(set(A))
            return None
        if isinstance(st, ast.Continue):
            return None
        if isinstance(st, (ast.With, ast.AsyncWith)):
            for it in st.items:
                self.uses(it.context_expr, A)
                if it.optional_vars is not None:
                    self.bind(it.optional_vars, A)
            return self.block(st.body, A, loop)
        if isinstance(st, ast.Try):
            body_end = self.block(st.body, set(A), loop)
            if body_end is not None and st.orelse:
                body_end = self.block(st.orelse, body_end, loop)
            outs = [body_end] if body_end is not None else []
            for h in st.handlers:
                hA = set(A)
                if h.type is not None:
                    self.uses(h.type, hA)
                if h.name:
                    hA.add(h.name)
                e = self.block(h.body, hA, loop)
                if e is not None:
                    if h.name:
                        e.discard(h.name)
                    outs.append(e)
            res: Optional[Set[str]]
            if not outs:
                res = None
            else:
                res = set(outs[0])
                for o in outs[1:]:
                    res &= o
            if st.finalbody:
                f = self.block(st.finalbody, set(A), loop)
                if f is None:
                    return None
                if res is not None:
                    res |= (f - set(A)) | set()
            return res
        if isinstance(st, ast.Match):
            self.uses(st.subject, A)
            outs = []
            for case in st.cases:
                cA = set(A)
                for n in ast.walk(case.pattern):
                    if isinstance(n, (ast.MatchAs, ast.MatchStar)) and n.name:
                        cA.add(n.name)
                    if isinstance(n, ast.MatchMapping) and n.rest:
                        cA.add(n.rest)
                e = self.block(case.body, cA, loop)
                if e is not None:
                    outs.append(e)
            outs.append(set(A))
            res = set(outs[0])
            for o in outs[1:]:
                res &= o
            return res
        raise AnalysisError('X1', f'statement {type(st).__name__} not modelled (line {st.lineno})')

    def run(self) -> List[Tuple[str, int]]:
        self.block(self.fn.body, set(self.params), None)
        seen = set()
        out = []
        for h in self.hits:
            if h not in seen:
                seen.add(h)
                out.append(h)
        return out


def _const_truth(e) -> Optional[bool]:
    if isinstance(e, ast.Constant):
        return bool(e.value)
    return None


def _module_names(mod) -> Set[str]:
    """names bound at module level (assignments, definitions, imports; `from x import *` makes everything known), plus builtins"""
    got = getattr(mod, '_x1_names', None)    # cached on the module object itself (one model per run; several in the bank)
    if got is None:
        import builtins
        got = set(dir(builtins)) | {'__name__', '__file__', '__doc__'}
        for st in ast.walk(mod.tree):
            if isinstance(st, (ast.FunctionDef, ast.AsyncFunctionDef, ast.ClassDef)):
                continue
        for st in mod.tree.body:
            for x in ast.walk(st):
                if isinstance(x, (ast.FunctionDef, ast.AsyncFunctionDef, ast.ClassDef)):
                    got.add(x.name)
                elif isinstance(x, ast.alias):
                    if x.name == '*':
                        got.add('*')
                    got.add((x.asname or x.name).split('.')[0])
            if not isinstance(st, (ast.FunctionDef, ast.AsyncFunctionDef, ast.ClassDef)):
                for x in ast.walk(st):
                    if isinstance(x, ast.Name) and isinstance(x.ctx, ast.Store):
                        got.add(x.id)
        try:
            object.__setattr__(mod, '_x1_names', got)
        except Exception:
            pass
    out = set(got)
    return out


def X1(ctx: Ctx) -> RuleResult:
    r = RuleResult('X1', 'definite assignment: no local is read on a path that never assigned it (UnboundLocalError)')
    n = 0
    for fi in ctx.model.all_functions():
        n += 1
        da = _DA(fi.node)
        hits = da.run()
        nested = [x for x in ast.walk(fi.node) if isinstance(x, (ast.FunctionDef,)) and x is not fi.node]
        for nf in nested:
            hits += _DA(nf).run()
        if hits:
            for name, line in hits:
                r.fail(f'{fi.qualname}:{name}', f"local '{name}' may be read before assignment (some path reaches line {line} without assigning it): UnboundLocalError", f'{fi.module.relpath}:{line}')
        else:
            r.ok(f'{fi.qualname}')
        # names that are bound nowhere: not in this function (or an enclosing / nested scope of it), not in the module, not built in
        bound = _module_names(fi.module)
        for x in ast.walk(fi.node):
            if isinstance(x, ast.Name) and isinstance(x.ctx, (ast.Store, ast.Del)):
                bound.add(x.id)
            elif isinstance(x, ast.arg):
                bound.add(x.arg)
            elif isinstance(x, (ast.FunctionDef, ast.ClassDef)):
                bound.add(x.name)
            elif isinstance(x, ast.ExceptHandler) and x.name:
                bound.add(x.name)
            elif isinstance(x, ast.alias):
                bound.add((x.asname or x.name).split('.')[0])
            elif isinstance(x, (ast.Global, ast.Nonlocal)):
                bound.update(x.names)
        for x in (y for st in fi.node.body for y in ast.walk(st)):    # decorators and annotations belong to the enclosing scope
            if isinstance(x, ast.Name) and isinstance(x.ctx, ast.Load) and x.id not in bound and '*' not in bound:
                r.fail(f'{fi.qualname}:{x.id}:unbound', f"name '{x.id}' is read but bound nowhere (not in the function, the module or the builtins): NameError", f'{fi.module.relpath}:{x.lineno}')
    r.facts = r.facts[:40]
    r.floor('functions', n, 500)
    # fixture: the rule must still fire on the canonical shape
    fx = ast.parse('def f(a):\n    if a:\n        n = 1\n    return n\n').body[0]
    if not _DA(fx).run():
        raise AnalysisError('X1', 'embedded positive fixture no longer fires')
    fx2 = ast.parse('def f(a):\n    if a:\n        n = 1\n        return n\n    return 0\n').body[0]
    if _DA(fx2).run():
        raise AnalysisError('X1', 'embedded negative fixture fires')
    return r


# ====================================================================== X12
def _can_fall(body: List[ast.stmt]) -> bool:
    """can control reach the end of this statement list (and the function return None implicitly)?"""
    for st in body:
        if isinstance(st, (ast.Return, ast.Raise)):
            return False
        if isinstance(st, ast.If):
            if not _can_fall(st.body) and st.orelse and not _can_fall(st.orelse):
                return False
        elif isinstance(st, ast.While):
            if isinstance(st.test, ast.Constant) and st.test.value and not any(isinstance(x, ast.Break) for x in ast.walk(st)):
                return False
        elif isinstance(st, ast.Try):
            if st.finalbody and not _can_fall(st.finalbody):
                return False
            if not _can_fall(st.body + st.orelse) and not any(_can_fall(h.body) for h in st.handlers):
                return False
        elif isinstance(st, ast.With):
            if not _can_fall(st.body):
                return False
        elif isinstance(st, ast.Assert) and isinstance(st.test, ast.Constant) and not st.test.value:
            return False
        elif isinstance(st, ast.Match):
            if any(isinstance(c.pattern, ast.MatchAs) and c.pattern.pattern is None and c.guard is None for c in st.cases) and not any(_can_fall(c.body) for c in st.cases):
                return False
    return True


def X12(ctx: Ctx) -> RuleResult:
    r = RuleResult('X12', 'declared results: a function or method whose return annotation is not None / Optional never reaches the end of its body without a return or raise (an implicit None where an AST node, a table or a truth value is promised)')
    n = 0
    for fi in ctx.model.all_functions():
        node = fi.node
        if node.returns is None:
            continue
        rt = ast.unparse(node.returns)
        if 'None' in rt or rt.startswith(('Optional', 'Iterator', 'Iterable', 'Generator', "'Optional", "'Iterator")):
            continue
        if any(isinstance(x, (ast.Yield, ast.YieldFrom)) for x in ast.walk(node)):
            continue
        n += 1
        if _can_fall(node.body):
            r.fail(f'{fi.qualname}:falls-off', f'{fi.qualname} is declared to return {rt} but a path reaches the end of its body: the caller receives None', fi.where)
    r.counts['functions with a declared result'] = n
    r.floor('functions with a declared result', n, 400)
    fx = ast.parse('def f(a) -> int:\n    if a:\n        return 1\n').body[0]
    if not _can_fall(fx.body):
        raise AnalysisError('X12', 'embedded positive fixture no longer fires')
    return r


# ====================================================================== X13
def X13(ctx: Ctx, mode: str = 'access') -> RuleResult:
    if mode == 'asserts':
        r = RuleResult('X14', 'kind assertions hold: an `assert isinstance(x, C)` / `assert x.is_<kind>` about a value of declared AST class is implied by the kind tests the path has made on x (is_<kind> flags by the kind table, isinstance, arity, operator tests) - it documents what the tests established, it does not filter; a path that reaches it with a weaker test raises AssertionError on a well-formed input')
    else:
        r = RuleResult('X13', 'attribute access follows the node kind: an attribute that only some AST classes have (.operator, .operand, .a/.b, .arity, .value, .name, .function, .index, ...) is read from a value declared with a wider class only where the path - or the earlier operands of the same and/or/conditional expression - has narrowed it to classes that all have it (is_<kind> flags by the kind table, isinstance tests and asserts, arity == 1/2, tests on its operator); otherwise a well-formed input of another kind raises AttributeError')
    import json
    from .report import VERIF
    from .terms import (Attr, BoundMethod, Call, ClassRef, Comp, Const, Evaluator, Ext, Fmt, Ite, New, Op, Store, Sub, Sym, Template, Term, TupleT, default_inline, unglobal)
    m = ctx.model
    kinds = json.loads((VERIF / 'oracle' / 'kind_flags.json').read_text())['true_in']
    ast_names = {k.name for k in m.ast_classes()}

    def pol(f: FunctionInfo, d: int) -> bool:
        # looked through: properties, one-line functions / methods, and small predicates (declared to return bool):
        # these are the helpers that carry kind tests (is_and(x), _is_negation(x), self._has_literal_index())
        if f.kind == 'property':
            return default_inline(f, d)
        body = [st for st in f.node.body if not (isinstance(st, ast.Expr) and isinstance(st.value, ast.Constant))]
        if len(body) == 1 and isinstance(body[0], ast.Return):
            return default_inline(f, d)
        if f.node.returns is not None and ast.unparse(f.node.returns) == 'bool' and default_inline(f, d):
            return True
        # a small method of a module-private class (a record of the values one function works with): its objects exist
        # only inside the functions that build them, and what it may assume about its arguments is what those establish
        if _private_helper(f) and d <= 3:
            looked_through.add(f.key)
            return True
        return False
    looked_through: Set[str] = set()

    def _private_helper(f: FunctionInfo) -> bool:
        return f.cls is not None and f.cls.name.startswith('_') and f.kind == 'method' and not f.name.startswith('__') \
            and not any(isinstance(x, (ast.While, ast.For, ast.With, ast.Try, ast.Yield, ast.YieldFrom)) for x in ast.walk(f.node)) \
            and sum(1 for x in ast.walk(f.node) if isinstance(x, ast.stmt)) <= 10
    ev = Evaluator(m, inline=pol)

    def defines(cls, attr: str) -> bool:
        return cls.field(attr) is not None or cls.resolve(attr) is not None or any(attr in k.class_assigns for k in cls.mro())

    def facts_of(t: Term, pol_: bool, out: List):
        """constraints (subject, universe -> classes still possible) that hold when t evaluates to pol_"""
        while isinstance(t, Op) and t.op == 'not' and len(t.args) == 1:
            t, pol_ = t.args[0], not pol_
        if isinstance(t, Op) and ((t.op == 'and' and pol_) or (t.op == 'or' and not pol_)):
            for a in t.args:
                facts_of(a, pol_, out)
            return
        if isinstance(t, Op) and ((t.op == 'or' and pol_) or (t.op == 'and' and not pol_)):
            # one of the operands decides: a subject constrained by every operand is constrained by the union
            per = []
            for a in t.args:
                fa: List = []
                facts_of(a, pol_, fa)
                per.append(fa)
            if per:
                for subj in {x for fa in per for x, _ in fa}:
                    if True:
                        # an operand that says nothing about the subject leaves every class possible
                        fns = [[fn for y, fn in fa if y == subj] for fa in per]

                        def union(u, fns=fns):
                            out_: Set[str] = set()
                            for group in fns:
                                cur = set(u)
                                for fn in group:
                                    cur = fn(cur)
                                out_ |= cur
                            return out_
                        out.append((subj, union))
            return
        if isinstance(t, Attr) and t.name in kinds:
            ks = set(kinds[t.name])
            out.append((t.base, (lambda u, ks=ks: u & ks) if pol_ else (lambda u, ks=ks: u - ks)))
            return
        if isinstance(t, Call) and isinstance(t.func, Ext) and t.func.name == 'isinstance' and len(t.args) == 2 and pol_:
            ts = t.args[1].items if isinstance(t.args[1], TupleT) else (t.args[1],)
            s_: Set[str] = set()
            for x in ts:
                if isinstance(x, ClassRef) and x.name in m.classes:
                    s_ |= {k.name for k in m.subclasses(m.classes[x.name])}
            out.append((t.args[0], lambda u, s_=s_: u & s_))
            return

        def only(name: str):
            return lambda u: u & {k.name for k in m.subclasses(m.classes[name])} if name in m.classes else u
        if isinstance(t, Op) and t.op == '==' and len(t.args) == 2 and isinstance(t.args[0], Attr) and t.args[0].name == 'arity' and isinstance(t.args[1], Const) and pol_:
            if t.args[1].value in (1, 2):
                out.append((t.args[0].base, only('HplUnaryOperator' if t.args[1].value == 1 else 'HplBinaryOperator')))
            return
        if isinstance(t, Op) and t.op in ('==', 'is') and len(t.args) == 2 and isinstance(t.args[0], Attr) and t.args[0].name == 'operator' and pol_:
            rhs = unglobal(t.args[1])
            side = None
            if isinstance(rhs, New) and rhs.cls in ('UnaryOperatorDefinition', 'BinaryOperatorDefinition'):
                side = rhs.cls
            elif isinstance(rhs, Call) and isinstance(rhs.func, BoundMethod) and isinstance(rhs.func.recv, ClassRef) and rhs.func.recv.name in ('UnaryOperatorDefinition', 'BinaryOperatorDefinition'):
                side = rhs.func.recv.name
            if side:
                out.append((t.args[0].base, only('HplUnaryOperator' if side == 'UnaryOperatorDefinition' else 'HplBinaryOperator')))
            return
        if isinstance(t, Attr) and isinstance(t.base, Attr) and t.base.name == 'operator' and pol_ and t.name.startswith('is_'):
            un = m.classes['UnaryOperatorDefinition'].resolve(t.name) is not None if 'UnaryOperatorDefinition' in m.classes else False
            bi = m.classes['BinaryOperatorDefinition'].resolve(t.name) is not None if 'BinaryOperatorDefinition' in m.classes else False
            if un != bi:
                out.append((t.base.base, only('HplUnaryOperator' if un else 'HplBinaryOperator')))

    def classes_of(X: Term, facts: List):
        bt = ev.type_of(X)
        if bt is None or bt.name not in ast_names:
            return None
        cands = {k.name for k in m.subclasses(bt)}
        narrowed = False
        for (Y, fn) in facts:
            if Y != X and not (isinstance(Y, Ite) and X in (Y.a, Y.b)):
                continue
            cands = fn(cands)
            narrowed = True
        return bt, cands, narrowed
    hits: Dict[Tuple[str, str], Tuple[List[str], str]] = {}

    def children(t: Term):
        if isinstance(t, Op):
            return t.args
        if isinstance(t, Call):
            return (t.func,) + tuple(t.args) + tuple(v for _, v in t.kwargs)
        if isinstance(t, BoundMethod):
            return (t.recv,)
        if isinstance(t, TupleT):
            return t.items
        if isinstance(t, New):
            return tuple(v for _, v in t.fields)
        if isinstance(t, Sub):
            return (t.base, t.index)
        if isinstance(t, Template):
            return t.parts
        if isinstance(t, Fmt):
            return (t.value,)
        if isinstance(t, Comp):
            return (t.elt,) + tuple(it for _, it, _ in t.gens)
        if isinstance(t, Store):
            return (t.target, t.value)
        return ()

    def lift(t: Term) -> Term:
        """a conditional value tested several times in one boolean expression (x = a if c else b; x.p and x.q): the
        condition is lifted out, so that each arm is read with its own value"""
        if isinstance(t, Op) and t.op in ('and', 'or', 'not'):
            args = [lift(a) for a in t.args]
            first = next((a for a in args if isinstance(a, Ite)), None)
            if first is not None and sum(1 for a in args if isinstance(a, Ite) and a.test == first.test) >= 1 and len(repr(t)) < 4000:
                ta = Op(t.op, tuple(a.a if isinstance(a, Ite) and a.test == first.test else a for a in args))
                tb = Op(t.op, tuple(a.b if isinstance(a, Ite) and a.test == first.test else a for a in args))
                return Ite(first.test, lift(ta), lift(tb))
            return Op(t.op, tuple(args))
        if isinstance(t, Attr) and isinstance(t.base, Ite):
            return Ite(t.base.test, lift(Attr(t.base.a, t.name)), lift(Attr(t.base.b, t.name)))
        return t

    def check(t: Term, facts: List, fi: FunctionInfo, line: int):
        if isinstance(t, (Op, Attr)):
            t = lift(t)
        if isinstance(t, Op) and t.op in ('and', 'or'):
            f_ = list(facts)
            for a in t.args:
                check(a, f_, fi, line)
                facts_of(a, t.op == 'and', f_)
            return
        if isinstance(t, Ite):
            check(t.test, facts, fi, line)
            fa = list(facts)
            facts_of(t.test, True, fa)
            check(t.a, fa, fi, line)
            fb = list(facts)
            facts_of(t.test, False, fb)
            check(t.b, fb, fi, line)
            return
        if type(t).__name__ == 'Raises':
            return
        if isinstance(t, (Attr, BoundMethod)):
            base = t.base if isinstance(t, Attr) else t.recv
            check(base, facts, fi, line)
            name = t.name
            if isinstance(base, (Sym, Attr, Call)) and not name.startswith('__'):
                got = classes_of(base, facts)
                if got is not None:
                    bt, cands, narrowed = got
                    if not defines(bt, name):
                        ks = [m.classes[n] for n in cands if m.is_leaf(m.classes[n])] if narrowed else [k for k in m.subclasses(bt) if m.is_leaf(k)]
                        bad = sorted(k.name for k in ks if not defines(k, name))
                        if bad:
                            hits.setdefault((fi.qualname, f'{str(base)[:50]}.{name}'), (bad[:4], f'{fi.module.relpath}:{line}'))
            return
        for ch in children(t):
            check(ch, facts, fi, line)
    _inv_cache: Dict[Tuple[str, str], bool] = {}

    def stored_invariant(cls_, fld) -> bool:
        k_ = (cls_.name, fld.name)
        if k_ not in _inv_cache:
            from .rules_attrs import field_narrowings
            try:
                _inv_cache[k_] = bool(field_narrowings(ctx, cls_, fld))
            except AnalysisError:
                _inv_cache[k_] = False
        return _inv_cache[k_]
    n = 0
    # helpers of private classes come last: one that was looked through at its call sites has been judged there
    for fi in sorted(m.all_functions(), key=_private_helper):
        if fi.module.name.endswith('_unused'):
            continue
        if _private_helper(fi) and fi.key in looked_through:
            continue
        args = {}
        for a_ in fi.node.args.args + fi.node.args.kwonlyargs:
            k = ctx.ev.ann_class(a_.annotation, fi.module) if a_.annotation is not None else None
            if a_.arg == 'self' and fi.cls is not None:
                k = fi.cls
            args[a_.arg] = Sym(a_.arg, k.name if k else None)
        try:
            outs = ev.run(fi, args, self_cls=fi.cls) if fi.cls is not None else ev.run(fi, args)
        except AnalysisError:
            continue
        n += 1
        if mode == 'asserts':
            from .terms import eval_bool, implied_literals, guards_consistent
            for o in outs:
                # an assertion that the conditions of its own path refute (a case fell through to the "cannot happen" line)
                if o.asserts:
                    def leaves(t_):
                        if isinstance(t_, Op) and t_.op in ('and', 'or', 'not'):
                            for a_ in t_.args:
                                yield from leaves(a_)
                        else:
                            yield t_
                    for at in o.asserts:
                        atoms = set(leaves(at))
                        rel = tuple((g, p_) for g, p_ in o.guards if atoms & set(leaves(g)))
                        if not rel or not guards_consistent(rel, 14):
                            continue
                        known = {t_: v_ for t_, v_ in implied_literals(rel, 14)}
                        if known and eval_bool(at, known) is False:
                            hits.setdefault((fi.qualname, 'refuted ' + str(at)[:60]), (['<any>'], f'{fi.module.relpath}:{o.lineno}'))
                for at in o.asserts:
                    # the tests made before the assertion was reached
                    depth = max([d_ for d_ in ev.assert_depth.get((fi.key, at), []) if d_ <= len(o.guards)] or [len(o.guards)])
                    gfacts: List = []
                    for g, pol_ in o.guards[:depth]:
                        facts_of(g, pol_, gfacts)
                    claim: List = []
                    facts_of(at, True, claim)
                    for X, fn in claim:
                        if isinstance(X, Ite):
                            continue    # about a value chosen between two others: not a statement about one tested value
                        if isinstance(X, Attr) and isinstance(X.base, Sym) and X.base.name == 'self' and fi.cls is not None:
                            # about a stored child of self whose field is narrowed on construction (converter / validator):
                            # the assertion restates part of that field's invariant, which this analysis does not model
                            fld = fi.cls.field(X.name)
                            if fld is not None and stored_invariant(fi.cls, fld):
                                continue
                        bt = ev.type_of(X)
                        if bt is None or bt.name not in ast_names:
                            continue
                        cur = {k.name for k in m.subclasses(bt)}
                        if not any(Y == X for Y, _ in gfacts):
                            continue    # nothing tested here: a precondition / invariant stated by the assertion, not a conclusion
                        for Y, gfn in gfacts:
                            if Y == X:
                                cur = gfn(cur)
                        leaf = {n_ for n_ in cur if m.is_leaf(m.classes[n_])}
                        rest = sorted(leaf - fn(set(leaf)))
                        if rest:
                            hits.setdefault((fi.qualname, str(at)[:70]), (rest[:4], f'{fi.module.relpath}:{o.lineno}'))
            continue
        for o in outs:
            facts: List = []
            for a in o.asserts:
                facts_of(a, True, facts)    # asserts are the type annotations of this code base (order against the guards is not recorded)
            for g, pol_ in o.guards:
                check(g, facts, fi, o.lineno)
                facts_of(g, pol_, facts)
            # (the text of an error that is being raised anyway is not judged)
            for t in list(o.effects) + ([o.value] if o.value is not None and o.kind != 'raise' else []) + list(o.asserts):
                check(t, facts, fi, o.lineno)
    for (fn, acc), (bad, where) in sorted(hits.items()):
        if mode == 'asserts' and acc.startswith('refuted '):
            r.fail(f'{fn}:assert {acc}', f'{fn} reaches the assertion {acc[8:]} on a path whose own conditions make it false: AssertionError instead of a result', where)
        elif mode == 'asserts':
            r.fail(f'{fn}:assert {acc}', f'{fn} asserts {acc} on a path whose tests still allow {" / ".join(bad)}: AssertionError on a well-formed input of that kind', where)
        else:
            r.fail(f'{fn}:{acc}', f'{fn} reads {acc} where the value can still be a {" / ".join(bad)} (no test on the way rules these out): AttributeError on a well-formed input of that kind', where)
    r.counts['functions analysed'] = n
    r.floor('functions analysed', n, 500)
    return r


def X14(ctx: Ctx) -> RuleResult:
    return X13(ctx, 'asserts')


# ======================================================================= X2
def X2(ctx: Ctx) -> RuleResult:
    r = RuleResult('X2', 'subscripts vs arity: call.arguments[k] under a `fun.name == F` test stays below the smallest overload arity of F unless a len() test dominates it')
    rows = {row['name']: row for row in function_rows(ctx).values()}
    mod = ctx.model.module('hpl.rewrite', 'X2')
    n = 0

    def min_arity(fname: str) -> Optional[int]:
        row = rows.get(fname)
        if row is None:
            return None
        return min(len(sig[0]) for sig in row['overloads'])

    def check_body(body: List[ast.stmt], fname: str, fi: FunctionInfo, via: str, depth: int = 0):
        nonlocal n
        ma = min_arity(fname)
        if ma is None:
            return
        for st in body:
            for node in ast.walk(st):
                if isinstance(node, ast.Subscript) and isinstance(node.value, ast.Attribute) and node.value.attr == 'arguments' and isinstance(node.slice, ast.Constant) and isinstance(node.slice.value, int):
                    k = node.slice.value
                    n += 1
                    if k < ma:
                        r.ok(f'{via}[{fname}]: arguments[{k}] < min arity {ma}')
                    elif _len_guarded(body, node, k):
                        r.ok(f'{via}[{fname}]: arguments[{k}] guarded by a len() test')
                    else:
                        r.fail(f'{fi.qualname}[{fname}]:arguments[{k}]', f"branch for function '{fname}' reads arguments[{k}] but '{fname}' has an overload with only {ma} parameter(s): IndexError", f'{fi.module.relpath}:{node.lineno}')
                if depth == 0 and isinstance(node, ast.Call) and isinstance(node.func, ast.Name) and node.func.id in mod.functions and node.func.id.startswith('_simplify_function_'):
                    helper = mod.functions[node.func.id]
                    check_body(helper.node.body, fname, helper, helper.qualname, 1)

    for fi in mod.functions.values():
        for node in ast.walk(fi.node):
            if isinstance(node, ast.If):
                t = node.test
                if isinstance(t, ast.Compare) and len(t.ops) == 1 and isinstance(t.ops[0], ast.Eq) and isinstance(t.comparators[0], ast.Constant) and isinstance(t.comparators[0].value, str) and ast.unparse(t.left).endswith('.name'):
                    check_body(node.body, t.comparators[0].value, fi, fi.qualname)
    r.floor('argument subscripts', n, 16)
    return r


def _len_guarded(body: List[ast.stmt], target: ast.AST, k: int) -> bool:
    """`target` is dominated in `body` by a test on len(<x>.arguments) that implies more than k arguments"""
    def implies(test: ast.expr, positive: bool) -> bool:
        for c in ast.walk(test):
            if isinstance(c, ast.Compare) and len(c.ops) == 1 and isinstance(c.left, ast.Call) and ast.unparse(c.left.func) == 'len' and c.left.args and ast.unparse(c.left.args[0]).endswith('arguments') and isinstance(c.comparators[0], ast.Constant):
                v = c.comparators[0].value
                op = c.ops[0]
                if positive:
                    if (isinstance(op, ast.Gt) and v >= k) or (isinstance(op, ast.GtE) and v > k) or (isinstance(op, ast.Eq) and v > k):
                        return True
                else:
                    if (isinstance(op, ast.Lt) and v > k) or (isinstance(op, ast.LtE) and v >= k) or (isinstance(op, ast.Eq) and v <= k and v == k):
                        return True
        return False

    def walk(stmts: List[ast.stmt], guarded: bool) -> Optional[bool]:
        g = guarded
        for st in stmts:
            if any(target is x for x in ast.walk(st)):
                if isinstance(st, ast.If):
                    if any(target is x for x in ast.walk(st.test)):
                        return g
                    in_body = any(target is x for b in st.body for x in ast.walk(b))
                    if in_body:
                        return walk(st.body, g or implies(st.test, True))
                    return walk(st.orelse, g or implies(st.test, False))
                if isinstance(st, (ast.For, ast.While, ast.With, ast.Try)):
                    for sub in ('body', 'orelse', 'finalbody'):
                        blk = getattr(st, sub, None) or []
                        if any(target is x for b in blk for x in ast.walk(b)):
                            return walk(blk, g)
                    for h in getattr(st, 'handlers', []):
                        if any(target is x for b in h.body for x in ast.walk(b)):
                            return walk(h.body, g)
                return g
            # an early exit under a negative test guards everything after it
            if isinstance(st, ast.If) and st.body and isinstance(st.body[-1], (ast.Return, ast.Raise)) and not st.orelse and implies(st.test, False):
                g = True
        return g
    return bool(walk(body, False))


# ================================================================ call graph
class CallGraph:
    def __init__(self, ctx: Ctx):
        self.ctx = ctx
        m = ctx.model
        self.by_name: Dict[str, List[FunctionInfo]] = {}
        for fi in m.all_functions():
            self.by_name.setdefault(fi.name, []).append(fi)
        self.edges: Dict[str, Set[str]] = {}
        self.fn: Dict[str, FunctionInfo] = {fi.key: fi for fi in m.all_functions()}
        for fi in m.all_functions():
            self.edges[fi.key] = self._callees(fi)

    def _ctor_edges(self, c: ClassInfo) -> Set[str]:
        out: Set[str] = set()
        for k in c.mro():
            for name in ('__attrs_post_init__', '__init__'):
                if name in k.methods:
                    out.add(k.methods[name].key)
            for vs in k.validators.values():
                for v in vs:
                    out.add(k.methods[v].key)
            for d in k.default_methods.values():
                out.add(k.methods[d].key)
            for f in k.own_fields:
                for kw in ('converter', 'validator', 'factory', 'default'):
                    node = f.kwargs.get(kw)
                    if node is None:
                        continue
                    for n in ast.walk(node):
                        if isinstance(n, ast.Name):
                            res = self.ctx.model.resolve_name(k.module, n.id)
                            if res and res[0] == 'func':
                                out.add(res[1].key)
                                # validator factories return closures defined inside them: treat the factory body as called
        return out

    def _callees(self, fi: FunctionInfo) -> Set[str]:
        out: Set[str] = set()
        m = self.ctx.model
        for node in ast.walk(fi.node):
            if isinstance(node, ast.Call):
                f = node.func
                if isinstance(f, ast.Name):
                    res = m.resolve_name(fi.module, f.id)
                    if res and res[0] == 'func':
                        out.add(res[1].key)
                    elif res and res[0] == 'class':
                        out |= self._ctor_edges(res[1])
                    elif res and res[0] == 'const':
                        # alias such as And = BinOp.conjunction
                        val = res[1].assigns[res[2]]
                        if isinstance(val, ast.Attribute):
                            for cand in self.by_name.get(val.attr, []):
                                out.add(cand.key)
                    elif f.id in ('cls',) and fi.cls is not None:
                        for sub in m.subclasses(fi.cls):
                            out |= self._ctor_edges(sub)
                elif isinstance(f, ast.Attribute):
                    for cand in self.by_name.get(f.attr, []):
                        if cand.cls is not None:
                            out.add(cand.key)
                    if f.attr in ('evolve',):
                        for c in m.ast_classes():
                            out |= self._ctor_edges(c)
            elif isinstance(node, ast.Attribute) and isinstance(node.ctx, ast.Load):
                for cand in self.by_name.get(node.attr, []):
                    if cand.kind == 'property':
                        out.add(cand.key)
        # evolve(...) imported as a name
        for node in ast.walk(fi.node):
            if isinstance(node, ast.Call) and isinstance(node.func, ast.Name) and node.func.id == 'evolve':
                for c in m.ast_classes():
                    out |= self._ctor_edges(c)
        return out

    def reach(self, roots: List[str]) -> Set[str]:
        seen = set(roots)
        todo = list(roots)
        while todo:
            k = todo.pop()
            for e in self.edges.get(k, ()):
                if e not in seen:
                    seen.add(e)
                    todo.append(e)
        return seen


def callgraph(ctx: Ctx) -> CallGraph:
    return ctx.memo('callgraph', lambda: CallGraph(ctx))


def raise_class(ctx: Ctx, fi: FunctionInfo, node: ast.Raise) -> str:
    """exception class raised by a raise statement (factories in errors.py and classmethod factories resolved)"""
    e = node.exc
    if e is None:
        return '<reraise>'
    m = ctx.model
    if isinstance(e, ast.Name):
        res = m.resolve_name(fi.module, e.id)
        if res and res[0] == 'class':
            return res[1].name
        # `raise err` of a caught exception
        for h in ast.walk(fi.node):
            if isinstance(h, ast.ExceptHandler) and h.name == e.id:
                return '<reraise>'
        return e.id
    if isinstance(e, ast.Call):
        f = e.func
        if isinstance(f, ast.Name):
            res = m.resolve_name(fi.module, f.id)
            if res and res[0] == 'class':
                return res[1].name
            if res and res[0] == 'func':
                return _returned_class(ctx, res[1])
            return f.id
        if isinstance(f, ast.Attribute):
            base = ast.unparse(f.value)
            res = m.resolve_name(fi.module, base.split('.')[0])
            if res and res[0] == 'class':
                meth = res[1].resolve(f.attr)
                if meth is not None:
                    rc = _returned_class(ctx, meth)
                    return res[1].name if rc in ('cls', '?') else rc
                return res[1].name
            return base + '.' + f.attr
    return ast.unparse(e)[:40]


def _returned_class(ctx: Ctx, fi: FunctionInfo) -> str:
    classes = set()
    for n in ast.walk(fi.node):
        if isinstance(n, ast.Return) and n.value is not None:
            v = n.value
            if isinstance(v, ast.Call) and isinstance(v.func, ast.Name):
                classes.add(v.func.id)
            else:
                classes.add('?')
    if len(classes) == 1:
        return classes.pop()
    return '?'


def _handled_by(fi: FunctionInfo, node: ast.AST) -> List[str]:
    """exception class names of enclosing handlers (try bodies that contain `node`)"""
    out: List[str] = []
    for t in ast.walk(fi.node):
        if isinstance(t, ast.Try) and any(node is x for b in t.body for x in ast.walk(b)):
            for h in t.handlers:
                if h.type is None:
                    out.append('BaseException')
                else:
                    out.extend(ast.unparse(x) for x in (h.type.elts if isinstance(h.type, ast.Tuple) else [h.type]))
    return out


PARSE_ALLOWED = {'HplSyntaxError', 'HplSanityError', 'TypeError', 'ValueError'}


def parse_roots(ctx: Ctx) -> List[str]:
    m = ctx.model
    pm = m.module('hpl.parser', 'X3a')
    roots = [f.key for n, f in pm.functions.items() if n.startswith('parse_')]
    pt = m.cls('PropertyTransformer', 'X3a')
    roots += [f.key for k in pt.mro() for f in k.methods.values()]
    hp = m.cls('HplParser', 'X3a')
    roots += [f.key for f in hp.methods.values()]
    return roots


def X3a(ctx: Ctx) -> RuleResult:
    r = RuleResult('X3a', 'raise vocabulary of parsing: every raise site reachable from the parse_* entry points / transformer callbacks raises HplSyntaxError, HplSanityError, TypeError or ValueError')
    cg = callgraph(ctx)
    roots = parse_roots(ctx)
    reach = cg.reach(roots)
    n = 0
    for key in sorted(reach):
        fi = cg.fn[key]
        for node in ast.walk(fi.node):
            if isinstance(node, ast.Raise):
                n += 1
                cls = raise_class(ctx, fi, node)
                where = f'{fi.module.relpath}:{node.lineno}'
                if cls in PARSE_ALLOWED:
                    r.ok(f'{fi.qualname}: raise {cls}')
                elif cls == 'NotImplementedError':
                    r.ok(f'{fi.qualname}: abstract stub (discharged by S6)')
                elif cls == '<reraise>':
                    r.ok(f'{fi.qualname}: re-raise of a caught exception')
                else:
                    r.fail(f'{fi.qualname}:raise {cls}', f'reachable from parsing and raises {cls}, outside the documented set {sorted(PARSE_ALLOWED)}', where)
    r.counts['reachable functions'] = len(reach)
    r.floor('reachable raise sites', n, 20)
    r.facts = r.facts[:40]
    return r


def X3b(ctx: Ctx) -> RuleResult:
    r = RuleResult('X3b', 'explicit raises of the rewriter are the documented ones: ZeroDivisionError under a zero-divisor test, ValueError for a literally false conjunct / missing inverse, defensive TypeError defaults')
    mod = ctx.model.module('hpl.rewrite', 'X3b')
    n = 0
    roots_of = _public_roots(mod)
    for fi in mod.functions.values():
        roots = roots_of(fi.name)
        for node in ast.walk(fi.node):
            if not isinstance(node, ast.Raise):
                continue
            n += 1
            cls = raise_class(ctx, fi, node)
            where = f'{mod.relpath}:{node.lineno}'
            tests = _dominating_tests(fi.node, node)
            txt = ' && '.join(tests)
            key = f'{fi.qualname}:raise {cls}'
            if cls == 'ZeroDivisionError':
                if any('.value == 0' in t for t in tests) and roots == {'simplify'}:
                    r.ok(f'{fi.qualname}: ZeroDivisionError under a literal-zero divisor test')
                else:
                    r.fail(key, f'ZeroDivisionError raised without a dominating divisor == 0 test ({txt})', where)
            elif cls == 'ValueError':
                if roots == {'split_and'} and any('is_false' in t for t in tests):
                    r.ok(f'{fi.qualname}: ValueError for a literally false conjunct')
                elif fi.name == 'inverse_operator' and any('is None' in t for t in tests):
                    r.ok(f'{fi.qualname}: ValueError when the operator has no inverse')
                else:
                    r.fail(key, f'undocumented ValueError ({txt})', where)
            elif cls == 'TypeError':
                # defensive default at the end of a kind dispatch
                if _is_last_statement(fi.node, node) and 'unknown' in ast.unparse(node).lower():
                    r.ok(f'{fi.qualname}: defensive "unknown ..." TypeError after an exhaustive kind dispatch')
                else:
                    r.fail(key, f'undocumented TypeError ({txt})', where)
            else:
                r.fail(key, f'the rewriter raises {cls}: not a documented outcome of simplify/split_and/refactor_reference/canonical_form', where)
    r.floor('raise sites in rewrite.py', n, 5)
    return r


def _public_roots(mod):
    """name -> the public functions of the module from which it is reachable (itself when public)"""
    # module-level tables of functions (dispatch by kind): whoever reads the table may call what it holds
    tables = {name: {mod.functions[x.id].name for x in ast.walk(val) if isinstance(x, ast.Name) and x.id in mod.functions}
              for name, val in mod.assigns.items() if isinstance(val, (ast.Dict, ast.Tuple, ast.List, ast.Call))}
    calls = {f.name: {mod.functions[x.id].name for x in ast.walk(f.node) if isinstance(x, ast.Name) and x.id in mod.functions and mod.functions[x.id] is not f}
             | {g for x in ast.walk(f.node) if isinstance(x, ast.Name) and x.id in tables for g in tables[x.id] if g != f.name} for f in mod.functions.values()}
    callers: Dict[str, Set[str]] = {k: set() for k in calls}
    for k, vs in calls.items():
        for v in vs:
            callers[v].add(k)

    def roots(name: str) -> Set[str]:
        if not name.startswith('_'):
            return {name}
        seen, todo, out = {name}, [name], set()
        while todo:
            x = todo.pop()
            for c in callers.get(x, ()):
                if c in seen:
                    continue
                seen.add(c)
                if c.startswith('_'):
                    todo.append(c)
                else:
                    out.add(c)
        return out
    return roots


def _dominating_tests(fn: ast.AST, target: ast.AST) -> List[str]:
    out: List[str] = []

    def walk(stmts):
        for st in stmts:
            if not any(target is x for x in ast.walk(st)):
                continue
            if isinstance(st, ast.If):
                if any(target is x for b in st.body for x in ast.walk(b)):
                    out.append(ast.unparse(st.test))
                    walk(st.body)
                else:
                    out.append('not (' + ast.unparse(st.test) + ')')
                    walk(st.orelse)
            else:
                for sub in ('body', 'orelse', 'finalbody'):
                    walk(getattr(st, sub, None) or [])
                for h in getattr(st, 'handlers', []):
                    walk(h.body)
    walk(fn.body)
    return out


def _is_last_statement(fn: ast.FunctionDef, node: ast.AST) -> bool:
    """the raise closes a kind dispatch: it is the last statement of its block (the function body, or the branch
    that holds the dispatch), and everything before it in that block is an `if ...: return/raise` arm (or a plain
    assignment / assert / docstring)"""
    def blocks(n):
        for name in ('body', 'orelse', 'finalbody'):
            b = getattr(n, name, None)
            if isinstance(b, list) and b and isinstance(b[0], ast.stmt):
                yield b
                for st in b:
                    yield from blocks(st)
        for h in getattr(n, 'handlers', []) or []:
            yield from blocks(h)
    for b in blocks(fn):
        if b[-1] is node:
            for st in b[:-1]:
                if isinstance(st, ast.If):
                    last = st.body[-1]
                    if not isinstance(last, (ast.Return, ast.Raise)):
                        return False
                elif not isinstance(st, (ast.Assign, ast.AnnAssign, ast.Assert, ast.Expr)):
                    return False
            return True
    return False


# ======================================================================= X4
def _exc_attrs(cls) -> Set[str]:
    """attribute names an exception class (and its bases) defines: `self.x = ...` in methods + class attributes"""
    import inspect
    out: Set[str] = set()
    for k in cls.__mro__:
        if k in (object,):
            continue
        if k.__module__ == 'builtins':
            out.update(a for a in dir(k) if not a.startswith('__'))
            continue
        try:
            src = inspect.getsource(k)
        except (OSError, TypeError):
            continue
        import textwrap
        tree = ast.parse(textwrap.dedent(src))
        for n in ast.walk(tree):
            if isinstance(n, ast.Attribute) and isinstance(n.value, ast.Name) and n.value.id == 'self' and isinstance(n.ctx, ast.Store):
                out.add(n.attr)
            if isinstance(n, ast.FunctionDef):
                out.add(n.name)
            if isinstance(n, ast.ClassDef):
                for st in n.body:
                    if isinstance(st, ast.AnnAssign) and isinstance(st.target, ast.Name):
                        out.add(st.target.id)
                    if isinstance(st, ast.Assign):
                        for t in st.targets:
                            if isinstance(t, ast.Name):
                                out.add(t.id)
    return out


def X4(ctx: Ctx) -> RuleResult:
    r = RuleResult('X4', 'HplParser.parse: the lark call is inside a try whose handlers cover UnexpectedToken and UnexpectedCharacters, every handler raises HplSyntaxError built only from attributes every handled class has; nothing else in parser.py catches exceptions')
    hp = ctx.model.cls('HplParser', 'X4')
    fi = hp.methods.get('parse')
    if fi is None:
        raise AnalysisError('X4', 'HplParser.parse not found')
    # methods of HplParser reachable from parse through self.<method>() calls
    reach: List[FunctionInfo] = [fi]
    call_sites: Dict[str, List[Tuple[FunctionInfo, ast.Call]]] = {}
    todo = [fi]
    while todo:
        f0 = todo.pop()
        for n in ast.walk(f0.node):
            if isinstance(n, ast.Call) and isinstance(n.func, ast.Attribute) and isinstance(n.func.value, ast.Name) and n.func.value.id in ('self', 'cls'):
                m2 = hp.resolve(n.func.attr)
                if m2 is not None:
                    call_sites.setdefault(m2.key, []).append((f0, n))
                    if all(m2 is not x for x in reach):
                        reach.append(m2)
                        todo.append(m2)
    lark_calls = [(f0, n) for f0 in reach for n in ast.walk(f0.node)
                  if isinstance(n, ast.Call) and isinstance(n.func, ast.Attribute) and n.func.attr == 'parse' and 'lark' in ast.unparse(n.func.value)]
    if not lark_calls:
        raise AnalysisError('X4', 'no call of the lark parser found in HplParser.parse or the methods it calls')
    need = {'UnexpectedToken', 'UnexpectedCharacters'}
    guard_tries: List[ast.Try] = []

    def enclosing(f0: FunctionInfo, node: ast.AST) -> List[Tuple[FunctionInfo, ast.Try]]:
        out = [(f0, t) for t in ast.walk(f0.node) if isinstance(t, ast.Try) and any(node is x for b in t.body for x in ast.walk(b))]
        # `with helper():` around the node, helper being a @contextmanager generator of the package: the try statements
        # around its `yield` are around the node
        for w in ast.walk(f0.node):
            if isinstance(w, ast.With) and any(node is x for b in w.body for x in ast.walk(b)):
                for item in w.items:
                    ce = item.context_expr
                    if isinstance(ce, ast.Call) and isinstance(ce.func, ast.Name):
                        res = ctx.model.resolve_name(f0.module, ce.func.id)
                        cm = res[1] if res and res[0] == 'func' else None
                        if cm is not None and any(d.split('(')[0].split('.')[-1] == 'contextmanager' for d in cm.decorators):
                            for y in ast.walk(cm.node):
                                if isinstance(y, ast.Yield):
                                    out.extend(enclosing(cm, y))
        return out

    def handler_names(f0: FunctionInfo, h: ast.ExceptHandler) -> Set[str]:
        if h.type is None:
            return {'BaseException'}
        ty = h.type
        if isinstance(ty, ast.Name) and ty.id in f0.module.assigns and isinstance(f0.module.assigns[ty.id], ast.Tuple):
            ty = f0.module.assigns[ty.id]  # a module-level tuple of exception classes
        return {ast.unparse(x).split('.')[-1] for x in (ty.elts if isinstance(ty, ast.Tuple) else [ty])}

    def paths(f0: FunctionInfo, node: ast.AST, depth: int = 0) -> List[List[Tuple[FunctionInfo, ast.ExceptHandler]]]:
        """for every way control reaches `node` from parse: the handlers that enclose it"""
        own = [(ft, h) for ft, t in enclosing(f0, node) for h in t.handlers]
        guard_tries.extend(t for _, t in enclosing(f0, node))
        if f0 is fi or depth > 3:
            return [own]
        res = []
        for f1, site in call_sites.get(f0.key, []):
            for pth in paths(f1, site, depth + 1):
                res.append(own + pth)
        return res or [own]
    for f0, call in lark_calls:
        for handlers in paths(f0, call):
            names: Set[str] = set()
            for fh, h in handlers:
                names |= handler_names(fh, h)
            covered = need <= names or bool(names & {'UnexpectedInput', 'LarkError', 'Exception', 'BaseException'})
            if covered:
                r.ok(f'lark call in {f0.name} guarded by handlers {sorted(names)}')
            else:
                r.fail('HplParser.parse:handlers', f'lark exceptions {sorted(need - names)} are not caught: a raw lark error escapes instead of HplSyntaxError', f0.where, sorted(need), sorted(names))
            for fh, h in handlers:
                rs = [n for n in ast.walk(h) if isinstance(n, ast.Raise)]
                if not rs:
                    r.fail('HplParser.parse:handler-body', 'a handler swallows the parse error (no raise)', f'{fh.module.relpath}:{h.lineno}')
                for x in rs:
                    cls = raise_class(ctx, fh, x)
                    if cls != 'HplSyntaxError':
                        r.fail('HplParser.parse:handler-raise', f'handler raises {cls}, not HplSyntaxError', f'{fh.module.relpath}:{x.lineno}')
                    else:
                        r.ok('handler raises HplSyntaxError')
                # attributes read from the exception
                _check_exc_attrs(ctx, r, fh, h, handler_names(fh, h) if len(handlers) > 1 else names)
    # nothing else in parser.py catches
    pm = ctx.model.module('hpl.parser')
    for f2 in list(pm.functions.values()) + [m for c in pm.classes.values() for m in c.methods.values()]:
        for t in ast.walk(f2.node):
            if isinstance(t, ast.Try) and not any(t is g for g in guard_tries):
                ok = _int_float_fallback(t)
                if ok:
                    r.ok(f'{f2.qualname}: int()/float() fallback (except ValueError)')
                else:
                    r.fail(f'{f2.qualname}:try', 'try/except in parser.py outside HplParser.parse: an error class may be swallowed or changed', f'{pm.relpath}:{t.lineno}')
    return r


def _int_float_fallback(t: ast.Try) -> bool:
    if len(t.handlers) != 1 or t.handlers[0].type is None or ast.unparse(t.handlers[0].type) != 'ValueError':
        return False
    body_calls = [ast.unparse(n.func) for b in t.body for n in ast.walk(b) if isinstance(n, ast.Call)]
    return 'int' in body_calls


def _check_exc_attrs(ctx: Ctx, r: RuleResult, fi: FunctionInfo, h: ast.ExceptHandler, names: Set[str]):
    import lark.exceptions as le
    classes = []
    for n in names:
        if hasattr(le, n):
            classes.append(getattr(le, n))
        elif n in ('SyntaxError', 'Exception', 'BaseException'):
            classes.append({'SyntaxError': SyntaxError, 'Exception': Exception, 'BaseException': BaseException}[n])
    if 'UnexpectedToken' not in names and not names & {'Exception', 'BaseException', 'LarkError', 'UnexpectedInput'}:
        return
    common = None
    for c in classes:
        a = _exc_attrs(c)
        common = a if common is None else common & a
    common = common or set()
    # attributes read in the handler and, one level deep, in the factory it calls with the exception
    reads: List[Tuple[str, str, int]] = []
    var = h.name
    if var:
        for n in ast.walk(h):
            if isinstance(n, ast.Attribute) and isinstance(n.value, ast.Name) and n.value.id == var:
                reads.append((n.attr, fi.qualname, n.lineno))
            if isinstance(n, ast.Call) and any(isinstance(a, ast.Name) and a.id == var for a in n.args):
                callee = None
                if isinstance(n.func, ast.Attribute):
                    res = ctx.model.resolve_name(fi.module, ast.unparse(n.func.value).split('.')[0])
                    if res and res[0] == 'class':
                        callee = res[1].resolve(n.func.attr)
                elif isinstance(n.func, ast.Name):
                    res = ctx.model.resolve_name(fi.module, n.func.id)
                    if res and res[0] == 'func':
                        callee = res[1]
                if callee is not None:
                    idx = [i for i, a in enumerate(n.args) if isinstance(a, ast.Name) and a.id == var][0]
                    params = callee.params()
                    if callee.kind in ('classmethod', 'method'):
                        params = params[1:]
                    if idx < len(params):
                        p = params[idx]
                        for m in ast.walk(callee.node):
                            if isinstance(m, ast.Attribute) and isinstance(m.value, ast.Name) and m.value.id == p:
                                reads.append((m.attr, callee.qualname, m.lineno))
                            if isinstance(m, ast.Call) and isinstance(m.func, ast.Name) and m.func.id == 'getattr' and m.args and isinstance(m.args[0], ast.Name) and m.args[0].id == p and len(m.args) == 2 and isinstance(m.args[1], ast.Constant):
                                reads.append((m.args[1].value, callee.qualname, m.lineno))
    for attr, where_fn, line in reads:
        if attr in common:
            r.ok(f'{where_fn}: reads .{attr}, defined by every handled exception class')
        else:
            missing = [c.__name__ for c in classes if attr not in _exc_attrs(c)]
            r.fail(f'{where_fn}:exc.{attr}', f'reads .{attr} of the caught exception, which {missing} do not define: AttributeError instead of HplSyntaxError for those inputs', f'{line}')


# ======================================================================= X5
def X5(ctx: Ctx, roots_kind: str = 'parse') -> RuleResult:
    r = RuleResult('X5', 'assert census: every assert reachable from the entry points, classified (informational: undecided asserts are listed, never reported as violations)')
    cg = callgraph(ctx)
    if roots_kind == 'parse':
        roots = parse_roots(ctx)
    else:
        mod = ctx.model.module('hpl.rewrite')
        roots = [f.key for n, f in mod.functions.items() if not n.startswith('_')]
    reach = cg.reach(roots)
    kinds = {'isinstance': 0, 'not-none': 0, 'length': 0, 'kind-predicate': 0, 'other': 0}
    undecided: List[str] = []
    n = 0
    for key in sorted(reach):
        fi = cg.fn[key]
        for node in ast.walk(fi.node):
            if isinstance(node, ast.Assert):
                n += 1
                src = ast.unparse(node.test)
                if src.startswith('isinstance('):
                    kinds['isinstance'] += 1
                elif ' is not None' in src:
                    kinds['not-none'] += 1
                elif 'len(' in src:
                    kinds['length'] += 1
                elif '.is_' in src or src.startswith('not '):
                    kinds['kind-predicate'] += 1
                    undecided.append(f'{fi.qualname}: assert {src[:60]}')
                else:
                    kinds['other'] += 1
                    undecided.append(f'{fi.qualname}: assert {src[:60]}')
    r.instances = n
    r.discharged = n
    r.counts.update(kinds)
    r.counts['asserts'] = n
    for u in undecided[:12]:
        r.fact('undecided ' + u)
    r.notes.append(f'{len(undecided)} asserts are shape/kind assertions not decided statically (listed in evidence samples)')
    return r


def X5r(ctx: Ctx) -> RuleResult:
    res = X5(ctx, 'rewrite')
    res.rule = 'X5r'
    return res


# ======================================================================= X6
_MUTATORS = {'append', 'extend', 'add', 'update', 'pop', 'popitem', 'clear', 'remove', 'discard', 'insert', 'setdefault', 'sort', 'reverse', '__setitem__', 'appendleft'}


def X6(ctx: Ctx) -> RuleResult:
    r = RuleResult('X6', 'statelessness: transformer callbacks and parser objects store nothing; no analysed function mutates module-level state')
    pt = ctx.model.cls('PropertyTransformer', 'X6')
    hp = ctx.model.cls('HplParser', 'X6')
    n = 0
    for c in [k for k in pt.mro()] + [hp]:
        for fi in c.methods.values():
            n += 1
            bad = _self_mutations(fi)
            if bad:
                for what, line in bad:
                    r.fail(f'{fi.qualname}:{what}', f'{fi.qualname} keeps state on the shared object ({what}): a later parse can depend on an earlier (possibly failed) one', f'{fi.module.relpath}:{line}')
            else:
                r.ok(f'{fi.qualname}: no state')
        for name, node in c.class_assigns.items():
            if isinstance(node, (ast.List, ast.Dict, ast.Set)) or (isinstance(node, ast.Call) and ast.unparse(node.func) in ('list', 'dict', 'set', 'defaultdict')):
                r.fail(f'{c.name}.{name}', f'class-level mutable attribute {name} is shared by every parser', c.where)
        if '__init__' in c.methods and c in pt.mro():
            r.fail('PropertyTransformer.__init__', 'the transformer defines instance state in __init__', c.methods['__init__'].where)
    if not hp.is_frozen:
        r.fail('HplParser:frozen', 'HplParser is not frozen', hp.where)
    # module-level mutable state
    mut_globals: Dict[Tuple[str, str], str] = {}
    for mod in ctx.model.modules.values():
        for name, node in mod.assigns.items():
            if isinstance(node, (ast.List, ast.Dict, ast.Set, ast.ListComp, ast.DictComp, ast.SetComp)) or (isinstance(node, ast.Call) and ast.unparse(node.func) in ('list', 'dict', 'set', 'defaultdict', 'collections.defaultdict', 'deque')):
                mut_globals[(mod.name, name)] = mod.relpath
    g = 0
    for fi in ctx.model.all_functions():
        for node in ast.walk(fi.node):
            if isinstance(node, (ast.Global, ast.Nonlocal)):
                g += 1
                r.fail(f'{fi.qualname}:global', f'{type(node).__name__.lower()} statement: module/closure state is written', f'{fi.module.relpath}:{node.lineno}')
            tgt = None
            if isinstance(node, ast.Call) and isinstance(node.func, ast.Attribute) and node.func.attr in _MUTATORS and isinstance(node.func.value, ast.Name):
                tgt = node.func.value.id
            if isinstance(node, (ast.Assign, ast.AugAssign)):
                for t in (node.targets if isinstance(node, ast.Assign) else [node.target]):
                    if isinstance(t, ast.Subscript) and isinstance(t.value, ast.Name):
                        tgt = t.value.id
            if tgt is not None:
                # is it a local?
                if tgt in _DA(fi.node).locals or tgt in fi.params():
                    continue
                res = ctx.model.resolve_name(fi.module, tgt)
                if res and res[0] == 'const' and (res[1].name, res[2]) in mut_globals:
                    r.fail(f'{fi.qualname}:{tgt}', f'mutates the module-level container {res[1].name}.{res[2]}', f'{fi.module.relpath}:{node.lineno}')
    # returning a module-level mutable container hands shared state to callers
    for fi in ctx.model.all_functions():
        for node in ast.walk(fi.node):
            if isinstance(node, ast.Return) and isinstance(node.value, ast.Name):
                if node.value.id in _DA(fi.node).locals or node.value.id in fi.params():
                    continue
                res = ctx.model.resolve_name(fi.module, node.value.id)
                if res and res[0] == 'const' and (res[1].name, res[2]) in mut_globals:
                    r.fail(f'{fi.qualname}:returns {node.value.id}', f'returns the module-level container {res[1].name}.{res[2]}: callers that update it change every later result', f'{fi.module.relpath}:{node.lineno}')
    # memoisation keyed by == (which ignores metadata and identity) is shared state across calls
    for fi in ctx.model.all_functions():
        for d in fi.decorators:
            base = d.split('(')[0].split('.')[-1]
            if base in ('lru_cache', 'cache', 'cached_property', 'memoize', 'memoized'):
                # harmless when the key cannot be an AST value (every parameter is declared with a type that is no AST
                # class and not Any / object: functions, strings, enum members are compared by identity or value) and the
                # cached result is an immutable value (a frozen record, a string, a number): nothing is shared that a
                # caller could tell apart or change
                ast_names_ = {k_.name for k_ in ctx.model.ast_classes()}

                def ann_names(a_):
                    return {x_.id for x_ in ast.walk(a_) if isinstance(x_, ast.Name)} | {x_.attr for x_ in ast.walk(a_) if isinstance(x_, ast.Attribute)} if a_ is not None else None
                pnames = [ann_names(a_.annotation) for a_ in fi.node.args.posonlyargs + fi.node.args.args + fi.node.args.kwonlyargs if not (a_.arg in ('self', 'cls') and fi.cls is not None)]
                keys_ok = not fi.node.args.vararg and not fi.node.args.kwarg and all(ns is not None and ns and not (ns & (ast_names_ | {'Any', 'object', 'HplAstObject'})) for ns in pnames)
                rn = ann_names(fi.node.returns)
                rcls = ctx.model.classes.get(next(iter(rn))) if rn and len(rn) == 1 else None
                result_ok = bool(rn) and ((rcls is not None and rcls.is_frozen and rcls.name not in ast_names_) or rn <= {'str', 'int', 'float', 'bool', 'bytes'})
                if keys_ok and result_ok:
                    r.ok(f'{fi.qualname}: @{base} keyed by non-AST arguments, immutable result')
                    continue
                r.fail(f'{fi.qualname}:@{base}', f'{fi.qualname} is memoised with @{base}: results are shared between equal-but-distinct arguments (equality ignores metadata and identity) and between calls', fi.where)
    r.counts['module-level mutable containers'] = len(mut_globals)
    r.counts['global statements'] = g
    r.floor('transformer/parser methods', n, 30)
    # fixture
    fx = ast.parse('class T:\n    def cb(self, x):\n        self.seen.add(x)\n        return x\n').body[0].body[0]
    class _F:
        node = fx
    if not _self_mutations(_F):
        raise AnalysisError('X6', 'embedded positive fixture no longer fires')
    return r


def _self_mutations(fi) -> List[Tuple[str, int]]:
    out = []
    for node in ast.walk(fi.node):
        if isinstance(node, (ast.Assign, ast.AugAssign, ast.AnnAssign)):
            targets = node.targets if isinstance(node, ast.Assign) else [node.target]
            for t in targets:
                for x in ast.walk(t):
                    if isinstance(x, ast.Attribute) and isinstance(x.value, ast.Name) and x.value.id == 'self' and isinstance(x.ctx, ast.Store):
                        out.append((f'self.{x.attr} = ...', node.lineno))
                    if isinstance(x, ast.Subscript) and isinstance(x.ctx, ast.Store) and 'self.' in ast.unparse(x.value):
                        out.append((f'{ast.unparse(x.value)}[...] = ...', node.lineno))
        if isinstance(node, ast.Call) and isinstance(node.func, ast.Attribute) and node.func.attr in _MUTATORS:
            base = ast.unparse(node.func.value)
            if base.startswith('self.'):
                out.append((f'{base}.{node.func.attr}()', node.lineno))
        if isinstance(node, ast.Call) and ast.unparse(node.func) in ('setattr', 'object.__setattr__') and node.args and isinstance(node.args[0], ast.Name) and node.args[0].id == 'self':
            if getattr(fi, 'name', '') != '__attrs_post_init__':
                out.append(('setattr(self, ...)', node.lineno))
        if isinstance(node, ast.Delete):
            for t in node.targets:
                if 'self.' in ast.unparse(t):
                    out.append((f'del {ast.unparse(t)}', node.lineno))
    return out


# ======================================================================= X8
def X9(ctx: Ctx) -> RuleResult:
    r = RuleResult('X9', 'attrs validators are never switched off: no use of attrs.validators.disabled() / set_disabled() / evolve-free construction paths (__new__, object.__init__) in the package')
    n = 0
    banned = {'disabled', 'set_disabled'}
    for mod in ctx.model.modules.values():
        aliases = {local for local, (m, attr) in mod.imports.items() if attr in banned and m.endswith('validators')}
        for node in ast.walk(mod.tree):
            n += isinstance(node, ast.Call)
            if isinstance(node, ast.Call):
                f = node.func
                name = f.attr if isinstance(f, ast.Attribute) else f.id if isinstance(f, ast.Name) else None
                src = ast.unparse(f)
                if (name in banned and 'validators' in src) or (isinstance(f, ast.Name) and f.id in aliases):
                    fi = None
                    for cand in ctx.model.all_functions():
                        if cand.module is mod and cand.node.lineno <= node.lineno <= (cand.node.end_lineno or cand.node.lineno):
                            fi = cand
                    r.fail(f'{fi.qualname if fi else mod.name}:validators-off', f'{src}() switches the attrs validators off: nodes built meanwhile are not type-checked, sanity-checked or narrowed', f'{mod.relpath}:{node.lineno}')
        for local, (m, attr) in mod.imports.items():
            if attr in banned and m.endswith('validators'):
                r.notes.append(f'{mod.relpath} imports {m}.{attr}')
    r.counts['call sites scanned'] = n
    # fixture: the pattern must be recognised
    fx = ast.parse('from attrs.validators import disabled\nwith disabled():\n    pass\n')
    hit = any(isinstance(x, ast.Call) and isinstance(x.func, ast.Name) and x.func.id == 'disabled' for x in ast.walk(fx))
    if not hit:
        raise AnalysisError('X9', 'fixture not matched')
    if not r.findings:
        r.ok('no validator switch in the package')
    return r


X10_TOTAL_MATH = {'isinf', 'isnan', 'isfinite', 'degrees', 'radians', 'atan', 'atan2', 'fabs', 'copysign', 'hypot', 'prod', 'fsum', 'trunc_total'}


def X10(ctx: Ctx) -> RuleResult:
    r = RuleResult('X10', 'constant folding: every call of a partial Python function (int/float on a literal value, math.sqrt/asin/sin/ceil/..., which raise ValueError or OverflowError outside their domain) in the simplifier is inside a try that keeps those errors from escaping simplify()')
    mod = ctx.model.module('hpl.rewrite', 'X10')
    lit = ctx.model.cls('HplLiteral', 'X10')
    units: List[FunctionInfo] = list(mod.functions.values()) + [m for m in lit.methods.values() if m.kind == 'classmethod']
    by_name = dict(mod.functions)   # every name a function is known under (a renamed anchor keeps its recorded name too)
    # reachable from simplify()
    reach = {'simplify'}
    todo = ['simplify']
    while todo:
        f0 = by_name.get(todo.pop())
        if f0 is None:
            continue
        for x in ast.walk(f0.node):
            if isinstance(x, ast.Name) and x.id in by_name and by_name[x.id].name not in reach:
                reach.add(by_name[x.id].name)
                todo.append(x.id)
    sites: Dict[str, List[Tuple[FunctionInfo, ast.Call]]] = {}
    for f0 in units:
        for x in ast.walk(f0.node):
            if isinstance(x, ast.Call) and isinstance(x.func, ast.Name) and x.func.id in by_name:
                sites.setdefault(by_name[x.func.id].name, []).append((f0, x))
            if isinstance(x, ast.Call) and isinstance(x.func, ast.Attribute) and ast.unparse(x.func.value) == 'HplLiteral' and x.func.attr in lit.methods:
                sites.setdefault('HplLiteral.' + x.func.attr, []).append((f0, x))

    def handled(f0: FunctionInfo, node: ast.AST) -> bool:
        for t in ast.walk(f0.node):
            if isinstance(t, ast.Try) and any(node is y for b in t.body for y in ast.walk(b)):
                names: Set[str] = set()
                for h in t.handlers:
                    if h.type is None:
                        names.add('BaseException')
                    else:
                        names.update(ast.unparse(e).split('.')[-1] for e in (h.type.elts if isinstance(h.type, ast.Tuple) else [h.type]))
                if names & {'Exception', 'BaseException'} or ({'ValueError'} <= names and names & {'OverflowError', 'ArithmeticError'}):
                    return True
        return False

    def guarded(f0: FunctionInfo, node: ast.AST, depth: int = 0, seen=None) -> bool:
        seen = seen or set()
        if handled(f0, node):
            return True
        key = f0.qualname
        if key in seen or depth > 6 or f0.name == 'simplify':
            return False
        seen = seen | {key}
        name = f0.name if f0.cls is None else f'{f0.cls.name}.{f0.name}'
        callers = [(f1, c) for f1, c in sites.get(name, []) if f1.cls is not None or f1.name in reach]
        return bool(callers) and all(guarded(f1, c, depth + 1, seen) for f1, c in callers)
    n = 0
    for f0 in units:
        if f0.cls is None and f0.name not in reach:
            continue
        for x in ast.walk(f0.node):
            if not isinstance(x, ast.Call):
                continue
            fn = ast.unparse(x.func)
            partial = None
            if fn.startswith('math.') and fn.split('.')[1] not in X10_TOTAL_MATH:
                partial = fn
            elif fn in ('int', 'float') and x.args and not isinstance(x.args[0], ast.Constant) and not (isinstance(x.args[0], ast.Call) and ast.unparse(x.args[0].func) == 'len'):
                partial = fn
            if partial is None:
                continue
            n += 1
            key = f'{f0.qualname}:{partial}'
            if guarded(f0, x):
                r.ok(f'{key}: ValueError / OverflowError cannot escape')
            else:
                r.fail(key, f'{partial}({ast.unparse(x.args[0])[:40] if x.args else ""}) folds a literal with a partial Python function and nothing catches its ValueError / OverflowError: simplify() raises on a valid expression such as {partial.split(".")[-1]}(INF)', f'{f0.module.relpath}:{x.lineno}')
    r.floor('partial folding sites', n, 10)
    return r


def X8(ctx: Ctx) -> RuleResult:
    r = RuleResult('X8', 'mapping iteration: `for a, b in M` over a Mapping-typed value must use .items()')
    n = 0
    for fi in ctx.model.all_functions():
        for node in ast.walk(fi.node):
            gens = []
            if isinstance(node, ast.For):
                gens.append((node.target, node.iter, node.lineno))
            if isinstance(node, (ast.ListComp, ast.SetComp, ast.DictComp, ast.GeneratorExp)):
                gens.extend((g.target, g.iter, node.lineno) for g in node.generators)
            for target, it, line in gens:
                if not (isinstance(target, ast.Tuple) and len(target.elts) == 2):
                    continue
                n += 1
                if _is_mapping_expr(ctx, fi, it):
                    r.fail(f'{fi.qualname}:for {ast.unparse(target)} in {ast.unparse(it)[:40]}', f'iterates the mapping {ast.unparse(it)[:60]} as pairs without .items(): yields keys only (ValueError: not enough values to unpack)', f'{fi.module.relpath}:{line}')
                else:
                    r.ok(f'{fi.qualname}: for {ast.unparse(target)} in {ast.unparse(it)[:40]}')
    r.floor('pair iterations', n, 5)
    return r


def _ann_is_mapping(ann) -> bool:
    if ann is None:
        return False
    s = ast.unparse(ann)
    return s.startswith(('Mapping', 'Dict', 'dict', 'typing.Mapping', 'typing.Dict', 'MutableMapping'))


def _is_mapping_expr(ctx: Ctx, fi: FunctionInfo, e: ast.expr) -> bool:
    if isinstance(e, ast.Call) and isinstance(e.func, ast.Attribute):
        if e.func.attr in ('items', 'values', 'keys'):
            return False
        cands = [c.methods[e.func.attr] for c in ctx.model.classes.values() if e.func.attr in c.methods]
        return bool(cands) and all(_ann_is_mapping(c.node.returns) for c in cands)
    if isinstance(e, ast.Attribute) and isinstance(e.value, ast.Name) and e.value.id == 'self' and fi.cls is not None:
        f = fi.cls.field(e.attr)
        return f is not None and _ann_is_mapping(f.annotation)
    if isinstance(e, ast.Name):
        for a in fi.node.args.args + fi.node.args.kwonlyargs:
            if a.arg == e.id and _ann_is_mapping(a.annotation):
                return True
        for n in ast.walk(fi.node):
            if isinstance(n, ast.AnnAssign) and isinstance(n.target, ast.Name) and n.target.id == e.id and _ann_is_mapping(n.annotation):
                return True
    return False


RULES = {'X1': X1, 'X2': X2, 'X3a': X3a, 'X3b': X3b, 'X4': X4, 'X5': X5, 'X5r': X5r, 'X6': X6, 'X8': X8, 'X9': X9, 'X10': X10, 'X12': X12, 'X13': X13, 'X14': X14}


# ====================================================================== X3c
def semantic_validators(ctx: Ctx) -> Dict[str, Dict[str, object]]:
    """AST classes whose construction can raise a non-type error (HplSanityError / ValueError): the functions that run
    on construction (validators, __attrs_post_init__, methods they call on self), the error classes and the fields read"""
    def build():
        out: Dict[str, Dict[str, object]] = {}
        root = ctx.model.ast_root()
        for c in ctx.model.concrete_ast_classes():
            funcs: List[FunctionInfo] = []
            for k in c.mro():
                for vs in k.validators.values():
                    funcs.extend(k.methods[v] for v in vs)
                if '__attrs_post_init__' in k.methods:
                    funcs.append(k.methods['__attrs_post_init__'])
            seen = {f.key for f in funcs}
            todo = list(funcs)
            while todo:
                f = todo.pop()
                for n in ast.walk(f.node):
                    if isinstance(n, ast.Call) and isinstance(n.func, ast.Attribute) and isinstance(n.func.value, ast.Name) and n.func.value.id == 'self':
                        m = c.resolve(n.func.attr)
                        if m is not None and m.key not in seen:
                            seen.add(m.key)
                            funcs.append(m)
                            todo.append(m)
                    elif isinstance(n, ast.Call) and isinstance(n.func, ast.Attribute):
                        # a method of a helper (non-AST) class of the same module, e.g. an environment object the checks are moved to
                        for hc in f.module.classes.values():
                            if root not in hc.mro() and n.func.attr in hc.methods and not hc.is_enum:
                                m = hc.methods[n.func.attr]
                                if m.key not in seen:
                                    seen.add(m.key)
                                    funcs.append(m)
                                    todo.append(m)
                    elif isinstance(n, ast.Call) and isinstance(n.func, ast.Name) and n.func.id in f.module.functions:
                        m = f.module.functions[n.func.id]
                        if m.key not in seen and m.name.startswith('_'):
                            seen.add(m.key)
                            funcs.append(m)
                            todo.append(m)
            classes: Set[str] = set()
            reads: Set[str] = set()
            for f in funcs:
                for n in ast.walk(f.node):
                    if isinstance(n, ast.Raise):
                        classes.add(raise_class(ctx, f, n))
                    if isinstance(n, ast.Attribute) and isinstance(n.value, ast.Name) and n.value.id == 'self' and c.field(n.attr) is not None:
                        reads.add(n.attr)
                # the validated value itself is the field the validator is attached to
                for k in c.mro():
                    for fld, vs in k.validators.items():
                        if f.name in vs:
                            reads.add(fld)
            sem = {x for x in classes if x in ('HplSanityError', 'ValueError')}
            if sem:
                out[c.name] = {'errors': sorted(sem), 'reads': sorted(reads), 'functions': [f.qualname for f in funcs]}
        return out
    return ctx.memo('semantic_validators', build)


def X3c(ctx: Ctx) -> RuleResult:
    r = RuleResult('X3c', 're-validation exposure: every copy-with-changes / construction in rewrite.py of a class with semantic validators (sanity, presence, hygiene) either leaves the fields those validators read untouched or is justified by a checked monotonicity fact')
    from .rules_rewrite import rewrite_eval, Shapes, canon, IH_FUNCS, _fname
    from .terms import Attr, BoundMethod, Call, Comp, Const, New, Op, Sym, Term, walk, norm_guards, EnumMember, expand_outcomes, expand_ites, eval_bool, Ite
    from .util import call_name, call_recv, outcome_terms
    sem = semantic_validators(ctx)
    if 'HplProperty' not in sem or 'HplQuantifier' not in sem:
        raise AnalysisError('X3c', f'semantic validator classes not found: {sorted(sem)}')
    fields_of = {c: {f.name for f in ctx.model.cls(c).fields()} for c in sem}
    ev = rewrite_eval(ctx)
    mod = ctx.model.module('hpl.rewrite', 'X3c')
    n = 0
    # module call graph: a site is identified by the public entry point(s) that reach it, so that moving the site into a
    # private helper does not change its identity
    calls: Dict[str, Set[str]] = {}
    # module-level tables of functions (dispatch by kind): whoever reads the table may call what it holds
    tables = {name: {mod.functions[x.id].name for x in ast.walk(val) if isinstance(x, ast.Name) and x.id in mod.functions}
              for name, val in mod.assigns.items() if isinstance(val, (ast.Dict, ast.Tuple, ast.List, ast.Call))}
    for fn in mod.functions.values():
        calls[fn.name] = {mod.functions[x.id].name for x in ast.walk(fn.node) if isinstance(x, ast.Name) and x.id in mod.functions and mod.functions[x.id] is not fn} \
            | {g for x in ast.walk(fn.node) if isinstance(x, ast.Name) and x.id in tables for g in tables[x.id] if g != fn.name}
    callers: Dict[str, Set[str]] = {k: set() for k in calls}
    for k, vs in calls.items():
        for v in vs:
            callers[v].add(k)

    def entries(name: str) -> str:
        if not name.startswith('_'):
            return name
        seen, todo, roots = {name}, [name], set()
        while todo:
            x = todo.pop()
            for cname in callers.get(x, ()):
                if cname in seen:
                    continue
                seen.add(cname)
                if cname.startswith('_'):
                    todo.append(cname)
                else:
                    roots.add(cname)
        return '|'.join(sorted(roots)) or name
    for fi in mod.functions.values():
        if fi.name.startswith('_') and callers.get(fi.name) and ev.inline(fi, 1):
            # looked through at every call site: its sites are judged in the callers' contexts
            continue
        try:
            outs = expand_outcomes(ev.run(fi))
        except AnalysisError:
            continue
        seen_keys = set()
        entry = entries(fi.name)
        for o in outs:
            sh = Shapes()
            for g, pol in o.guards:
                sh.read(g, pol)
            for a in o.asserts:
                sh.read(a, True)
            terms = outcome_terms(o) + list((o.env or {}).values())
            comps = [x for t in terms for x in walk(t) if isinstance(x, Comp)]
            base_sh = sh
            known = {t: pol for t, pol in norm_guards(o.guards)}
            leaves = []
            for t in terms:
                if not any(isinstance(x, Ite) for x in walk(t)):
                    leaves.append((t, None))
                    continue
                # a construction inside a conditional value (an inlined helper that chooses) happens under that condition
                for gs, leaf in expand_ites(t, 64):
                    chosen = {g: pol for g, pol in norm_guards(gs)}
                    if any(known.get(g, pol) != pol for g, pol in chosen.items()) or any(eval_bool(g, chosen) not in (None, pol) for g, pol in known.items()):
                        continue
                    leaves.append((leaf, tuple(gs)))
            shapes_of = {}
            for t, extra in leaves:
                if extra in shapes_of:
                    sh = shapes_of[extra]
                else:
                    sh = shapes_of[extra] = Shapes()
                    allg = tuple(o.guards) + (extra or ())
                    facts = {g: pol for g, pol in norm_guards(allg)}
                    for g, pol in allg:
                        sh.read(g, pol)
                    for a in o.asserts:
                        # an assertion of the helper reads `not <its path> or <fact>`: under the chosen condition the fact holds
                        if isinstance(a, Op) and a.op == 'or':
                            open_ = [x for x in a.args if eval_bool(x, facts) is not False]
                            if len(open_) == 1:
                                a = open_[0]
                        sh.read(a, True)
                for x in walk(t):
                    site = None
                    if isinstance(x, Call) and call_name(x) == 'but' and x.kwargs and not x.args:
                        ks = {k for k, _ in x.kwargs}
                        cands = [c for c in sem if ks <= fields_of[c]]
                        if len(cands) == 1:
                            site = (cands[0], tuple(sorted(ks)), dict(x.kwargs), call_recv(x), 'but')
                    elif isinstance(x, New) and x.cls in sem:
                        vals = {k: v for k, v in x.fields if k not in ('metadata', 'data_type')}
                        site = (x.cls, tuple(sorted(vals)), vals, None, 'new')
                    if site is None:
                        continue
                    cls, ks, vals, recv, how = site
                    if any(isinstance(y, Sym) and y.name.startswith('lam:') for v_ in vals.values() for y in walk(v_)):
                        continue    # the body of a lambda that was handed on: a template, judged where it is applied
                    key = f'{entry}:{cls}.{how}({",".join(ks)})'
                    reads = set(sem[cls]['reads'])
                    touched = sorted(set(ks) & reads)
                    if (key, repr(vals)) in seen_keys:
                        continue
                    seen_keys.add((key, repr(vals)))
                    n += 1
                    if not touched:
                        r.ok(f'{key}: changed fields disjoint from what the {cls} validators read {sorted(reads)}')
                        continue
                    why = _justify(cls, vals, recv, how, sh, comps, touched)
                    if why:
                        r.ok(f'{key}: {why}')
                    else:
                        r.fail(key, f'{fi.qualname} {"copies" if how == "but" else "builds"} a {cls} changing {touched}, which its {sem[cls]["errors"]} validators read, and no monotonicity fact shows the validators still pass: a valid input can make the rewrite raise', f'{mod.relpath}:{o.lineno}')
    r.counts['semantic classes'] = len(sem)
    r.floor('copy / construction sites', n, 8)
    return r


def _justify(cls, vals, recv, how, sh, comps, touched) -> Optional[str]:
    from .rules_rewrite import canon, IH_FUNCS, _fname
    from .terms import Attr, Call, Comp, New, Sym, walk, EnumMember
    from .util import call_name, call_recv

    def from_simple_events(v, field) -> bool:
        """v is an element of <recv>.<field>.simple_events()"""
        if not (isinstance(v, Sym) and v.name.startswith('each:')):
            return False
        tgt = v.name[5:]
        for c in comps:
            for t, it, ifs in c.gens:
                if t == tgt and isinstance(it, Call) and call_name(it) == 'simple_events' and isinstance(call_recv(it), Attr) and call_recv(it).name == field and (recv is None or call_recv(it).base == recv) and not ifs:
                    return True
        return False
    if cls in ('HplScope', 'HplPattern') and how == 'but':
        if all(from_simple_events(vals[f], f) for f in touched):
            return f'{touched} := an alternative of the same field (simple_events()): present before, present after; kind unchanged'
        return None
    if cls == 'HplQuantifier' and how == 'new':
        var, dom, body = vals.get('variable'), vals.get('domain'), vals.get('condition')
        q = None
        if isinstance(var, Attr) and canon(var).name == 'variable':
            q = canon(var).base
        if q is None or canon(dom) != Attr(q, 'domain'):
            return None
        # the body must be (a part of / the negation of / a helper image of) the validated body of q, and mention the variable
        def rooted(t) -> bool:
            t = canon(t)
            if isinstance(t, New) and t.cls == 'HplUnaryOperator':
                return rooted(t.get('operand'))
            if _fname(t) in IH_FUNCS and t.args:
                return rooted(t.args[0])
            while isinstance(t, Attr):
                if t == Attr(q, 'condition'):
                    return True
                t = t.base
                if _fname(t) in IH_FUNCS and t.args:
                    t = canon(t.args[0])
            return t == Attr(q, 'condition')
        if not rooted(body):
            return None
        uses = False
        b = canon(body)
        for (a, v), pol in sh.dep.items():
            if pol and v == canon(var) and (a == b or (isinstance(b, New) and b.cls == 'HplUnaryOperator' and canon(b.get('operand')) == a) or any(y == a for y in walk(b))):
                uses = True
            if pol and v == canon(var) and isinstance(a, New) and a == body:
                uses = True
        if uses:
            return 'same variable and domain as the validated quantifier, body is part of its body and contains_reference(variable) holds on this path'
        return None
    return None


RULES['X3c'] = X3c


# ====================================================================== X15
_X15_CONTROL = """
def bad(children):
    metadata = {}
    for key, value in children:
        if key in metadata:
            raise E(key, pid=metadata['id'])
        metadata[key] = value
    return metadata

def good(children):
    metadata = {}
    for key, value in children:
        metadata[key] = value
    if 'id' in metadata:
        return metadata['id']
    return metadata.get('title')
"""


def _x15_scan(fn: ast.AST) -> Tuple[int, List[Tuple[str, str, int]]]:
    """(subscript reads of local mappings with a constant key, [(mapping, key, line)] of those no test establishes):
    `d['k']` where d is a mapping built in this function with computed keys raises KeyError unless `'k' in d` is
    tested, d['k'] was stored under the constant key, or a KeyError handler encloses the read."""
    local_maps: Set[str] = set()
    for n in ast.walk(fn):
        tgt, val, ann = None, None, None
        if isinstance(n, ast.Assign) and len(n.targets) == 1 and isinstance(n.targets[0], ast.Name):
            tgt, val = n.targets[0].id, n.value
        elif isinstance(n, ast.AnnAssign) and isinstance(n.target, ast.Name) and n.value is not None:
            tgt, val = n.target.id, n.value
        if tgt is None:
            continue
        if isinstance(val, (ast.Dict, ast.DictComp)) or (isinstance(val, ast.Call) and isinstance(val.func, ast.Name) and val.func.id in ('dict', 'OrderedDict', 'defaultdict')):
            if not (isinstance(val, ast.Call) and val.func.id == 'defaultdict'):
                local_maps.add(tgt)
    established: Set[Tuple[str, object]] = set()
    for n in ast.walk(fn):
        if isinstance(n, ast.Compare) and len(n.ops) == 1 and isinstance(n.ops[0], (ast.In, ast.NotIn)) and isinstance(n.left, ast.Constant) and isinstance(n.comparators[0], ast.Name):
            established.add((n.comparators[0].id, n.left.value))
        if isinstance(n, ast.Subscript) and isinstance(n.ctx, ast.Store) and isinstance(n.value, ast.Name) and isinstance(n.slice, ast.Constant):
            established.add((n.value.id, n.slice.value))
        if isinstance(n, ast.Dict) or isinstance(n, ast.Assign):
            pass
    # constant keys of a dict display assigned to the name
    for n in ast.walk(fn):
        if isinstance(n, (ast.Assign, ast.AnnAssign)) and isinstance(getattr(n, 'value', None), ast.Dict):
            t = n.targets[0] if isinstance(n, ast.Assign) else n.target
            if isinstance(t, ast.Name):
                for k in n.value.keys:
                    if isinstance(k, ast.Constant):
                        established.add((t.id, k.value))
    guarded_lines: Set[int] = set()
    for n in ast.walk(fn):
        if isinstance(n, ast.Try) and any(h.type is None or any(isinstance(x, ast.Name) and x.id in ('KeyError', 'LookupError', 'Exception') for x in ast.walk(h.type)) for h in n.handlers):
            for b in n.body:
                for x in ast.walk(b):
                    if hasattr(x, 'lineno'):
                        guarded_lines.add(x.lineno)
    reads, bad = 0, []
    for n in ast.walk(fn):
        if isinstance(n, ast.Subscript) and isinstance(n.ctx, ast.Load) and isinstance(n.value, ast.Name) and n.value.id in local_maps and isinstance(n.slice, ast.Constant):
            reads += 1
            if (n.value.id, n.slice.value) not in established and n.lineno not in guarded_lines:
                bad.append((n.value.id, repr(n.slice.value), n.lineno))
    return reads, bad


def X15(ctx: Ctx) -> RuleResult:
    r = RuleResult('X15', 'no parser function reads a constant key of a mapping it fills with computed keys without testing for it: a KeyError would leave parse() instead of the documented errors')
    ctl = {f.name: _x15_scan(f)[1] for f in ast.parse(_X15_CONTROL).body}
    if not (len(ctl['bad']) == 1 and ctl['bad'][0][:2] == ('metadata', "'id'") and not ctl['good']):
        raise AnalysisError('X15', f'control examples are not recognised any more: {ctl}')
    nfun = reads = 0
    for mname in ('hpl.parser', 'hpl.grammar', 'hpl.errors'):
        mod = ctx.model.modules.get(mname)
        if mod is None:
            if mname == 'hpl.parser':
                raise AnalysisError('X15', 'module hpl.parser not found (anchor vanished)')
            continue
        fis = list(mod.functions.values()) + [f for c in mod.classes.values() for f in c.methods.values()]
        for fi in fis:
            nfun += 1
            k, bad = _x15_scan(fi.node)
            reads += k
            for name, key, line in bad:
                r.fail(f'{fi.qualname}:{name}[{key}]', f'{fi.qualname} reads {name}[{key}] although nothing establishes that the key was stored: KeyError escapes the parser', f'{mod.relpath}:{line}')
    r.counts['functions scanned'] = nfun
    r.counts['constant-key reads of local mappings'] = reads
    r.floor('functions scanned', nfun, 40)
    r.ok("controls: metadata['id'] read in the duplicate branch reported; the tested / .get() forms silent")
    return r


RULES['X15'] = X15

"""Property -> rules mapping and the run loop."""
from __future__ import annotations

import importlib
import json
from typing import Callable, Dict, List, Optional

from .ctx import Ctx
from .model import AnalysisError
from .report import Run, RuleResult

RULE_MODULES = [
    'rules_lattice',
    'rules_cli',
    'rules_attrs',
    'rules_slots',
    'rules_tables',
    'rules_dispatch',
    'rules_effects',
    'rules_ownership',
    'rules_grammar',
    'rules_flows',
    'rules_printers',
    'rules_rewrite',
    'rules_constants',
    'rules_types',
    'rules_simplify',
]

COMMON_ASSUMPTIONS = [
    "CPython's ast module parses the sources as the interpreter would",
    'enum.Flag / enum.Enum and attrs (frozen, field(eq, init, converter, validator), evolve, asdict) behave as documented',
    "lark's LALR(1) construction and contextual lexer behave as documented (terminals by priority, then length; string "
    "terminals re-typed from an equal-priority regexp terminal only on exact match)",
    'only src/hpl/**/*.py except _unused.py is analysed (checked: no analysed module imports _unused)',
]

# property -> (rule ids for quick tier, extra rule ids for thorough tier)
PROPS: Dict[str, Dict] = {}


def prop(pid: str, quick: List[str], thorough: Optional[List[str]] = None, explanation: str = '', assumptions: Optional[List[str]] = None):
    PROPS[pid] = {'quick': quick, 'thorough': thorough or [], 'explanation': explanation, 'assumptions': assumptions or []}


def registry() -> Dict[str, Callable[[Ctx], RuleResult]]:
    reg: Dict[str, Callable] = {}
    for name in RULE_MODULES:
        try:
            mod = importlib.import_module(f'hplsa.{name}')
        except ModuleNotFoundError as e:
            if e.name == f'hplsa.{name}':
                continue
            raise
        reg.update(getattr(mod, 'RULES', {}))
    return reg


def run_property(pid: str, tier: str, repo: Optional[str] = None) -> int:
    from . import props  # noqa: F401  (fills PROPS)
    if pid not in PROPS:
        raise AnalysisError('DRIVER', f'property {pid} is not claimed (see MANIFEST.json not_applicable)')
    spec = PROPS[pid]
    ctx = Ctx(repo, tier)
    run = Run(pid, tier)
    run.explanation = spec['explanation']
    run.assumptions = COMMON_ASSUMPTIONS + spec['assumptions']
    reg = registry()
    rules = list(spec['quick']) + (list(spec['thorough']) if tier == 'thorough' else [])
    pm0(ctx)
    for rid in rules:
        if rid not in reg:
            raise AnalysisError('DRIVER', f'rule {rid} not implemented')
        res = reg[rid](ctx)
        run.add(res)
    m = ctx.model
    run.extra.update({
        'modules': len(m.modules),
        'classes': len(m.classes),
        'functions': len(m.all_functions()),
        'repo': str(ctx.repo),
    })
    if tier == 'thorough':
        from .selftest import run_bank
        bank = run_bank(pid, rules, ctx)
        run.extra['selftest'] = bank
    return run.finish()


def pm0(ctx: Ctx):
    """the exclusion of _unused.py is sound only while nothing imports it"""
    for mod in ctx.model.modules.values():
        for local, (m, attr) in mod.imports.items():
            if m.endswith('_unused') or attr == '_unused':
                raise AnalysisError('PM0', f'{mod.relpath} imports {m}.{attr}: excluded module is live')


def replay(pid: str, path: str, repo: Optional[str] = None) -> int:
    from . import props  # noqa: F401
    data = json.loads(open(path, encoding='utf8').read())
    rid = data['rule']
    ctx = Ctx(repo, 'quick')
    reg = registry()
    res = reg[rid](ctx)
    hit = [f for f in res.findings if f.construct == data['construct']]
    print(f'replay {pid} rule {rid} construct {data["construct"]}')
    for f in hit:
        print(f'  still fails: {f.what} [{f.where}]')
        print(f'  expected: {f.expected!r}')
        print(f'  found:    {f.found!r}')
    if hit:
        print(f'VIOLATION property={pid} replay={path}')
        return 1
    print('  rule instance now holds')
    return 0

"""V1 / V2: the constant predicates and the event-level reference queries.

The two vacuous predicates are tiny classes whose every answer is a constant; the rewriter (join, negate, simplify's
re-wrapping, split_and) and the reference queries read those constants.  A simple event answers the reference queries
by asking its predicate, with the event's own alias counting as a reference to the message itself.  Each answer is
compared with its specification below, on all paths of the method."""
from __future__ import annotations

from typing import List, Optional

from .ctx import Ctx
from .model import AnalysisError
from .report import RuleResult
from .terms import Attr, Call, Const, Ext, New, Op, Sym, Term, TupleT, expand_outcomes, flat_guards, guards_repr, implied_literals, norm_guards, walk
from .util import call_name, call_recv

VACUOUS = {'HplVacuousTruth': True, 'HplContradiction': False}


def _single(ctx: Ctx, cname: str, meth: str):
    c = ctx.model.cls(cname, 'V1')
    fi = c.resolve(meth)
    if fi is None:
        raise AnalysisError('V1', f'{cname}.{meth} not found')
    self_t = Sym('self', cname)
    outs = ctx.ev.run(fi, {'self': self_t}, self_cls=c)
    return fi, self_t, outs


def _empty_set(v: Optional[Term]) -> bool:
    if isinstance(v, Call) and isinstance(v.func, Ext) and v.func.name in ('set', 'frozenset') and not v.args:
        return True
    return isinstance(v, TupleT) and v.kind == 'set' and not v.items


def V1(ctx: Ctx) -> RuleResult:
    r = RuleResult('V1', 'the constant predicates: HplVacuousTruth is vacuous, true, and its condition is the literal True (token and value); HplContradiction is vacuous, not true, condition the literal False; neither contains references; a predicate expression is not vacuous and its condition is its expression')
    for cname, truth in VACUOUS.items():
        for meth, want in (('is_vacuous', Const(True)), ('is_true', Const(truth)), ('contains_reference', Const(False)), ('contains_self_reference', Const(False))):
            fi, self_t, outs = _single(ctx, cname, meth)
            ok = len(outs) == 1 and outs[0].kind == 'return' and outs[0].value == want
            (r.ok(f'{cname}.{meth} = {want!r}') if ok else r.fail(f'{cname}.{meth}', f'expected the constant {want!r}, got {[str(o)[:60] for o in outs]}', fi.where, repr(want)))
        fi, self_t, outs = _single(ctx, cname, 'condition')
        v = outs[0].value if len(outs) == 1 and outs[0].kind == 'return' else None
        ok = isinstance(v, New) and v.cls == 'HplLiteral' and v.get('token') == Const(str(truth)) and v.get('value') == Const(truth)
        (r.ok(f'{cname}.condition = HplLiteral({str(truth)!r}, {truth})') if ok else r.fail(f'{cname}.condition', f'expected the literal {truth} (token {str(truth)!r}, value {truth}), got {str(v)[:120]}', fi.where))
        fi, self_t, outs = _single(ctx, cname, 'external_references')
        ok = len(outs) == 1 and outs[0].kind == 'return' and _empty_set(outs[0].value)
        (r.ok(f'{cname}.external_references = fresh empty set') if ok else r.fail(f'{cname}.external_references', f'expected a fresh empty set, got {[str(o)[:60] for o in outs]}', fi.where))
    fi, self_t, outs = _single(ctx, 'HplPredicateExpression', 'is_vacuous')
    ok = len(outs) == 1 and outs[0].kind == 'return' and outs[0].value == Const(False)
    (r.ok('HplPredicateExpression.is_vacuous = False') if ok else r.fail('HplPredicateExpression.is_vacuous', f'expected False, got {[str(o)[:60] for o in outs]}', fi.where))
    fi, self_t, outs = _single(ctx, 'HplPredicateExpression', 'condition')
    ok = len(outs) == 1 and outs[0].kind == 'return' and outs[0].value == Attr(self_t, 'expression')
    (r.ok('HplPredicateExpression.condition = expression') if ok else r.fail('HplPredicateExpression.condition', f'expected self.expression, got {[str(o)[:60] for o in outs]}', fi.where))
    return r


def V2(ctx: Ctx) -> RuleResult:
    r = RuleResult('V2', 'reference queries of a simple event: contains_reference(a) and external_references() are those of its predicate (minus the event\'s own alias, removed only when there is one); contains_self_reference() holds iff the predicate refers to `this` or to the event\'s own alias')
    c = ctx.model.cls('HplSimpleEvent', 'V2')
    self_t = Sym('self', 'HplSimpleEvent')
    pred = Attr(self_t, 'predicate')
    alias_f = Attr(self_t, 'alias')
    # contains_reference
    fi = c.resolve('contains_reference')
    a = Sym(fi.params()[1])
    outs = ctx.ev.run(fi, {'self': self_t, fi.params()[1]: a}, self_cls=c)
    ok = len(outs) == 1 and outs[0].kind == 'return' and isinstance(outs[0].value, Call) and call_name(outs[0].value) == 'contains_reference' and call_recv(outs[0].value) == pred and outs[0].value.args == (a,)
    (r.ok('contains_reference(a) = predicate.contains_reference(a)') if ok else r.fail('HplSimpleEvent.contains_reference', f'expected predicate.contains_reference(alias), got {[str(o)[:80] for o in outs]}', fi.where))
    # contains_self_reference: a boolean function of P = predicate.contains_self_reference(), A = bool(alias), Q = predicate.contains_reference(alias)
    fi = c.resolve('contains_self_reference')
    outs = expand_outcomes(ctx.ev.run(fi, {'self': self_t}, self_cls=c))

    def atom(t: Term) -> Optional[str]:
        if isinstance(t, Call) and call_name(t) == 'contains_self_reference' and call_recv(t) == pred and not t.args:
            return 'P'
        if isinstance(t, Call) and call_name(t) == 'contains_reference' and call_recv(t) == pred and t.args == (alias_f,):
            return 'Q'
        if t == alias_f:
            return 'A'
        if isinstance(t, Op) and t.op in ('is not', '!=') and t.args == (alias_f, Const(None)):
            return 'A'
        return None

    def ev_bool(t: Term, m) -> Optional[bool]:
        k = atom(t)
        if k is not None:
            return m[k]
        if isinstance(t, Const):
            return bool(t.value)
        if isinstance(t, Op) and t.op == 'not' and len(t.args) == 1:
            v = ev_bool(t.args[0], m)
            return None if v is None else not v
        if isinstance(t, Op) and t.op in ('and', 'or'):
            vs = [ev_bool(x, m) for x in t.args]
            if any(v is None for v in vs):
                return None
            return all(vs) if t.op == 'and' else any(vs)
        if isinstance(t, Call) and isinstance(t.func, Ext) and t.func.name == 'bool' and len(t.args) == 1:
            return ev_bool(t.args[0], m)
        if isinstance(t, Op) and t.op in ('is', '==') and t.args == (alias_f, Const(None)):
            return not m['A']
        return None
    bad = None
    unread = None
    for p_ in (False, True):
        for a_ in (False, True):
            for q_ in (False, True):
                m = {'P': p_, 'A': a_, 'Q': q_}
                want = p_ or (a_ and q_)
                got = None
                for o in outs:
                    if o.kind not in ('return', 'fall'):
                        continue
                    gv = [ev_bool(g, m) for g, _ in o.guards]
                    if any(v is None for v in gv):
                        unread = str([g for g, _ in o.guards][gv.index(None)])[:80]
                        continue
                    if all(v == pol for v, (_, pol) in zip(gv, o.guards)):
                        got = False if o.kind == 'fall' or o.value is None or o.value == Const(None) else ev_bool(o.value, m)
                        if got is None:
                            unread = str(o.value)[:80]
                        break
                if got is not None and bool(got) != want and bad is None:
                    bad = (m, want, got)
    if unread:
        r.fail('HplSimpleEvent.contains_self_reference:shape', f'not a boolean combination of predicate.contains_self_reference(), the alias and predicate.contains_reference(alias): {unread}', fi.where)
    elif bad:
        m, want, got = bad
        r.fail('HplSimpleEvent.contains_self_reference', f'with predicate.contains_self_reference()={m["P"]}, alias {"set" if m["A"] else "unset"}, predicate.contains_reference(alias)={m["Q"]} the answer is {bool(got)}, expected {want}: the event refers to its own message iff the predicate mentions `this` or the event\'s own alias', fi.where)
    else:
        r.ok('contains_self_reference() = predicate.contains_self_reference() or (alias and predicate.contains_reference(alias)) on all 8 cases')
    # external_references: the predicate's, the alias removed exactly when there is one
    fi = c.resolve('external_references')
    outs = ctx.ev.run(fi, {'self': self_t}, self_cls=c)
    for o in outs:
        if o.kind != 'return':
            r.fail('HplSimpleEvent.external_references:path', f'a path does not return: {o.kind}', fi.where)
            continue
        has_alias = next((pol if atom(g) == 'A' else None for g, pol in flat_guards(o.guards) if atom(g) == 'A'), None)
        removed = [x for t in list(o.effects) + [o.value] for x in walk(t)
                   if (isinstance(x, Call) and call_name(x) in ('discard', 'remove', 'difference') and any(y == alias_f for a_ in x.args for y in walk(a_)))
                   or (isinstance(x, Op) and x.op == '-' and any(y == alias_f for y in walk(x.args[1])))]
        based = any(isinstance(x, Call) and call_name(x) == 'external_references' and call_recv(x) == pred and not x.args for t in [o.value] + list(o.effects) for x in walk(t))
        if not based:
            r.fail('HplSimpleEvent.external_references:source', f'the result is not built from predicate.external_references(): {str(o.value)[:80]}', fi.where)
        if has_alias is True and not removed:
            r.fail('HplSimpleEvent.external_references:own-alias', 'with an alias set, the event\'s own alias is not removed from the references of its predicate (it would be reported as an external reference)', fi.where)
        if has_alias is None and not removed:
            r.fail('HplSimpleEvent.external_references:own-alias', 'the event\'s own alias is never removed from the references of its predicate', fi.where)
    if not r.findings or not any('external_references' in f.construct for f in r.findings):
        r.ok('external_references() = predicate.external_references() minus the own alias')
    return r


def V3(ctx: Ctx) -> RuleResult:
    r = RuleResult('V3', 'kind flags: every constant is_<kind> property of the AST classes (is_value, is_literal, is_set, is_range, is_reference, is_accessor, is_operator, is_quantifier, is_function_call, is_vacuous, ...) resolves, for every class, to the value of the reference table: True exactly in the class(es) the flag names')
    import json
    from .report import VERIF
    table = json.loads((VERIF / 'oracle' / 'kind_flags.json').read_text())
    ref = table['true_in']
    known_classes = set(table['classes'])
    classes = {c.name: c for c in ctx.model.ast_classes()}
    n = 0
    for flag, true_in in sorted(ref.items()):
        holders = [c for c in classes.values() if c.resolve(flag) is not None]
        if not holders:
            raise AnalysisError('V3', f'no AST class defines {flag} any more (anchor vanished)')
        for c in holders:
            fi = c.resolve(flag)
            outs = ctx.ev.run(fi, {'self': Sym('self', c.name)}, self_cls=c)
            v = outs[0].value if len(outs) == 1 and outs[0].kind == 'return' else None
            if not (isinstance(v, Const) and isinstance(v.value, bool)):
                r.notes.append(f'{c.name}.{flag} is not a constant any more: {str(v)[:60]}')
                continue
            n += 1
            want = c.name in true_in
            if c.name not in known_classes:
                # a class the table does not know (a new node kind, or an intermediate base class introduced by a
                # refactoring): not judged; the classes below it that the table knows are
                if f'{c.name}: class not in the reference table' not in r.notes:
                    r.notes.append(f'{c.name}: class not in the reference table')
                continue
            if v.value != want:
                r.fail(f'{c.name}.{flag}', f'{c.name}.{flag} is {v.value}, the reference says {want}: every test of the node kind in the rewriter, the type checker and the reference queries reads this flag', fi.where, want, v.value)
    r.counts['(class, flag) pairs'] = n
    r.floor('(class, flag) pairs', n, 200)
    return r


RULES = {'V1': V1, 'V2': V2, 'V3': V3}

"""Analysis context shared by all rules of one run."""
from __future__ import annotations

from typing import Optional

from .model import Model, repo_path
from .terms import Evaluator


class Ctx:
    def __init__(self, repo: Optional[str] = None, tier: str = 'quick'):
        self.repo = repo or repo_path()
        self.tier = tier
        self.model = Model(self.repo)
        self.ev = Evaluator(self.model)
        self._gm = None
        self._cache = {}

    @property
    def gm(self):
        if self._gm is None:
            from .grammar import GrammarModel
            self._gm = GrammarModel(self.model)
        return self._gm

    def memo(self, key, fn):
        if key not in self._cache:
            self._cache[key] = fn()
        return self._cache[key]

"""Program model (PM) of hpl-specs, built from source text with `ast` only.

Nothing from the analysed package is imported or executed.  The model records
modules, imports, module-level bindings, classes (bases, MRO, decorators,
attrs fields with their `field(...)` keywords, validators, methods, enum
members) and functions, and offers name / method resolution.
"""
from __future__ import annotations

import ast
import os
from dataclasses import dataclass, field as dfield
from pathlib import Path
from typing import Dict, Iterator, List, Optional, Set, Tuple


class AnalysisError(Exception):
    """An anchor vanished or a shape could not be interpreted (exit 2)."""

    def __init__(self, rule: str, reason: str):
        super().__init__(f'{rule}: {reason}')
        self.rule = rule
        self.reason = reason


PKG = 'hpl'


@dataclass
class FunctionInfo:
    name: str
    qualname: str
    module: 'ModuleInfo'
    node: ast.FunctionDef
    cls: Optional['ClassInfo'] = None
    kind: str = 'function'  # function | method | property | classmethod | staticmethod
    decorators: List[str] = dfield(default_factory=list)

    @property
    def key(self) -> str:
        return f'{self.module.name}:{self.qualname}'

    @property
    def lineno(self) -> int:
        return self.node.lineno

    @property
    def where(self) -> str:
        return f'{self.module.relpath}:{self.node.lineno}'

    def params(self) -> List[str]:
        a = self.node.args
        return [x.arg for x in a.posonlyargs + a.args]

    def __repr__(self):
        return f'<fn {self.key}>'


@dataclass
class FieldInfo:
    name: str
    cls: 'ClassInfo'
    annotation: Optional[ast.expr]
    node: ast.stmt
    default: Optional[ast.expr] = None  # plain default or field(default=...)
    factory: Optional[ast.expr] = None
    kwargs: Dict[str, ast.expr] = dfield(default_factory=dict)  # field(...) keywords
    uses_field_call: bool = False

    def kw_const(self, key: str, default=None):
        node = self.kwargs.get(key)
        if node is None:
            return default
        if isinstance(node, ast.Constant):
            return node.value
        return node

    @property
    def init(self) -> bool:
        return self.kw_const('init', True) is not False

    @property
    def eq(self) -> bool:
        return self.kw_const('eq', True) is not False

    @property
    def kw_only(self) -> bool:
        return self.kw_const('kw_only', False) is True

    @property
    def has_default(self) -> bool:
        return self.default is not None or self.factory is not None or self.name in self.cls.default_methods

    @property
    def where(self) -> str:
        return f'{self.cls.module.relpath}:{self.node.lineno}'

    def annotation_src(self) -> str:
        return ast.unparse(self.annotation) if self.annotation is not None else ''


@dataclass
class ClassInfo:
    name: str
    module: 'ModuleInfo'
    node: ast.ClassDef
    base_names: List[str]
    decorators: List[str]
    own_fields: List[FieldInfo] = dfield(default_factory=list)
    methods: Dict[str, FunctionInfo] = dfield(default_factory=dict)
    validators: Dict[str, List[str]] = dfield(default_factory=dict)  # field -> method names
    default_methods: Dict[str, str] = dfield(default_factory=dict)  # field -> method name
    enum_members: Dict[str, ast.expr] = dfield(default_factory=dict)
    class_assigns: Dict[str, ast.expr] = dfield(default_factory=dict)
    bases: List['ClassInfo'] = dfield(default_factory=list)
    external_bases: List[str] = dfield(default_factory=list)

    @property
    def is_frozen(self) -> bool:
        return any(d.split('(')[0] in ('frozen', 'attrs.frozen') for d in self.decorators)

    @property
    def is_attrs(self) -> bool:
        return any(d.split('(')[0] in ('frozen', 'define', 'attrs.frozen', 'attrs.define', 'attr.s') for d in self.decorators)

    @property
    def is_record(self) -> bool:
        """instances are built from their declared fields: attrs classes, typing.NamedTuple subclasses, dataclasses"""
        if self.is_attrs:
            return True
        if any(b.split('.')[-1] == 'NamedTuple' for b in self.external_bases):
            return True
        return any(d.split('(')[0].split('.')[-1] == 'dataclass' for d in self.decorators)

    @property
    def is_enum(self) -> bool:
        for c in self.mro():
            if any(b in ('Enum', 'Flag', 'IntEnum', 'IntFlag', 'enum.Enum', 'enum.Flag') for b in c.external_bases):
                return True
        return False

    @property
    def is_flag(self) -> bool:
        for c in self.mro():
            if any(b in ('Flag', 'IntFlag', 'enum.Flag') for b in c.external_bases):
                return True
        return False

    @property
    def where(self) -> str:
        return f'{self.module.relpath}:{self.node.lineno}'

    def mro(self) -> List['ClassInfo']:
        """C3 linearisation over the classes of the package (external bases are not part of it)"""
        cached = getattr(self, '_mro_cache', None)
        if cached is not None:
            return list(cached)
        if not self.bases:
            out = [self]
        elif len(self.bases) == 1:
            out = [self] + self.bases[0].mro()
        else:
            seqs = [b.mro() for b in self.bases] + [list(self.bases)]
            out = [self]
            while any(seqs):
                seqs = [q for q in seqs if q]
                for q in seqs:
                    cand = q[0]
                    if not any(cand in other[1:] for other in seqs):
                        break
                else:
                    raise AnalysisError('PM', f'inconsistent class hierarchy at {self.name}')
                out.append(cand)
                seqs = [[x for x in q if x is not cand] for q in seqs]
        try:
            object.__setattr__(self, '_mro_cache', tuple(out))
        except Exception:
            pass
        return out

    def resolve(self, name: str) -> Optional[FunctionInfo]:
        for c in self.mro():
            if name in c.methods:
                return c.methods[name]
        return None

    def is_subclass_of(self, other: 'ClassInfo') -> bool:
        return other in self.mro()

    def fields(self) -> List[FieldInfo]:
        """attrs field list in `__init__`/`__eq__` order (base first, overrides move
        to the overriding class; kw_only does not change field order)."""
        seen: Dict[str, FieldInfo] = {}
        order: List[str] = []
        for c in reversed(self.mro()):
            for f in c.own_fields:
                if f.name in seen:
                    order.remove(f.name)
                seen[f.name] = f
                order.append(f.name)
        return [seen[n] for n in order]

    def field(self, name: str) -> Optional[FieldInfo]:
        for f in self.fields():
            if f.name == name:
                return f
        return None

    def init_params(self) -> Tuple[List[FieldInfo], List[FieldInfo]]:
        """(positional-capable fields in order, keyword-only fields)."""
        pos, kwo = [], []
        for f in self.fields():
            if not f.init:
                continue
            (kwo if f.kw_only else pos).append(f)
        return pos, kwo

    def all_validators(self, field_name: str) -> List[FunctionInfo]:
        out = []
        for c in self.mro():
            for m in c.validators.get(field_name, []):
                out.append(c.methods[m])
        return out

    def __repr__(self):
        return f'<class {self.name}>'

    def __hash__(self):
        return id(self)

    def __eq__(self, other):
        return self is other


@dataclass
class ModuleInfo:
    name: str
    path: Path
    relpath: str
    source: str
    tree: ast.Module
    imports: Dict[str, Tuple[str, Optional[str]]] = dfield(default_factory=dict)  # local -> (module, attr|None)
    assigns: Dict[str, ast.expr] = dfield(default_factory=dict)
    assign_nodes: Dict[str, ast.stmt] = dfield(default_factory=dict)
    functions: Dict[str, FunctionInfo] = dfield(default_factory=dict)
    classes: Dict[str, ClassInfo] = dfield(default_factory=dict)

    def __repr__(self):
        return f'<module {self.name}>'

    def __hash__(self):
        return id(self)

    def __eq__(self, other):
        return self is other


def _dec_name(d: ast.expr) -> str:
    try:
        return ast.unparse(d)
    except Exception:  # pragma: no cover
        return '?'


def private_callees(model: 'Model', fi: 'FunctionInfo', cls_name: Optional[str]) -> List[str]:
    """private functions of the module / private methods of the class hierarchy that `fi` refers to, in source order,
    each once"""
    mod = fi.module
    found: List[Tuple[int, int, str]] = []
    ci = model.classes.get(cls_name) if cls_name else None
    meth_names: Set[str] = set()
    if ci is not None:
        for c in model.classes.values():
            if ci in c.mro() or c in ci.mro():
                meth_names.update(c.methods)
    for n in ast.walk(fi.node):
        if isinstance(n, ast.Name) and isinstance(n.ctx, ast.Load) and n.id in mod.functions and n.id.startswith('_') and not n.id.startswith('__'):
            found.append((n.lineno, n.col_offset, n.id))
        elif isinstance(n, ast.Attribute) and n.attr in meth_names and n.attr.startswith('_') and not n.attr.startswith('__'):
            found.append((n.lineno, n.col_offset, n.attr))
    out: List[str] = []
    for _, _, name in sorted(found):
        target = mod.functions.get(name) if cls_name is None else None
        if name not in out and name != fi.name and target is not fi and not (ci is not None and ci.methods.get(name) is fi):
            out.append(name)
    return out


def _search_form(fn: ast.FunctionDef) -> ast.FunctionDef:
    """A function that is nothing but a search,

        for x in it:                     for x in it:
            [assert ...]                     [assert ...]
            if c: return x                   if c: return True      (or False ... return True)
        [return None]                    return False

    is read as the expression it computes, `next((x for x in it if c), None)` / `any(c for x in it)` /
    `not any(c for x in it)`: a helper carved out of a loop then looks like the combinator form of the same search."""
    body = [s for s in fn.body if not (isinstance(s, ast.Expr) and isinstance(s.value, ast.Constant))]
    if not (1 <= len(body) <= 2 and isinstance(body[0], ast.For) and not body[0].orelse and isinstance(body[0].target, ast.Name)):
        return fn
    loop = body[0]
    inner = [s for s in loop.body if not isinstance(s, ast.Assert)]
    if len(inner) != 1 or not isinstance(inner[0], ast.If) or inner[0].orelse or len(inner[0].body) != 1 or not isinstance(inner[0].body[0], ast.Return):
        return fn
    found = inner[0].body[0].value
    tail = body[1].value if len(body) == 2 and isinstance(body[1], ast.Return) else (ast.Constant(None) if len(body) == 1 else False)
    if tail is False:
        return fn
    tail = tail if tail is not None else ast.Constant(None)
    cond = inner[0].test
    x = loop.target.id
    if any(isinstance(n, (ast.Yield, ast.YieldFrom, ast.Await, ast.NamedExpr)) for n in ast.walk(fn)):
        return fn
    gen = lambda elt: ast.GeneratorExp(elt=elt, generators=[ast.comprehension(target=ast.Name(id=x, ctx=ast.Store()), iter=loop.iter, ifs=[], is_async=0)])
    value = None
    if isinstance(found, ast.Name) and found.id == x and isinstance(tail, ast.Constant) and tail.value is None:
        g = ast.GeneratorExp(elt=ast.Name(id=x, ctx=ast.Load()), generators=[ast.comprehension(target=ast.Name(id=x, ctx=ast.Store()), iter=loop.iter, ifs=[cond], is_async=0)])
        value = ast.Call(func=ast.Name(id='next', ctx=ast.Load()), args=[g, ast.Constant(None)], keywords=[])
    elif isinstance(found, ast.Constant) and isinstance(tail, ast.Constant) and found.value is True and tail.value is False:
        value = ast.Call(func=ast.Name(id='any', ctx=ast.Load()), args=[gen(cond)], keywords=[])
    elif isinstance(found, ast.Constant) and isinstance(tail, ast.Constant) and found.value is False and tail.value is True:
        value = ast.UnaryOp(op=ast.Not(), operand=ast.Call(func=ast.Name(id='any', ctx=ast.Load()), args=[gen(cond)], keywords=[]))
    if value is None:
        return fn
    import copy as _copy
    new = _copy.copy(fn)
    ret = ast.copy_location(ast.Return(value=value), loop)
    new.body = [s for s in fn.body if isinstance(s, ast.Expr) and isinstance(s.value, ast.Constant)] + [ret]
    ast.fix_missing_locations(new)
    return new


class Model:
    def __init__(self, repo: str):
        self.repo = Path(repo)
        self.src = self.repo / 'src' / PKG
        if not self.src.is_dir():
            raise AnalysisError('PM', f'{self.src} not found')
        self.modules: Dict[str, ModuleInfo] = {}
        self.classes: Dict[str, ClassInfo] = {}
        self.excluded: List[str] = []
        self._load()
        self._link()
        for f in self.all_functions():
            f.node = _search_form(f.node)
        self.renamed: Dict[str, str] = {}   # canonical anchor -> name found in the tree
        self.canon_names: Dict[str, Set[str]] = {}   # name found in the tree -> recorded name(s)
        self._recognise_renamed_anchors()

    def _recognise_renamed_anchors(self):
        """A private function / method that the rules anchor on may have been renamed.  oracle/anchors.json records, for
        the tree the rules were written against, from where each private anchor is called and at which position among
        the private callees of that caller.  An anchor that is missing is recognised as the function at the same position
        of the same caller when the caller still has the same number of private callees; the model then presents it
        under its recorded name (its location stays the real one).  Anything else stays missing."""
        import json
        from pathlib import Path as _P
        tab = _P(__file__).resolve().parent.parent / 'oracle' / 'anchors.json'
        if not tab.exists():
            return
        rows = json.loads(tab.read_text())['anchors']
        known = {(r['module'], r['class'], r['name']) for r in rows}

        def scope_of(module: str, cls: Optional[str]):
            mod = self.modules.get(module)
            if mod is None:
                return None, None
            if cls is None:
                return mod, mod.functions
            ci = mod.classes.get(cls)
            return (mod, ci.methods) if ci is not None else (mod, None)
        for _round in range(4):
            changed = False
            for r in rows:
                mod, scope = scope_of(r['module'], r['class'])
                if scope is None or r['name'] in scope:
                    continue
                cands: Set[str] = set()
                for v in r['via']:
                    if 'kind' in v:
                        ci2 = self.classes.get(v['cls'])
                        f2 = ci2.field(v['field']) if ci2 is not None else None
                        cand = None
                        if f2 is not None and v['kind'] == 'converter' and isinstance(f2.kwargs.get('converter'), ast.Name):
                            cand = f2.kwargs['converter'].id
                        elif f2 is not None and v['kind'] == 'validator-call' and isinstance(f2.kwargs.get('validator'), ast.Call) and isinstance(f2.kwargs['validator'].func, ast.Name):
                            cand = f2.kwargs['validator'].func.id
                        elif ci2 is not None and v['kind'] == 'validator':
                            vs = ci2.validators.get(v['field'], [])
                            if len(vs) == v['of']:
                                cand = vs[v['index']]
                        if cand is not None and cand in scope and (r['module'], r['class'], cand) not in known:
                            cands.add(cand)
                        continue
                    cmod, cscope = scope_of(v['module'], v['class'])
                    if cscope is None:
                        continue
                    if v['class'] is not None and v['class'] != r['class']:
                        # a caller in another class of the hierarchy
                        pass
                    cf = cscope.get(v['caller'])
                    if cf is None:
                        continue
                    pc = private_callees(self, cf, v['class'])
                    if len(pc) != v['of']:
                        continue
                    cand = pc[v['index']]
                    if (r['module'], r['class'], cand) in known or cand not in scope:
                        continue   # that is another recorded anchor, or defined elsewhere
                    cands.add(cand)
                if len(cands) == 1:
                    new_name = cands.pop()
                    fi = scope[new_name]
                    fi.name = r['name']
                    fi.qualname = (r['class'] + '.' if r['class'] else '') + r['name']
                    scope[r['name']] = fi
                    self.renamed[fi.qualname] = new_name
                    self.canon_names.setdefault(new_name, set()).add(r['name'])
                    # validators / defaults registered under the new name
                    if r['class'] is not None:
                        ci = mod.classes[r['class']]
                        for fld, vs in ci.validators.items():
                            ci.validators[fld] = [r['name'] if x == new_name else x for x in vs]
                    changed = True
            if not changed:
                break

    # ------------------------------------------------------------------ load
    def _load(self):
        for path in sorted(self.src.rglob('*.py')):
            rel = path.relative_to(self.repo).as_posix()
            if path.name == '_unused.py':
                self.excluded.append(rel)
                continue
            parts = list(path.relative_to(self.repo / 'src').with_suffix('').parts)
            if parts[-1] == '__init__':
                parts = parts[:-1]
            name = '.'.join(parts)
            source = path.read_text(encoding='utf8')
            try:
                tree = ast.parse(source, filename=str(path))
            except SyntaxError as e:
                raise AnalysisError('PM', f'{rel} does not parse: {e}')
            mod = ModuleInfo(name, path, rel, source, tree)
            self.modules[name] = mod
            self._scan_module(mod)

    def _scan_module(self, mod: ModuleInfo):
        for st in self._flat_body(mod.tree.body):
            if isinstance(st, ast.ImportFrom):
                base = st.module or ''
                if st.level:
                    pkg_parts = mod.name.split('.')
                    if not mod.path.name == '__init__.py':
                        pkg_parts = pkg_parts[:-1]
                    pkg_parts = pkg_parts[: len(pkg_parts) - (st.level - 1)]
                    base = '.'.join(pkg_parts + ([st.module] if st.module else []))
                for a in st.names:
                    mod.imports[a.asname or a.name] = (base, a.name)
            elif isinstance(st, ast.Import):
                for a in st.names:
                    mod.imports[a.asname or a.name.split('.')[0]] = (a.name, None)
            elif isinstance(st, (ast.FunctionDef, ast.AsyncFunctionDef)):
                fi = FunctionInfo(st.name, st.name, mod, st, None, 'function', [_dec_name(d) for d in st.decorator_list])
                mod.functions[st.name] = fi
            elif isinstance(st, ast.ClassDef):
                self._scan_class(mod, st)
            elif isinstance(st, ast.Assign):
                for t in st.targets:
                    if isinstance(t, ast.Name):
                        mod.assigns[t.id] = st.value
                        mod.assign_nodes[t.id] = st
            elif isinstance(st, ast.AnnAssign) and isinstance(st.target, ast.Name) and st.value is not None:
                mod.assigns[st.target.id] = st.value
                mod.assign_nodes[st.target.id] = st

    @staticmethod
    def _flat_body(body) -> Iterator[ast.stmt]:
        for st in body:
            if isinstance(st, ast.Try):
                yield from Model._flat_body(st.body)
                for h in st.handlers:
                    yield from Model._flat_body(h.body)
            elif isinstance(st, ast.If):
                yield from Model._flat_body(st.body)
                yield from Model._flat_body(st.orelse)
            else:
                yield st

    def _scan_class(self, mod: ModuleInfo, node: ast.ClassDef):
        ci = ClassInfo(node.name, mod, node, [_dec_name(b) for b in node.bases], [_dec_name(d) for d in node.decorator_list])
        mod.classes[node.name] = ci
        if node.name in self.classes:
            raise AnalysisError('PM', f'class name {node.name} defined twice ({self.classes[node.name].where}, {ci.where})')
        self.classes[node.name] = ci
        for st in node.body:
            if isinstance(st, (ast.FunctionDef, ast.AsyncFunctionDef)):
                decs = [_dec_name(d) for d in st.decorator_list]
                kind = 'method'
                if 'property' in decs:
                    kind = 'property'
                elif 'classmethod' in decs:
                    kind = 'classmethod'
                elif 'staticmethod' in decs:
                    kind = 'staticmethod'
                fi = FunctionInfo(st.name, f'{node.name}.{st.name}', mod, st, ci, kind, decs)
                for d in decs:
                    if d.endswith('.validator'):
                        ci.validators.setdefault(d[: -len('.validator')], []).append(st.name)
                    elif d.endswith('.default'):
                        ci.default_methods[d[: -len('.default')]] = st.name
                    elif d.endswith('.setter'):
                        kind = 'setter'
                if kind == 'setter':
                    continue
                ci.methods[st.name] = fi
            elif isinstance(st, ast.AnnAssign) and isinstance(st.target, ast.Name):
                ann = ast.unparse(st.annotation)
                if ann.startswith('ClassVar') or ann.startswith('typing.ClassVar'):
                    if st.value is not None:
                        ci.class_assigns[st.target.id] = st.value
                    continue
                fld = FieldInfo(st.target.id, ci, st.annotation, st)
                v = st.value
                if isinstance(v, ast.Call) and _dec_name(v.func) in ('field', 'attrs.field', 'attr.ib', 'ib'):
                    fld.uses_field_call = True
                    for kw in v.keywords:
                        if kw.arg is None:
                            continue
                        fld.kwargs[kw.arg] = kw.value
                    fld.default = fld.kwargs.get('default')
                    fld.factory = fld.kwargs.get('factory')
                    # validator=... keyword is kept in kwargs
                elif v is not None:
                    fld.default = v
                ci.own_fields.append(fld)
            elif isinstance(st, ast.Assign):
                for t in st.targets:
                    if isinstance(t, ast.Name):
                        ci.class_assigns[t.id] = st.value

    # ------------------------------------------------------------------ link
    def _link(self):
        for ci in self.classes.values():
            for b in ci.base_names:
                target = self.resolve_name(ci.module, b.split('[')[0])
                if target and target[0] == 'class':
                    ci.bases.append(target[1])
                else:
                    ci.external_bases.append(b)
        for ci in self.classes.values():
            self._synthesize_members(ci)
            if ci.is_enum:
                for name, value in ci.class_assigns.items():
                    if not name.startswith('_') and name not in ci.methods:
                        ci.enum_members[name] = value
            if not ci.is_record and not any(c.is_record for c in ci.mro()):
                ci.own_fields = []  # plain classes have no declared fields

    def _synthesize_members(self, ci: ClassInfo):
        """class attributes bound to a function built by a module-level factory - `name = factory('CONST')` where the
        factory defines a nested function and returns it, or returns property(<it>) - are methods / properties of the
        class: the nested function with the factory's parameters replaced by the constant arguments"""
        import copy
        mod = ci.module
        for name, val in list(ci.class_assigns.items()):
            if name in ci.methods or not (isinstance(val, ast.Call) and isinstance(val.func, ast.Name) and not val.keywords and val.args
                                          and all(isinstance(a, ast.Constant) for a in val.args)):
                continue
            r = self.resolve_name(mod, val.func.id)
            if not r or r[0] != 'func':
                continue
            fac = r[1].node
            nested = {n.name: n for n in fac.body if isinstance(n, ast.FunctionDef)}
            rets = [n for n in fac.body if isinstance(n, ast.Return)]
            if len(rets) != 1 or rets[0].value is None:
                continue
            rv = rets[0].value
            kind = 'method'
            if isinstance(rv, ast.Call) and isinstance(rv.func, ast.Name) and rv.func.id == 'property' and len(rv.args) == 1 and isinstance(rv.args[0], ast.Name):
                kind, rv = 'property', rv.args[0]
            if not (isinstance(rv, ast.Name) and rv.id in nested):
                continue
            params = [a.arg for a in fac.args.posonlyargs + fac.args.args]
            if len(params) != len(val.args):
                continue
            binding = dict(zip(params, val.args))
            node = copy.deepcopy(nested[rv.id])

            class _Sub(ast.NodeTransformer):
                def visit_Name(self, n):
                    if isinstance(n.ctx, ast.Load) and n.id in binding:
                        return ast.copy_location(ast.Constant(binding[n.id].value), n)
                    return n
            node = ast.fix_missing_locations(_Sub().visit(node))
            node.name = name
            ci.methods[name] = FunctionInfo(name, f'{ci.name}.{name}', r[1].module, node, ci, kind, ['property'] if kind == 'property' else [])

    # ------------------------------------------------------------ resolution
    def resolve_name(self, mod: ModuleInfo, name: str, _depth: int = 0):
        """Resolve a (possibly dotted) global name seen in `mod`.

        Returns ('class', ClassInfo) | ('func', FunctionInfo) | ('const', ModuleInfo, name)
        | ('module', ModuleInfo) | ('external', modname, attr) | None.
        """
        if _depth > 10:
            return None
        head, _, rest = name.partition('.')
        res = None
        if head in mod.classes:
            res = ('class', mod.classes[head])
        elif head in mod.functions:
            res = ('func', mod.functions[head])
        elif head in mod.assigns:
            res = ('const', mod, head)
        elif head in mod.imports:
            m, attr = mod.imports[head]
            if attr is None:
                res = ('module', self.modules[m]) if m in self.modules else ('external', m, None)
            else:
                full = f'{m}.{attr}'
                if full in self.modules:
                    res = ('module', self.modules[full])
                elif m in self.modules:
                    res = self.resolve_name(self.modules[m], attr, _depth + 1)
                    if res is None:
                        res = ('external', m, attr)
                else:
                    res = ('external', m, attr)
        if res is None:
            return None
        if rest:
            if res[0] == 'module':
                return self.resolve_name(res[1], rest, _depth + 1)
            if res[0] == 'external':
                return ('external', res[1], (res[2] + '.' if res[2] else '') + rest)
            return None  # attribute of class/func/const: caller handles
        return res

    def cls(self, name: str, rule: str = 'PM') -> ClassInfo:
        c = self.classes.get(name)
        if c is None:
            raise AnalysisError(rule, f'class {name} not found (anchor vanished)')
        return c

    def module(self, name: str, rule: str = 'PM') -> ModuleInfo:
        m = self.modules.get(name)
        if m is None:
            raise AnalysisError(rule, f'module {name} not found (anchor vanished)')
        return m

    def canon(self, name: str) -> str:
        """the recorded name of a renamed private anchor (the name itself otherwise)"""
        c = self.canon_names.get(name)
        return next(iter(c)) if c and len(c) == 1 else name

    def func(self, module: str, name: str, rule: str = 'PM') -> FunctionInfo:
        m = self.module(module, rule)
        f = m.functions.get(name)
        if f is None:
            raise AnalysisError(rule, f'function {module}.{name} not found (anchor vanished)')
        return f

    def method(self, cls: str, name: str, rule: str = 'PM') -> FunctionInfo:
        c = self.cls(cls, rule)
        f = c.resolve(name)
        if f is None:
            raise AnalysisError(rule, f'method {cls}.{name} not found (anchor vanished)')
        return f

    def subclasses(self, ci: ClassInfo, strict: bool = False) -> List[ClassInfo]:
        out = []
        for c in self.classes.values():
            if ci in c.mro() and (not strict or c is not ci):
                out.append(c)
        return out

    def is_leaf(self, ci: ClassInfo) -> bool:
        return not self.subclasses(ci, strict=True)

    def overrides(self, ci: ClassInfo, name: str) -> List[FunctionInfo]:
        """definitions of `name` in strict subclasses of ci"""
        return [c.methods[name] for c in self.subclasses(ci, strict=True) if name in c.methods]

    def all_functions(self) -> List[FunctionInfo]:
        out = []
        for m in self.modules.values():
            out.extend(m.functions.values())
            for c in m.classes.values():
                out.extend(c.methods.values())
        return out

    def ast_root(self) -> ClassInfo:
        return self.cls('HplAstObject')

    def ast_classes(self) -> List[ClassInfo]:
        root = self.ast_root()
        return [c for c in self.classes.values() if root in c.mro()]

    def concrete_ast_classes(self) -> List[ClassInfo]:
        return [c for c in self.ast_classes() if self.is_leaf(c)]


def iter_nested_functions(fn: ast.AST) -> Iterator[ast.AST]:
    for n in ast.walk(fn):
        if n is not fn and isinstance(n, (ast.FunctionDef, ast.Lambda)):
            yield n


def repo_path() -> str:
    return os.environ.get('HPLSA_REPO', '/repo')

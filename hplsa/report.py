"""Verdict protocol: findings, rule results, evidence files, known findings."""
from __future__ import annotations

import json
import os
import time
from dataclasses import dataclass, field as dfield
from pathlib import Path
from typing import Any, Dict, List, Optional

from .model import AnalysisError

VERIF = Path(__file__).resolve().parent.parent


@dataclass
class Finding:
    rule: str
    construct: str  # stable key: class.method:slot / grammar rule / terminal ... never a line number
    what: str
    where: str = ''  # file:line for humans
    expected: Any = None
    found: Any = None

    @property
    def key(self) -> str:
        return f'{self.rule}|{self.construct}'

    def to_json(self) -> Dict[str, Any]:
        return {
            'rule': self.rule,
            'construct': self.construct,
            'what': self.what,
            'where': self.where,
            'expected': _j(self.expected),
            'found': _j(self.found),
        }


def _j(x):
    if x is None or isinstance(x, (str, int, float, bool)):
        return x
    if isinstance(x, (list, tuple, set, frozenset)):
        return [_j(i) for i in (sorted(x, key=repr) if isinstance(x, (set, frozenset)) else x)]
    if isinstance(x, dict):
        return {str(k): _j(v) for k, v in x.items()}
    return repr(x)


@dataclass
class RuleResult:
    rule: str
    title: str
    instances: int = 0  # rule instances (obligations) evaluated
    discharged: int = 0
    findings: List[Finding] = dfield(default_factory=list)
    samples: List[str] = dfield(default_factory=list)
    notes: List[str] = dfield(default_factory=list)
    counts: Dict[str, int] = dfield(default_factory=dict)
    facts: List[str] = dfield(default_factory=list)  # distinct non-empty extracted facts

    def ok(self, sample: Optional[str] = None):
        self.instances += 1
        self.discharged += 1
        if sample is not None:
            self.fact(sample)

    def fact(self, s: str):
        if s not in self.facts:
            self.facts.append(s)
        if len(self.samples) < 6 and s not in self.samples:
            self.samples.append(s)

    def fail(self, construct: str, what: str, where: str = '', expected=None, found=None):
        self.instances += 1
        self.findings.append(Finding(self.rule, construct, what, where, expected, found))

    def floor(self, what: str, n: int, minimum: int):
        self.counts[what] = n
        if n < minimum and not self.findings:   # findings already explain a low count: report them, not the floor
            raise AnalysisError(self.rule, f'{what}: matched {n} instances, floor confirmed by hand is {minimum} (rule would pass vacuously)')


def load_known() -> Dict[str, Any]:
    p = VERIF / 'known_findings.json'
    if not p.exists():
        return {'findings': [], 'fixed': []}
    return json.loads(p.read_text(encoding='utf8'))


class Run:
    """One invocation of ./check for one property."""

    def __init__(self, prop: str, tier: str, level: str = 'other'):
        self.prop = prop
        self.tier = tier
        self.level = level
        self.t0 = time.time()
        self.results: List[RuleResult] = []
        self.assumptions: List[str] = []
        self.explanation = ''
        self.extra: Dict[str, Any] = {}
        try:
            self.seed = int(os.environ.get('VERIF_SEED', '0') or 0)
        except ValueError:
            self.seed = 0

    def add(self, r: RuleResult):
        self.results.append(r)

    def finish(self) -> int:
        known = load_known()
        listed = {(k['property'], k['rule'], k['construct']): k for k in known.get('findings', [])}
        violations: List[Finding] = []
        known_hits: List[Finding] = []
        seen_keys = set()
        for r in self.results:
            for f in r.findings:
                if f.key in seen_keys:
                    continue
                seen_keys.add(f.key)
                if (self.prop, f.rule, f.construct) in listed:
                    known_hits.append(f)
                else:
                    violations.append(f)
        for r in self.results:
            status = 'ok' if not r.findings else f'{len(r.findings)} finding(s)'
            cnt = ' '.join(f'{k}={v}' for k, v in r.counts.items())
            print(f'RULE {r.rule:5s} {status:14s} instances={r.instances} {cnt} :: {r.title}')
            for n in r.notes:
                print(f'      note: {n}')
        for f in known_hits:
            k = listed[(self.prop, f.rule, f.construct)]
            print(f'KNOWN-FINDING: property={self.prop} {f.rule} {f.construct} {k.get("what", f.what)}')
        evdir = Path(os.environ.get('HPLSA_EVIDENCE_DIR') or (VERIF / 'evidence'))
        replay_dir = evdir / 'replay'
        for i, f in enumerate(violations):
            replay_dir.mkdir(parents=True, exist_ok=True)
            path = replay_dir / f'{self.prop}-{f.rule}-{_slug(f.construct)}.json'
            path.write_text(json.dumps({'property': self.prop, **f.to_json()}, indent=1), encoding='utf8')
            print(f'  {f.rule} {f.construct}: {f.what} [{f.where}]')
            print(f'VIOLATION property={self.prop} replay={path}')
        self.write_evidence(len(violations), known_hits)
        return 1 if violations else 0

    def write_evidence(self, nviol: int, known_hits: List[Finding]):
        instances = sum(r.instances for r in self.results)
        discharged = sum(r.discharged for r in self.results)
        facts: List[str] = []
        for r in self.results:
            for s in r.facts:
                t = f'{r.rule} {s}'
                if t not in facts:
                    facts.append(t)
        samples: List[str] = []
        for r in self.results:
            for s in r.samples[:4]:
                samples.append(f'{r.rule} {s}')
        cov: Dict[str, Any] = {
            'explanation': self.explanation,
            'evaluations': instances,
            'distinct_nontrivial': len(facts),
            'rule': 'one evaluation = one rule instance (a resolved construct of /repo checked against its rule); '
                    'distinct_nontrivial = distinct (rule, extracted fact) pairs with a non-empty extracted fact',
            'samples': samples[:40] or ['(none)'],
            'obligations': instances,
            'discharged': discharged,
            'rules': {r.rule: {'title': r.title, 'instances': r.instances, 'findings': len(r.findings), **r.counts} for r in self.results},
            'known_findings_hit': [f'{f.rule} {f.construct}' for f in known_hits],
            'exhaustive': True,
        }
        cov.update(self.extra)
        ev = {
            'property_id': self.prop,
            'tier': self.tier,
            'seed': self.seed,
            'level': self.level,
            'coverage': cov,
            'assumptions': self.assumptions,
            'wall_s': round(time.time() - self.t0, 3),
            'violations': nviol,
        }
        out = Path(os.environ.get('HPLSA_EVIDENCE_DIR') or (VERIF / 'evidence'))
        out.mkdir(parents=True, exist_ok=True)
        (out / f'{self.prop}.json').write_text(json.dumps(ev, indent=1), encoding='utf8')


def _slug(s: str) -> str:
    return ''.join(c if c.isalnum() or c in '._-' else '_' for c in s)[:80]

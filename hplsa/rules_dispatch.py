"""E6 dispatch-table rules D1 (binding order of sanity_check), D2 (canonical_form
split positions), D5 (simplify re-wrapping): each enum member is enumerated, the
if-chain is folded with the enum-predicate tables, and the effects per member are
compared with the oracle."""
from __future__ import annotations

import ast
from typing import Dict, List, Optional, Set, Tuple

from .ctx import Ctx
from .model import AnalysisError, FunctionInfo
from .report import RuleResult
from .terms import (Attr, BoundMethod, Call, ClassRef, Comp, Const, EnumMember, Evaluator, Ext, FuncRef, Ite, Loop, New,
                    Op, Opaque, Outcome, Sub, Sym, Term, TupleT, alternatives, default_inline, guards_repr, norm_guards, flat_guards,
                    walk)
from .util import all_terms, call_name, call_recv, method_calls, none_test

# binding order (property C02): A = activator, B = behaviour, Tr = trigger, T = terminator
D1_TABLE = {
    'ABSENCE': ['A()', 'B(A)', 'T(A)'],
    'EXISTENCE': ['A()', 'B(A)', 'T(A)'],
    'REQUIREMENT': ['A()', 'B(A)', 'Tr(B)', 'T(A)'],
    'RESPONSE': ['A()', 'Tr(A)', 'B(Tr)', 'T(A)'],
    'PREVENTION': ['A()', 'Tr(A)', 'B(Tr)', 'T(A)'],
}
_SHORT = {'_check_activator': 'A', '_check_behaviour': 'B', '_check_trigger': 'Tr', '_check_terminator': 'T'}


def _short(t: Term) -> str:
    if isinstance(t, Call) and call_name(t) in _SHORT:
        return _SHORT[call_name(t)]
    if isinstance(t, TupleT) and not t.items:
        return '()'
    return repr(t)[:40]


def D1(ctx: Ctx) -> RuleResult:
    r = RuleResult('D1', 'binding order: sanity_check runs from the constructor and threads aliases activator -> (trigger -> behaviour | behaviour -> trigger for requires); the terminator sees only the activator aliases')
    pc = ctx.model.cls('HplProperty', 'D1')
    sc = pc.methods.get('sanity_check')
    if sc is None:
        raise AnalysisError('D1', 'HplProperty.sanity_check not found')
    self_t = Sym('self', 'HplProperty')
    # must-pass-through: __attrs_post_init__ calls sanity_check on every path
    pi = pc.resolve('__attrs_post_init__')
    if pi is None:
        r.fail('HplProperty.__attrs_post_init__', 'missing: the sanity check no longer runs on construction / evolve / but', pc.where)
    else:
        def nopol(fi, d):
            return False
        outs = Evaluator(ctx.model, inline=nopol).run(pi, {'self': self_t})
        for o in outs:
            if o.kind == 'raise':
                continue
            if any(call_name(c) == 'sanity_check' and call_recv(c) == self_t for c in o.trace):
                r.ok(f'__attrs_post_init__ -> sanity_check() [{guards_repr(o.guards)[:40]}]')
            else:
                r.fail('HplProperty.__attrs_post_init__:path', f'a construction path skips sanity_check(): [{guards_repr(o.guards)}]', pi.where)

    def pol(fi: FunctionInfo, depth: int) -> bool:
        return fi.kind == 'property' and default_inline(fi, depth)
    pt = ctx.model.cls('PatternType', 'D1')
    for M in pt.enum_members:
        ev = Evaluator(ctx.model, inline=pol, assume={Attr(Attr(self_t, 'pattern'), 'pattern_type'): EnumMember('PatternType', M)})
        outs = ev.run(sc, {'self': self_t})
        want = D1_TABLE.get(M)
        if want is None:
            r.notes.append(f'new pattern type {M}: no binding-order row')
            continue
        live = [o for o in outs if o.kind != 'raise']
        if len(live) != 1 or live[0].guards:
            r.fail(f'sanity_check[{M}]', f'cannot fold the pattern dispatch for {M}: {[guards_repr(o.guards) + " " + o.kind for o in outs]}', sc.where)
            continue
        got = []
        for c in live[0].trace:
            if call_name(c) in _SHORT and call_recv(c) == self_t:
                got.append(f'{_short(c)}({", ".join(_short(a) for a in c.args)})')
        if got == want:
            r.ok(f'{M}: {" ; ".join(got)}')
        else:
            r.fail(f'sanity_check[{M}]', f'binding order for {M} is {" ; ".join(got)}, expected {" ; ".join(want)}', sc.where, want, got)
    _helpers(ctx, r, pc, self_t)
    return r


def _helpers(ctx: Ctx, r: RuleResult, pc, self_t: Term):
    def pol(fi: FunctionInfo, depth: int) -> bool:
        # private helpers of HplProperty that the per-position checks delegate to are looked through; the two leaf
        # checks (loops) and everything outside the class stay calls
        return fi.cls is pc and fi.name.startswith('_') and fi.name not in ('_check_refs_defined', '_check_duplicates') and default_inline(fi, depth)
    ev = Evaluator(ctx.model, inline=pol)
    avail = Sym('available')

    def slot_of(t: Term) -> Optional[str]:
        if isinstance(t, Attr) and isinstance(t.base, Attr) and t.base.base == self_t:
            return f'{t.base.name}.{t.name}'
        return None

    # _check_activator
    fi = pc.methods.get('_check_activator')
    if fi is None:
        raise AnalysisError('D1', '_check_activator not found')
    outs = ev.run(fi, {'self': self_t})
    ok_none = ok_some = False
    for o in outs:
        nts = [(none_test(t), p) for t, p in norm_guards(o.guards)]
        is_none = None
        for nt, p in nts:
            if nt and slot_of(nt[0]) == 'scope.activator':
                is_none = nt[1] if p else not nt[1]
        if is_none is True:
            ok_none = o.kind == 'return' and o.value == TupleT(())
            if not ok_none:
                r.fail('_check_activator:none', f'without an activator it returns {o.value!r}, expected ()', fi.where)
        elif is_none is False:
            refs = [c for c in o.trace if call_name(c) == '_check_refs_defined']
            al = o.value
            good_refs = len(refs) == 1 and slot_of(refs[0].args[0]) == 'scope.activator' and refs[0].args[1] == TupleT(())
            good_ret = isinstance(al, Call) and call_name(al) == 'aliases' and slot_of(call_recv(al)) == 'scope.activator'
            if not good_refs:
                r.fail('_check_activator:refs', f'the activator must be checked against the empty alias tuple: {[str(c) for c in refs]}', fi.where)
            if not good_ret:
                r.fail('_check_activator:return', f'returns {al!r}, expected the aliases of the activator', fi.where)
            ok_some = good_refs and good_ret
    if ok_none and ok_some:
        r.ok('_check_activator: refs vs (), returns activator aliases or ()')
    elif not (ok_none or ok_some):
        r.fail('_check_activator:shape', f'cannot interpret: {[str(o)[:80] for o in outs]}', fi.where)
    # trigger / behaviour
    for name, slot in (('_check_trigger', 'pattern.trigger'), ('_check_behaviour', 'pattern.behaviour')):
        fi = pc.methods.get(name)
        if fi is None:
            raise AnalysisError('D1', f'{name} not found')
        outs = [o for o in ev.run(fi, {'self': self_t, 'available': avail}) if o.kind != 'raise']
        for o in outs:
            refs = [c for c in o.trace if call_name(c) == '_check_refs_defined']
            dups = [c for c in o.trace if call_name(c) == '_check_duplicates']
            good = True
            if not (len(refs) == 1 and slot_of(refs[0].args[0]) == slot and refs[0].args[1] == avail):
                r.fail(f'{name}:refs', f'references of {slot} are not checked against the available aliases: {[str(c) for c in refs]}', fi.where)
                good = False
            if not (len(dups) == 1 and isinstance(dups[0].args[0], Call) and call_name(dups[0].args[0]) == 'aliases' and slot_of(call_recv(dups[0].args[0])) == slot and dups[0].args[1] == avail):
                r.fail(f'{name}:dups', f'aliases of {slot} are not checked for re-binding against the available aliases: {[str(c) for c in dups]}', fi.where)
                good = False
            v = o.value
            parts = list(v.args) if isinstance(v, Op) and v.op == '+' else [v]
            has_own = any(isinstance(p, Call) and call_name(p) == 'aliases' and slot_of(call_recv(p)) == slot for p in parts)
            has_av = avail in parts
            if not (o.kind == 'return' and has_own and has_av):
                r.fail(f'{name}:return', f'returns {v!r}; the next event must see both the aliases of {slot} and the ones available so far', fi.where, 'aliases + available', repr(v))
                good = False
            if good:
                r.ok(f'{name}: refs/dups vs available, returns own aliases + available')
    # terminator
    fi = pc.methods.get('_check_terminator')
    if fi is None:
        raise AnalysisError('D1', '_check_terminator not found')
    outs = ev.run(fi, {'self': self_t, 'available': avail})
    checked = False
    for o in outs:
        is_none = None
        for t, p in norm_guards(o.guards):
            nt = none_test(t)
            if nt and slot_of(nt[0]) == 'scope.terminator':
                is_none = nt[1] if p else not nt[1]
        if is_none is False:
            refs = [c for c in o.trace if call_name(c) == '_check_refs_defined']
            dups = [c for c in o.trace if call_name(c) == '_check_duplicates']
            g1 = len(refs) == 1 and slot_of(refs[0].args[0]) == 'scope.terminator' and refs[0].args[1] == avail
            g2 = len(dups) == 1 and dups[0].args[1] == avail and isinstance(dups[0].args[0], Call) and call_name(dups[0].args[0]) == 'aliases' and slot_of(call_recv(dups[0].args[0])) == 'scope.terminator'
            if g1 and g2:
                checked = True
            else:
                r.fail('_check_terminator', f'terminator checks are incomplete: refs={[str(c) for c in refs]} dups={[str(c) for c in dups]}', fi.where)
    (r.ok('_check_terminator: refs and re-binding vs available') if checked else r.fail('_check_terminator:shape', 'no path checks a present terminator', fi.where))
    # the two leaf checks
    fi = pc.methods.get('_check_refs_defined')
    outs = ev.run(fi, {'self': self_t, 'available': avail, 'event': Sym('event')})
    ok = False
    for o in outs:
        for e in o.effects:
            if isinstance(e, Loop) and isinstance(e.iter, Call) and call_name(e.iter) == 'external_references' and call_recv(e.iter) == Sym('event'):
                for rg, exc in e.raises:
                    for t, p in norm_guards(rg):
                        if isinstance(t, Op) and ((t.op == 'not in' and p) or (t.op == 'in' and not p)) and t.args[1] == avail and 'HplSanityError' in repr(exc):
                            ok = True
                        if isinstance(t, Op) and ((t.op == 'in' and p) or (t.op == 'not in' and not p)) and t.args[1] == avail:
                            r.fail('_check_refs_defined:polarity', 'raises when the reference IS available', fi.where)
    (r.ok('_check_refs_defined: HplSanityError for every external reference not in available') if ok else r.fail('_check_refs_defined', f'not "for ref in event.external_references(): if ref not in available: raise HplSanityError": {[str(o)[:120] for o in outs]}', fi.where))
    fi = pc.methods.get('_check_duplicates')
    outs = ev.run(fi, {'self': self_t, 'available': avail, 'aliases': Sym('aliases')})
    ok = False
    for o in outs:
        for e in o.effects:
            if isinstance(e, Loop) and e.iter == Sym('aliases'):
                for rg, exc in e.raises:
                    for t, p in norm_guards(rg):
                        if isinstance(t, Op) and ((t.op == 'in' and p) or (t.op == 'not in' and not p)) and t.args[1] == avail and 'HplSanityError' in repr(exc):
                            ok = True
    (r.ok('_check_duplicates: HplSanityError for every alias already available') if ok else r.fail('_check_duplicates', f'not "for alias in aliases: if alias in available: raise HplSanityError": {[str(o)[:120] for o in outs]}', fi.where))
    # duplicate channels in a disjunction
    ed = ctx.model.cls('HplEventDisjunction', 'D1')
    pi = ed.resolve('__attrs_post_init__')
    if pi is None:
        r.fail('HplEventDisjunction.__attrs_post_init__', 'missing: a channel may occur twice in one disjunction', ed.where)
    else:
        self_e = Sym('self', 'HplEventDisjunction')
        # the construction hook and the private methods it calls on self
        funcs = [pi]
        seen_f = {pi.key}
        todo = [pi]
        while todo:
            f0 = todo.pop()
            for n in ast.walk(f0.node):
                if isinstance(n, ast.Call) and isinstance(n.func, ast.Attribute) and isinstance(n.func.value, ast.Name) and n.func.value.id == 'self':
                    m2 = ed.resolve(n.func.attr)
                    if m2 is not None and m2.key not in seen_f and m2.name.startswith('_'):
                        seen_f.add(m2.key)
                        funcs.append(m2)
                        todo.append(m2)
        found = False
        for f0 in funcs:
            for o in Evaluator(ctx.model, inline=lambda fi, d: False).run(f0, {'self': self_e}):
                for e in o.effects:
                    if isinstance(e, Loop):
                        over_all = any(isinstance(x, Call) and call_name(x) == 'simple_events' and call_recv(x) == self_e for x in walk(e.iter)) or \
                            any(isinstance(x, Call) and call_name(x) == 'simple_events' and call_recv(x) == self_e for v in (o.env or {}).values() for x in walk(v))
                        for rg, exc in e.raises:
                            named = any(pol and isinstance(t, Op) and t.op == 'in' and isinstance(t.args[0], Attr) and t.args[0].name == 'name' for t, pol in norm_guards(rg))
                            if 'HplSanityError' in repr(exc) and named and over_all:
                                found = True
        if found:
            r.ok('HplEventDisjunction: HplSanityError when a channel name repeats among simple_events()')
        else:
            r.fail('HplEventDisjunction.__attrs_post_init__:dup', 'duplicate-channel detection over simple_events() not found', pi.where)
    # quantifier hygiene: three distinct HplSanityError raises
    qc = ctx.model.cls('HplQuantifier', 'D1')
    msgs = set()
    for fld in ('domain', 'condition'):
        for v in qc.all_validators(fld):
            for n in ast.walk(v.node):
                if isinstance(n, ast.Raise) and n.exc is not None and 'HplSanityError' in ast.unparse(n.exc):
                    msgs.add((fld, n.lineno))
    if len(msgs) >= 3:
        r.ok('HplQuantifier: three hygiene errors (variable in own domain; re-binding; variable unused)')
    else:
        r.fail('HplQuantifier:hygiene', f'expected three HplSanityError raises in the domain/condition validators, found {len(msgs)}', qc.where)
    self_q = Sym('self', 'HplQuantifier')
    # each hygiene check walks the WHOLE sub-tree (iterate()), not just its root
    for fld, what in (('domain', 'the variable must not occur anywhere in its own domain'), ('condition', 'no nested quantifier may bind the same variable')):
        walked = False
        for v in qc.all_validators(fld):
            ps = v.params()
            val = Sym('value')
            for o in ctx.ev.run(v, {ps[0]: self_q, ps[2]: val}, self_cls=qc):
                for e in o.effects:
                    if isinstance(e, Loop) and isinstance(e.iter, Call) and call_name(e.iter) == 'iterate' and call_recv(e.iter) == val:
                        for rg, exc in e.raises:
                            if 'HplSanityError' in repr(exc) and any(pol and isinstance(t, Op) and t.op == '==' and Attr(self_q, 'variable') in t.args for t, pol in flat_guards(rg)):
                                walked = True
        if walked:
            r.ok(f'HplQuantifier.{fld}: every node of the sub-tree is compared with the bound variable')
        else:
            r.fail(f'HplQuantifier.{fld}:walk', f'the hygiene check of {fld} does not walk the whole sub-tree with iterate() ({what}): an occurrence below the root goes unnoticed', qc.where)
    unused_ok = False
    for v in qc.all_validators('condition'):
        ps = v.params()
        outs = ctx.ev.run(v, {ps[0]: self_q, ps[2]: Sym('value')}, self_cls=qc)
        for o in outs:
            if o.kind != 'raise' or 'HplSanityError' not in repr(o.value):
                continue
            for t, pol in flat_guards(o.guards):
                if isinstance(t, Opaque) and t.tag.startswith('loop:') and not pol:
                    cnt = t.tag[5:]
                    for e in o.effects:
                        if isinstance(e, Loop):
                            for pg, flow, binds, effs in e.paths:
                                val = dict(binds).get(cnt)
                                inc = (isinstance(val, Op) and val.op == '+' and Opaque(f'loopvar:{cnt}') in val.args and Const(1) in val.args) or \
                                    (isinstance(val, Const) and bool(val.value))
                                matches = any(pol2 and isinstance(g, Op) and g.op == '==' and (Attr(self_q, 'variable') in g.args or any(isinstance(a, Attr) and a.name == 'name' for a in g.args)) for g, pol2 in flat_guards(pg))
                                if inc and matches:
                                    unused_ok = True
    if not unused_ok:
        r.fail('HplQuantifier:unused', 'the "variable never used" check (counter incremented per matching reference, error when zero) not found', qc.where)


# ------------------------------------------------------------------------ D2
D2_PATTERN = {'ABSENCE': 'behaviour', 'REQUIREMENT': 'behaviour', 'PREVENTION': 'behaviour', 'RESPONSE': 'trigger', 'EXISTENCE': None}
D2_SCOPE = {'AFTER': 'activator', 'AFTER_UNTIL': 'activator', 'GLOBAL': None, 'UNTIL': None}
SOUND_SPLITS = {('ABSENCE', 'behaviour'), ('REQUIREMENT', 'behaviour'), ('PREVENTION', 'behaviour'), ('RESPONSE', 'trigger')}


def _split_info(t: Term, owner: Term) -> Tuple[Optional[str], List[str]]:
    """for a list of alternatives of `owner` (a scope or pattern term): (split field | None, problems)"""
    probs: List[str] = []
    if isinstance(t, TupleT) and t.kind == 'list':
        if t.items == (owner,):
            return None, probs
        return None, [f'alternatives are {t!r}, not [{owner!r}]']
    if isinstance(t, Comp) and t.kind == 'list' and len(t.gens) == 1:
        tgt, it, ifs = t.gens[0]
        if ifs:
            probs.append('alternatives are filtered')
        each = Sym(f'each:{tgt}')
        elt = t.elt
        if not (isinstance(elt, Call) and call_name(elt) == 'but' and call_recv(elt) == owner and not elt.args and len(elt.kwargs) == 1):
            return None, probs + [f'copies are not made with {owner!r}.but(<field>=alternative): {str(elt)[:80]}']
        field, val = elt.kwargs[0]
        if val != each:
            probs.append(f'the copy receives {val!r}, not the alternative')
        if not (isinstance(it, Call) and call_name(it) == 'simple_events' and call_recv(it) == Attr(owner, field)):
            probs.append(f'alternatives come from {str(it)[:60]}, not from {owner!r}.{field}.simple_events() (slice / other field / other enumeration)')
        return field, probs
    return None, [f'cannot interpret {str(t)[:100]}']


def canonical_cells(ctx: Ctx) -> Dict[Tuple[str, str], Dict]:
    """(pattern type, scope type) -> extracted decomposition facts"""
    def build():
        fi = ctx.model.func('hpl.rewrite', 'canonical_form', 'D2')
        prop = Sym('property', 'HplProperty')

        def pol(f: FunctionInfo, depth: int) -> bool:
            if f.kind == 'property':
                return default_inline(f, depth)
            if f.module.name != 'hpl.rewrite' or depth > 4:
                return False
            return not any(isinstance(n, (ast.While, ast.Try, ast.With)) for n in ast.walk(f.node))
        cells = {}
        for P in ctx.model.cls('PatternType').enum_members:
            for S in ctx.model.cls('ScopeType').enum_members:
                assume = {Attr(Attr(prop, 'pattern'), 'pattern_type'): EnumMember('PatternType', P), Attr(Attr(prop, 'scope'), 'scope_type'): EnumMember('ScopeType', S)}
                ev = Evaluator(ctx.model, inline=pol, assume=assume)
                outs = ev.run(fi, {'property': prop})
                cells[(P, S)] = {'outs': outs, 'where': fi.where}
        return cells
    return ctx.memo('canonical_cells', build)


def D2(ctx: Ctx, rid: str = 'D2', sound_only: bool = False) -> RuleResult:
    title = 'canonical_form: per pattern type x scope type, exactly the activator (after*) and the behaviour (absence/requirement/prevention) or trigger (response) are split; scope-major product of but() copies; identity when nothing splits'
    if sound_only:
        title = 'split positions of canonical_form are inside the sound-position table (no existence/response behaviour, requirement/prevention trigger or terminator is ever split) and copies change nothing else'
    r = RuleResult(rid, title)
    prop = Sym('property', 'HplProperty')
    pat, sco = Attr(prop, 'pattern'), Attr(prop, 'scope')
    n = 0
    for (P, S), cell in canonical_cells(ctx).items():
        n += 1
        key = f'canonical_form[{P},{S}]'
        where = cell['where']
        outs = [o for o in cell['outs'] if o.kind != 'raise']
        want_p, want_s = D2_PATTERN.get(P, '?'), D2_SCOPE.get(S, '?')
        if want_p == '?' or want_s == '?':
            r.notes.append(f'{key}: new enum member, no oracle row')
            continue
        products = []
        identity = None
        extra_guards = []
        for o in outs:
            for g, leaf in alternatives(o.value):
                gs = norm_guards(o.guards + g)
                if isinstance(leaf, TupleT) and leaf.kind == 'list' and leaf.items == (prop,):
                    identity = gs
                elif isinstance(leaf, Comp):
                    products.append((leaf, gs))
                else:
                    r.fail(key + ':result', f'result is {str(leaf)[:100]}: neither [property] nor a product of copies', where)
            for t, p in norm_guards(o.guards):
                if not (isinstance(t, Op) and t.op in ('and', '==') and 'len' in repr(t)):
                    extra_guards.append((t, p))
        if not products:
            if identity is not None and want_p is None and want_s is None and not extra_guards:
                r.ok(f'{P},{S}: nothing is split, returns [property]')
            elif identity is not None and not sound_only:
                r.fail(key + ':product', f'{P}/{S} is never decomposed, expected a split of pattern.{want_p} / scope.{want_s}', where)
            elif identity is None:
                r.fail(key + ':product', 'no path builds the product of alternatives', where)
            continue
        cell_ok = True
        for comp, gs in products:
            if len(comp.gens) == 1 and isinstance(comp.elt, Call) and call_name(comp.elt) == 'but' and not comp.elt.args and {k for k, _ in comp.elt.kwargs} == {'scope', 'pattern'}:
                # a loop over a one-element literal was unrolled: a product with a singleton
                kw = dict(comp.elt.kwargs)
                each1 = Sym(f'each:{comp.gens[0][0]}')
                fixed = [k for k, v in kw.items() if v != each1]
                if len(fixed) == 1:
                    fk = fixed[0]
                    fgen = ('<fixed>', TupleT((kw[fk],), 'list'), ())
                    kw[fk] = Sym('each:<fixed>')
                    elt2 = Call(comp.elt.func, (), tuple((k, kw[k]) for k, _ in comp.elt.kwargs))
                    comp = Comp(comp.kind, elt2, (fgen, comp.gens[0]) if fk == 'scope' else (comp.gens[0], fgen))
            if len(comp.gens) != 2:
                r.fail(key + ':product', f'the result is not a two-level product: {str(comp)[:120]}', where)
                cell_ok = False
                continue
            (t1, it1, if1), (t2, it2, if2) = comp.gens
            elt = comp.elt
            sf, sprobs = _split_info(it1, sco)
            pf, pprobs = _split_info(it2, pat)
            swapped = False
            if sprobs and pprobs:
                # maybe generators are swapped (pattern-major)
                sf2, sp2 = _split_info(it2, sco)
                pf2, pp2 = _split_info(it1, pat)
                if not sp2 and not pp2:
                    swapped = True
                    sf, pf, sprobs, pprobs = sf2, pf2, [], []
            if swapped and not sound_only:
                r.fail(key + ':order', 'the product iterates patterns in the outer and scopes in the inner generator: output is not activator-major', where)
                cell_ok = False
            for pb in sprobs + pprobs:
                r.fail(key + ':alternatives', pb, where)
                cell_ok = False
            if if1 or if2:
                r.fail(key + ':filter', 'the product is filtered', where)
                cell_ok = False
            s_each, p_each = (Sym(f'each:{t2}'), Sym(f'each:{t1}')) if swapped else (Sym(f'each:{t1}'), Sym(f'each:{t2}'))
            ok_elt = isinstance(elt, Call) and call_name(elt) == 'but' and call_recv(elt) == prop and not elt.args and dict(elt.kwargs) == {'scope': s_each, 'pattern': p_each}
            if not ok_elt:
                r.fail(key + ':copy', f'each output is {str(elt)[:100]}, expected property.but(scope=<alt>, pattern=<alt>): other parts (metadata, time bounds, ...) may be lost', where)
                cell_ok = False
            if sound_only:
                if pf is not None and (P, pf) not in SOUND_SPLITS:
                    r.fail(key + ':unsound-split', f'{P} patterns are split over the alternatives of their {pf}: "exists/requires over a union" does not distribute, the canonical form is not equivalent', where, D2_PATTERN.get(P), pf)
                    cell_ok = False
                elif sf not in (None, 'activator'):
                    r.fail(key + ':unsound-split', f'the scope is split over its {sf}', where)
                    cell_ok = False
                continue
            if pf != want_p:
                r.fail(key + ':pattern-split', f'{P} patterns split {pf or "nothing"}, expected {want_p or "nothing"}', where, want_p, pf)
                cell_ok = False
            elif sf != want_s:
                r.fail(key + ':scope-split', f'{S} scopes split {sf or "nothing"}, expected {want_s or "nothing"}', where, want_s, sf)
                cell_ok = False
        if not sound_only:
            if identity is None:
                r.fail(key + ':identity', 'no path returns [property] itself when there is nothing to split', where)
                cell_ok = False
            if extra_guards:
                r.fail(key + ':dispatch', f'the decomposition of {P}/{S} also depends on {[repr(t)[:60] for t, _ in extra_guards][:2]}: pattern/scope kind alone must decide what is split', where)
                cell_ok = False
        if cell_ok:
            r.ok(f'{P},{S}: pattern.{want_p} x scope.{want_s}' + ('' if sound_only else ', scope-major, but(scope=, pattern=)'))
    r.floor('dispatch cells', n, 20)
    return r


def D2s(ctx: Ctx) -> RuleResult:
    return D2(ctx, 'D2s', True)


# ------------------------------------------------------------------------ D5
def D5(ctx: Ctx) -> RuleResult:
    r = RuleResult('D5', 'simplify re-wraps a predicate as the vacuous truth / contradiction exactly when its condition simplifies to the literal True / False')
    fi = ctx.model.func('hpl.rewrite', 'simplify', 'D5')
    p = Sym('p')

    def pol(f: FunctionInfo, depth: int) -> bool:
        return False
    outs = Evaluator(ctx.model, inline=pol).run(fi, {fi.params()[0]: p})
    seen = {}
    for o in outs:
        gs = norm_guards(o.guards)
        if o.kind != 'return':
            continue
        pred = any(isinstance(t, Attr) and t.name == 'is_predicate' and pol_ for t, pol_ in gs)
        if not pred:
            continue
        v = o.value
        flags = {}
        for t, pol_ in gs:
            if isinstance(t, Call) and isinstance(t.func, FuncRef) and t.func.key.endswith((':is_true', ':is_false')):
                flags[t.func.key.split(':')[1]] = pol_
        if isinstance(v, New) and v.cls == 'HplVacuousTruth':
            seen['true'] = flags.get('is_true') is True
        elif isinstance(v, New) and v.cls == 'HplContradiction':
            seen['false'] = flags.get('is_false') is True and flags.get('is_true') is False
        elif isinstance(v, New) and v.cls == 'HplPredicateExpression':
            seen['other'] = flags.get('is_true') is False and flags.get('is_false') is False
            e = v.get('expression')
            if not (isinstance(e, Call) and isinstance(e.func, FuncRef) and e.func.key.endswith(':_simplify')):
                r.fail('simplify:rewrap', f'the re-wrapped predicate does not hold the simplified condition: {e!r}', fi.where)
        elif v == p:
            seen.setdefault('vacuous-input', True)
    for k, label in (('true', 'is_true -> HplVacuousTruth'), ('false', 'is_false -> HplContradiction'), ('other', 'otherwise HplPredicateExpression(simplified)')):
        if seen.get(k):
            r.ok(label)
        else:
            r.fail(f'simplify:{k}', f'missing or mis-guarded case: {label}', fi.where)
    return r


RULES = {'D1': D1, 'D2': D2, 'D2s': D2s, 'D5': D5}

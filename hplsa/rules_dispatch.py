"""E6 dispatch-table rules D1 (binding order of sanity_check), D2 (canonical_form
split positions), D5 (simplify re-wrapping): each enum member is enumerated, the
if-chain is folded with the enum-predicate tables, and the effects per member are
compared with the oracle."""
from __future__ import annotations

import ast
from typing import Dict, List, Optional, Set, Tuple

from .ctx import Ctx
from .model import AnalysisError, FunctionInfo
from .report import RuleResult
from .terms import (Attr, BoundMethod, Call, ClassRef, Comp, Const, EnumMember, Evaluator, Ext, FuncRef, Ite, Loop, New,
                    Op, Opaque, Outcome, Sub, Sym, Term, TupleT, alternatives, default_inline, guards_repr, norm_guards, flat_guards,
                    walk)
from .util import search_tests, all_terms, call_name, call_recv, method_calls, none_test

# binding order (property C02): A = activator, B = behaviour, Tr = trigger, T = terminator
D1_TABLE = {
    'ABSENCE': ['A()', 'B(A)', 'T(A)'],
    'EXISTENCE': ['A()', 'B(A)', 'T(A)'],
    'REQUIREMENT': ['A()', 'B(A)', 'Tr(B)', 'T(A)'],
    'RESPONSE': ['A()', 'Tr(A)', 'B(Tr)', 'T(A)'],
    'PREVENTION': ['A()', 'Tr(A)', 'B(Tr)', 'T(A)'],
}
_SHORT = {'_check_activator': 'A', '_check_behaviour': 'B', '_check_trigger': 'Tr', '_check_terminator': 'T'}


def _short(t: Term) -> str:
    if isinstance(t, Call) and call_name(t) in _SHORT:
        return _SHORT[call_name(t)]
    if isinstance(t, TupleT) and not t.items:
        return '()'
    return repr(t)[:40]


def D1(ctx: Ctx) -> RuleResult:
    r = RuleResult('D1', 'binding order: sanity_check runs from the constructor and threads aliases activator -> (trigger -> behaviour | behaviour -> trigger for requires); the terminator sees only the activator aliases')
    pc = ctx.model.cls('HplProperty', 'D1')
    sc = pc.methods.get('sanity_check')
    if sc is None:
        raise AnalysisError('D1', 'HplProperty.sanity_check not found')
    self_t = Sym('self', 'HplProperty')
    # must-pass-through: __attrs_post_init__ calls sanity_check on every path
    pi = pc.resolve('__attrs_post_init__')
    if pi is None:
        r.fail('HplProperty.__attrs_post_init__', 'missing: the sanity check no longer runs on construction / evolve / but', pc.where)
    else:
        def nopol(fi, d):
            return False
        outs = Evaluator(ctx.model, inline=nopol).run(pi, {'self': self_t})
        for o in outs:
            if o.kind == 'raise':
                continue
            if any(call_name(c) == 'sanity_check' and call_recv(c) == self_t for c in o.trace):
                r.ok(f'__attrs_post_init__ -> sanity_check() [{guards_repr(o.guards)[:40]}]')
            else:
                r.fail('HplProperty.__attrs_post_init__:path', f'a construction path skips sanity_check(): [{guards_repr(o.guards)}]', pi.where)

    _binding_order(ctx, r, pc, sc, self_t)
    _helpers(ctx, r, pc, self_t)
    return r


# expected order of events and, for each, the events whose aliases are in scope when it is checked
_A, _B, _TR, _T = 'scope.activator', 'pattern.behaviour', 'pattern.trigger', 'scope.terminator'
D1_ORDER = {
    'ABSENCE': [(_A, ()), (_B, (_A,)), (_T, (_A,))],
    'EXISTENCE': [(_A, ()), (_B, (_A,)), (_T, (_A,))],
    'REQUIREMENT': [(_A, ()), (_B, (_A,)), (_TR, (_B, _A)), (_T, (_A,))],
    'RESPONSE': [(_A, ()), (_TR, (_A,)), (_B, (_TR, _A)), (_T, (_A,))],
    'PREVENTION': [(_A, ()), (_TR, (_A,)), (_B, (_TR, _A)), (_T, (_A,))],
}
_OPTIONAL = {_A, _T}


def _binding_order(ctx: Ctx, r: RuleResult, pc, sc: FunctionInfo, self_t: Term):
    """sanity_check with every helper of properties.py looked through, per pattern type: the ordered primitive checks
    `for ref in E.external_references(): if ref not in AVAIL: raise` and `for a in E.aliases(): if a in AVAIL: raise`,
    with AVAIL read back as the set of events whose aliases it holds.  Independent of how the helpers are cut."""
    root = ctx.model.ast_root()

    def pol(fi: FunctionInfo, depth: int) -> bool:
        if default_inline(fi, depth):
            return True
        if depth > 6 or not fi.module.name.startswith('hpl.ast.') or fi.name in ('but', 'cast'):
            return False
        is_ast = fi.cls is not None and root in fi.cls.mro()
        # a public method of an AST class is looked through only when it is a pure check (declared to return nothing and
        # able to raise): the alias checks may live on the event classes
        checker = fi.node.returns is not None and ast.unparse(fi.node.returns) == 'None' and any(isinstance(x, ast.Raise) for x in ast.walk(fi.node))
        if is_ast and not fi.name.startswith('_') and not checker:
            return False
        if fi.module.name != 'hpl.ast.properties' and not checker:
            return False
        if any(isinstance(x, (ast.While, ast.With, ast.Yield, ast.YieldFrom, ast.Try)) for x in ast.walk(fi.node)):
            return False
        return sum(1 for x in ast.walk(fi.node) if isinstance(x, ast.stmt)) <= 40

    def slot_of(t: Term) -> Optional[str]:
        if isinstance(t, Attr) and isinstance(t.base, Attr) and t.base.base == self_t:
            return f'{t.base.name}.{t.name}'
        return None

    def avail_slots(t: Term) -> Optional[List[str]]:
        """events whose aliases the term holds; None when it cannot be read"""
        if isinstance(t, TupleT):
            out: List[str] = []
            for x in t.items:
                if isinstance(x, Op) and x.op == '*' and len(x.args) == 1:
                    sub = avail_slots(x.args[0])
                    if sub is None:
                        return None
                    out += sub
                else:
                    return None
            return out
        if isinstance(t, Op) and t.op == '+':
            out = []
            for x in t.args:
                sub = avail_slots(x)
                if sub is None:
                    return None
                out += sub
            return out
        if isinstance(t, Call) and call_name(t) == 'aliases' and not t.args:
            sl = slot_of(call_recv(t))
            return [sl] if sl else None
        if isinstance(t, Call) and isinstance(t.func, Ext) and t.func.name in ('tuple', 'list', 'set', 'frozenset') and len(t.args) == 1:
            return avail_slots(t.args[0])
        if isinstance(t, Ite):
            nt = none_test(t.test)
            a, b = avail_slots(t.a), avail_slots(t.b)
            if a is None or b is None:
                return None
            if nt is not None and slot_of(nt[0]) in _OPTIONAL:
                present, absent = (b, a) if nt[1] else (a, b)
                # the optional event contributes only when present
                if slot_of(nt[0]) in present and [x for x in present if x != slot_of(nt[0])] == absent:
                    return present
            return a if a == b else None
        if isinstance(t, New) and len([v for k, v in t.fields if k not in ('metadata',)]) == 1:
            return avail_slots([v for k, v in t.fields if k not in ('metadata',)][0])
        return None
    pt = ctx.model.cls('PatternType', 'D1')
    for M in pt.enum_members:
        want = D1_ORDER.get(M)
        if want is None:
            r.notes.append(f'new pattern type {M}: no binding-order row')
            continue
        ev = Evaluator(ctx.model, inline=pol, assume={Attr(Attr(self_t, 'pattern'), 'pattern_type'): EnumMember('PatternType', M)})
        outs = [o for o in ev.run(sc, {'self': self_t}) if o.kind != 'raise']
        key = f'sanity_check[{M}]'
        if not outs:
            r.fail(key, f'no path of sanity_check completes for {M}', sc.where)
            continue
        full_refs: Set[str] = set()
        full_dups: Set[str] = set()
        for o in outs:
            checks: List[Tuple[str, str, Optional[frozenset]]] = []
            for e in o.effects:
                if not isinstance(e, Loop) or not isinstance(e.iter, Call) or call_name(e.iter) not in ('external_references', 'aliases'):
                    continue
                sl = slot_of(call_recv(e.iter))
                if sl is None:
                    continue
                each = Sym(f'each:{e.target}')
                for rg, exc in e.raises:
                    if 'HplSanityError' not in repr(exc):
                        continue
                    for t, p in norm_guards(rg):
                        if isinstance(t, Op) and t.op in ('in', 'not in') and t.args[0] == each:
                            is_in = (t.op == 'in') == p
                            av = avail_slots(t.args[1])
                            kind = 'refs' if call_name(e.iter) == 'external_references' else 'dups'
                            if (kind == 'refs') == is_in:
                                r.fail(key + f':{sl}:polarity', f'{kind} check of {sl} raises when the name is {"in" if is_in else "not in"} the bound aliases', sc.where)
                            checks.append((kind, sl, frozenset(av) if av is not None else None))
                if any(flow != 'end' for _, flow, _, _ in e.paths):
                    r.fail(key + f':{sl}:early-exit', f'the scan over {call_name(e.iter)}() of {sl} can stop before the last element', sc.where)
            # the same checks written as searches: `bad = [r for r in E.external_references() if r not in AVAIL]; if bad: raise`
            searches = list(search_tests(ev, o.guards, found=False))
            for e in o.effects:
                # a helper that was looked through raises conditionally: `raise ... if <bad ones> else None`
                if isinstance(e, Ite):
                    for g_, leaf in alternatives(e):
                        if type(leaf).__name__ == 'Raises' and 'HplSanityError' in repr(leaf):
                            searches.extend(search_tests(ev, tuple(g_), found=True))
            for it_s, each_s, cond_s in searches:
                if not (isinstance(it_s, Call) and call_name(it_s) in ('external_references', 'aliases')):
                    continue
                sl = slot_of(call_recv(it_s))
                if sl is None:
                    continue
                for t, p in flat_guards(((cond_s, True),)):
                    if isinstance(t, Op) and t.op in ('in', 'not in') and t.args[0] == each_s:
                        is_in = (t.op == 'in') == p
                        av = avail_slots(t.args[1])
                        kind = 'refs' if call_name(it_s) == 'external_references' else 'dups'
                        if (kind == 'refs') == is_in:
                            r.fail(key + f':{sl}:polarity', f'{kind} check of {sl} raises when the name is {"in" if is_in else "not in"} the bound aliases', sc.where)
                        checks.append((kind, sl, frozenset(av) if av is not None else None))
            order = [(sl, frozenset(av)) for sl, av in want]
            exp_of = dict(order)
            got_refs = [(sl, av) for kind, sl, av in checks if kind == 'refs']
            got_dups = [(sl, av) for kind, sl, av in checks if kind == 'dups']

            def show(seq):
                return ' ; '.join(f'{sl.split(".")[1]}({",".join(sorted(x.split(".")[1] for x in av)) if av is not None else "?"})' for sl, av in seq)

            def scenario_ok(sl, av):
                """the names in scope are the expected ones, possibly without optional events that are absent"""
                e = exp_of.get(sl)
                return e is not None and av is not None and av <= e and (e - av) <= _OPTIONAL
            ok = True
            # 1. order of the events (an optional event may be missing on a path where it is absent); helpers looked
            #    through can show the same event once per presence scenario
            slots_seen: List[str] = []
            for sl, av in got_refs:
                if not slots_seen or slots_seen[-1] != sl:
                    slots_seen.append(sl)
            exp_slots = [sl for sl, _ in order]
            it_ = iter(exp_slots)
            in_order = all(any(sl == e for e in it_) for sl in slots_seen) and all(sl in slots_seen for sl in exp_slots if sl not in _OPTIONAL)
            if not in_order:
                ok = False
                r.fail(key, f'binding order for {M}: references are checked as {show(got_refs)}, expected {show(order)} (event(names in scope))', sc.where, show(order), show(got_refs))
            # 2. every scan uses the expected scope (minus absent optional events)
            for kind_, seq in (('references', got_refs), ('aliases', got_dups)):
                for sl, av in seq:
                    if not scenario_ok(sl, av) and not (kind_ == 'aliases' and av is not None and not av):
                        ok = False
                        r.fail(key + f':{sl}:{"dups-" if kind_ == "aliases" else ""}scope', f'{M}: {kind_} of {sl} are compared with {sorted(av) if av is not None else "?"}, expected {sorted(exp_of.get(sl, []))}', sc.where)
            for sl, av in got_refs:
                if av == exp_of.get(sl):
                    full_refs.add(sl)
            for sl, av in got_dups:
                if av == exp_of.get(sl):
                    full_dups.add(sl)
            if ok:
                r.ok(f'{M} [{guards_repr(o.guards)[:40]}]: {show(got_refs)}')
        # 3. over all paths: each event is scanned at least once with its full expected scope
        for sl, av in want:
            if sl not in full_refs:
                r.fail(key + f':{sl}:refs', f'{M}: references of {sl} are never checked against all of {sorted(av)} (the aliases bound before it)', sc.where)
            if av and sl not in full_dups:
                r.fail(key + f':{sl}:dups', f'{M}: aliases of {sl} are not checked against the aliases already bound ({sorted(av)})', sc.where)


def _helpers(ctx: Ctx, r: RuleResult, pc, self_t: Term):
    def pol(fi: FunctionInfo, depth: int) -> bool:
        return fi.cls is pc and fi.name.startswith('_') and default_inline(fi, depth)
    ev = Evaluator(ctx.model, inline=pol)
    # duplicate channels in a disjunction
    ed = ctx.model.cls('HplEventDisjunction', 'D1')
    pi = ed.resolve('__attrs_post_init__')
    if pi is None:
        r.fail('HplEventDisjunction.__attrs_post_init__', 'missing: a channel may occur twice in one disjunction', ed.where)
    else:
        self_e = Sym('self', 'HplEventDisjunction')
        # the construction hook and the private methods it calls on self
        funcs = [pi]
        seen_f = {pi.key}
        todo = [pi]
        while todo:
            f0 = todo.pop()
            for n in ast.walk(f0.node):
                if isinstance(n, ast.Call) and isinstance(n.func, ast.Attribute) and isinstance(n.func.value, ast.Name) and n.func.value.id == 'self':
                    m2 = ed.resolve(n.func.attr)
                    if m2 is not None and m2.key not in seen_f and m2.name.startswith('_'):
                        seen_f.add(m2.key)
                        funcs.append(m2)
                        todo.append(m2)
        found = False
        for f0 in funcs:
            for o in Evaluator(ctx.model, inline=lambda fi, d: False).run(f0, {'self': self_e}):
                for e in o.effects:
                    if isinstance(e, Loop):
                        over_all = any(isinstance(x, Call) and call_name(x) == 'simple_events' and call_recv(x) == self_e for x in walk(e.iter)) or \
                            any(isinstance(x, Call) and call_name(x) == 'simple_events' and call_recv(x) == self_e for v in (o.env or {}).values() for x in walk(v))
                        if isinstance(e.iter, Op) and e.iter.op == 'not':
                            over_all = False    # `while not pending`: the scan never starts
                        for rg, exc in e.raises:
                            tests = [t for t, pol in norm_guards(rg) if pol and isinstance(t, Op) and t.op == 'in' and isinstance(t.args[0], Attr) and t.args[0].name == 'name']
                            if 'HplSanityError' in repr(exc) and tests and over_all:
                                # the names seen so far are remembered: the path that does not raise records this name
                                nm, seen_names = tests[0].args
                                recorded = any(isinstance(c, Call) and call_name(c) in ('add', 'append') and call_recv(c) == seen_names and c.args == (nm,)
                                               for pg, flow, binds, effs in e.paths for c in effs) or \
                                    any(k for pg, flow, binds, effs in e.paths for k, v in binds if any(x == nm for x in walk(v)) and isinstance(v, Op) and v.op in ('|', '+'))
                                if recorded:
                                    found = True
                                else:
                                    r.fail('HplEventDisjunction.__attrs_post_init__:dup-memory', 'the scan for a repeated channel never records the names it has seen: no repetition is ever found', f0.where)
                                    found = True
        if found:
            r.ok('HplEventDisjunction: HplSanityError when a channel name repeats among simple_events()')
        else:
            r.fail('HplEventDisjunction.__attrs_post_init__:dup', 'duplicate-channel detection over simple_events() not found', pi.where)
    # quantifier hygiene: three distinct HplSanityError raises
    qc = ctx.model.cls('HplQuantifier', 'D1')
    msgs = set()
    for fld in ('domain', 'condition'):
        # the validators and the helpers (methods of the class, functions of the module) they hand the work to
        todo_f = list(qc.all_validators(fld))
        seen_f = set()
        while todo_f:
            v = todo_f.pop()
            if v.key in seen_f or len(seen_f) > 12:
                continue
            seen_f.add(v.key)
            for n in ast.walk(v.node):
                if isinstance(n, ast.Raise) and n.exc is not None and 'HplSanityError' in ast.unparse(n.exc):
                    msgs.add((v.key, n.lineno))
                if isinstance(n, ast.Call) and isinstance(n.func, ast.Attribute) and isinstance(n.func.value, ast.Name) and n.func.value.id == 'self':
                    h = qc.resolve(n.func.attr)
                    if h is not None and h.kind == 'method' and not h.name.startswith('__') and h.name not in ('_type_check', 'but', 'cast'):
                        todo_f.append(h)
                if isinstance(n, ast.Call) and isinstance(n.func, ast.Name):
                    rr = ctx.model.resolve_name(v.module, n.func.id)
                    if rr and rr[0] == 'func' and isinstance(rr[1], FunctionInfo) and rr[1].module is v.module:
                        todo_f.append(rr[1])
    if len(msgs) >= 3:
        r.ok('HplQuantifier: three hygiene errors (variable in own domain; re-binding; variable unused)')
    else:
        r.fail('HplQuantifier:hygiene', f'expected three HplSanityError raises in the domain/condition validators, found {len(msgs)}', qc.where)
    self_q = Sym('self', 'HplQuantifier')
    # each hygiene check walks the WHOLE sub-tree (iterate()), not just its root
    for fld, what in (('domain', 'the variable must not occur anywhere in its own domain'), ('condition', 'no nested quantifier may bind the same variable')):
        walked = False
        for v in qc.all_validators(fld):
            ps = v.params()
            val = Sym('value')
            for o in ctx.ev.run(v, {ps[0]: self_q, ps[2]: val}, self_cls=qc):
                for e in o.effects:
                    if isinstance(e, Loop) and isinstance(e.iter, Call) and call_name(e.iter) == 'iterate' and call_recv(e.iter) == val:
                        for rg, exc in e.raises:
                            if 'HplSanityError' in repr(exc) and any(pol and isinstance(t, Op) and t.op == '==' and Attr(self_q, 'variable') in t.args for t, pol in flat_guards(rg)):
                                walked = True
                if o.kind == 'raise' and 'HplSanityError' in repr(o.value) and fld == 'domain':
                    # the whole-sub-tree query of the node itself (S3 decides that it reaches every descendant)
                    for t, pol in flat_guards(o.guards):
                        if pol and isinstance(t, Call) and call_name(t) == 'contains_reference' and call_recv(t) == val and t.args == (Attr(self_q, 'variable'),):
                            walked = True
                if o.kind == 'raise' and 'HplSanityError' in repr(o.value):
                    # the search forms: any(... for x in value.iterate()), next(filter(pred, value.iterate()), None)
                    for it, each, cond in search_tests(ctx.ev, o.guards):
                        if isinstance(it, Call) and call_name(it) == 'iterate' and call_recv(it) == val \
                                and any(pol and isinstance(t, Op) and t.op == '==' and Attr(self_q, 'variable') in t.args for t, pol in flat_guards(((cond, True),))):
                            walked = True
        if walked:
            r.ok(f'HplQuantifier.{fld}: every node of the sub-tree is compared with the bound variable')
        else:
            r.fail(f'HplQuantifier.{fld}:walk', f'the hygiene check of {fld} does not walk the whole sub-tree with iterate() ({what}): an occurrence below the root goes unnoticed', qc.where)
    unused_ok = False
    for v in qc.all_validators('condition'):
        ps = v.params()
        outs = ctx.ev.run(v, {ps[0]: self_q, ps[2]: Sym('value')}, self_cls=qc)
        for o in outs:
            if o.kind != 'raise' or 'HplSanityError' not in repr(o.value):
                continue
            for t, pol in flat_guards(o.guards):
                if isinstance(t, Opaque) and t.tag.startswith('loop:') and not pol:
                    cnt = t.tag[5:]
                    for e in o.effects:
                        if isinstance(e, Loop):
                            for pg, flow, binds, effs in e.paths:
                                val = dict(binds).get(cnt)
                                inc = (isinstance(val, Op) and val.op == '+' and Opaque(f'loopvar:{cnt}') in val.args and Const(1) in val.args) or \
                                    (isinstance(val, Const) and bool(val.value))
                                matches = any(pol2 and isinstance(g, Op) and g.op == '==' and (Attr(self_q, 'variable') in g.args or any(isinstance(a, Attr) and a.name == 'name' for a in g.args)) for g, pol2 in flat_guards(pg))
                                if inc and matches:
                                    unused_ok = True
    if not unused_ok:
        r.fail('HplQuantifier:unused', 'the "variable never used" check (counter incremented per matching reference, error when zero) not found', qc.where)


# ------------------------------------------------------------------------ D2
D2_PATTERN = {'ABSENCE': 'behaviour', 'REQUIREMENT': 'behaviour', 'PREVENTION': 'behaviour', 'RESPONSE': 'trigger', 'EXISTENCE': None}
D2_SCOPE = {'AFTER': 'activator', 'AFTER_UNTIL': 'activator', 'GLOBAL': None, 'UNTIL': None}
SOUND_SPLITS = {('ABSENCE', 'behaviour'), ('REQUIREMENT', 'behaviour'), ('PREVENTION', 'behaviour'), ('RESPONSE', 'trigger')}


def _split_info(t: Term, owner: Term) -> Tuple[Optional[str], List[str]]:
    """for a list of alternatives of `owner` (a scope or pattern term): (split field | None, problems)"""
    probs: List[str] = []
    if isinstance(t, Call) and isinstance(t.func, Ext) and t.func.name == 'list' and len(t.args) == 1 and isinstance(t.args[0], Comp) and not t.kwargs:
        t = Comp('list', t.args[0].elt, t.args[0].gens)      # list(e for x in xs) / list(map(f, xs)) is [e for x in xs]
    if isinstance(t, TupleT) and t.kind == 'list':
        if t.items == (owner,):
            return None, probs
        return None, [f'alternatives are {t!r}, not [{owner!r}]']
    if isinstance(t, Comp) and t.kind == 'list' and len(t.gens) == 1:
        tgt, it, ifs = t.gens[0]
        if ifs:
            probs.append('alternatives are filtered')
        each = Sym(f'each:{tgt}')
        elt = t.elt
        if not (isinstance(elt, Call) and call_name(elt) == 'but' and call_recv(elt) == owner and not elt.args and len(elt.kwargs) == 1):
            return None, probs + [f'copies are not made with {owner!r}.but(<field>=alternative): {str(elt)[:80]}']
        field, val = elt.kwargs[0]
        if val != each:
            probs.append(f'the copy receives {val!r}, not the alternative')
        if not (isinstance(it, Call) and call_name(it) == 'simple_events' and call_recv(it) == Attr(owner, field)):
            probs.append(f'alternatives come from {str(it)[:60]}, not from {owner!r}.{field}.simple_events() (slice / other field / other enumeration)')
        return field, probs
    return None, [f'cannot interpret {str(t)[:100]}']


def _through_generators(ev: Evaluator, outs: List[Outcome]) -> List[Outcome]:
    """`return list(gen(args))` with gen a generator function of the package whose paths either yield single values or
    run one loop `for x in xs: yield e`: the list it produces, per path of the generator"""
    from .terms import _split_product
    res: List[Outcome] = []
    for o in outs:
        v = o.value
        inner = v.args[0] if o.kind == 'return' and isinstance(v, Call) and isinstance(v.func, Ext) and v.func.name in ('list', 'tuple') and len(v.args) == 1 else None
        g = ev.callee(inner.func) if isinstance(inner, Call) and isinstance(inner.func, FuncRef) and not inner.kwargs else None
        if g is None or not any(isinstance(x, (ast.Yield, ast.YieldFrom)) for x in ast.walk(g.node)):
            res.append(o)
            continue
        params = g.params()
        ok = len(params) == len(inner.args)
        new_outs: List[Outcome] = []
        if ok:
            for go in ev.run(g, dict(zip(params, inner.args))):
                if go.kind == 'raise':
                    new_outs.append(Outcome('raise', go.value, o.guards + go.guards, o.effects + go.effects, o.asserts + go.asserts, go.lineno))
                    continue
                ys = [e for e in go.effects if isinstance(e, Op) and e.op == 'yield']
                lps = [e for e in go.effects if isinstance(e, Loop) and any(isinstance(x, Op) and x.op == 'yield' for pth in e.paths for x in pth[3])]
                if ys and not lps:
                    val: Term = TupleT(tuple(y.args[0] for y in ys), 'list')
                elif len(lps) == 1 and not ys and len(lps[0].paths) == 1 and not lps[0].paths[0][0] and lps[0].target != '<while>':
                    lp = lps[0]
                    ysl = [x for x in lp.paths[0][3] if isinstance(x, Op) and x.op == 'yield']
                    if len(ysl) != 1:
                        ok = False
                        break
                    gens = _split_product([(lp.target, lp.iter, ())])
                    val = Comp('list', ysl[0].args[0], tuple(gens))
                elif not ys and not lps:
                    val = TupleT((), 'list')
                else:
                    ok = False
                    break
                rest = tuple(e for e in go.effects if not (isinstance(e, Op) and e.op == 'yield') and e not in lps)
                new_outs.append(Outcome('return', val, o.guards + go.guards, o.effects + rest, o.asserts + go.asserts, go.lineno))
        if ok and new_outs:
            res.extend(new_outs)
        else:
            res.append(o)
    return res


def canonical_cells(ctx: Ctx) -> Dict[Tuple[str, str], Dict]:
    """(pattern type, scope type) -> extracted decomposition facts"""
    def build():
        fi = ctx.model.func('hpl.rewrite', 'canonical_form', 'D2')
        prop = Sym('property', 'HplProperty')

        def pol(f: FunctionInfo, depth: int) -> bool:
            if f.kind == 'property':
                return default_inline(f, depth)
            if f.module.name == 'hpl.ast.properties' and f.cls is not None and f.cls.name in ('HplScope', 'HplPattern', 'HplProperty') and f.kind == 'method' \
                    and f.name not in ('but', 'cast') and depth <= 4:
                # a decomposition step moved onto the scope / pattern class
                return not any(isinstance(n, (ast.While, ast.Try, ast.With)) for n in ast.walk(f.node))
            if f.module.name != 'hpl.rewrite' or depth > 4:
                return False
            return not any(isinstance(n, (ast.While, ast.Try, ast.With, ast.Yield, ast.YieldFrom)) for n in ast.walk(f.node))
        cells = {}
        for P in ctx.model.cls('PatternType').enum_members:
            for S in ctx.model.cls('ScopeType').enum_members:
                assume = {Attr(Attr(prop, 'pattern'), 'pattern_type'): EnumMember('PatternType', P), Attr(Attr(prop, 'scope'), 'scope_type'): EnumMember('ScopeType', S)}
                ev = Evaluator(ctx.model, inline=pol, assume=assume)
                outs = _through_generators(ev, ev.run(fi, {'property': prop}))
                cells[(P, S)] = {'outs': outs, 'where': fi.where}
        return cells
    return ctx.memo('canonical_cells', build)


def _len_only(t: Term) -> bool:
    """a test that looks only at the number of alternatives: (in)equalities of len(...) with a constant, combined"""
    if isinstance(t, Op) and t.op in ('and', 'or', 'not'):
        return all(_len_only(a) for a in t.args)
    if isinstance(t, Op) and t.op in ('==', '!=', '<', '<=', '>', '>=') and len(t.args) == 2:
        a, b = t.args
        if isinstance(a, Const):
            a, b = b, a
        return isinstance(b, Const) and isinstance(a, Call) and isinstance(a.func, Ext) and a.func.name == 'len'
    return False


def D2(ctx: Ctx, rid: str = 'D2', sound_only: bool = False) -> RuleResult:
    title = 'canonical_form: per pattern type x scope type, exactly the activator (after*) and the behaviour (absence/requirement/prevention) or trigger (response) are split; scope-major product of but() copies; identity when nothing splits'
    if sound_only:
        title = 'split positions of canonical_form are inside the sound-position table (no existence/response behaviour, requirement/prevention trigger or terminator is ever split) and copies change nothing else'
    r = RuleResult(rid, title)
    prop = Sym('property', 'HplProperty')
    pat, sco = Attr(prop, 'pattern'), Attr(prop, 'scope')
    n = 0
    for (P, S), cell in canonical_cells(ctx).items():
        n += 1
        key = f'canonical_form[{P},{S}]'
        where = cell['where']
        outs = [o for o in cell['outs'] if o.kind != 'raise']
        want_p, want_s = D2_PATTERN.get(P, '?'), D2_SCOPE.get(S, '?')
        if want_p == '?' or want_s == '?':
            r.notes.append(f'{key}: new enum member, no oracle row')
            continue
        products = []
        identity = None
        extra_guards = []
        for o in outs:
            for g, leaf in alternatives(o.value):
                gs = norm_guards(o.guards + g)
                if isinstance(leaf, TupleT) and leaf.kind == 'list' and leaf.items == (prop,):
                    identity = gs
                elif isinstance(leaf, Comp):
                    products.append((leaf, gs))
                else:
                    r.fail(key + ':result', f'result is {str(leaf)[:100]}: neither [property] nor a product of copies', where)
            for t, p in norm_guards(o.guards):
                if not _len_only(t):
                    extra_guards.append((t, p))
        if not products:
            if identity is not None and want_p is None and want_s is None and not extra_guards:
                r.ok(f'{P},{S}: nothing is split, returns [property]')
            elif identity is not None and not sound_only:
                r.fail(key + ':product', f'{P}/{S} is never decomposed, expected a split of pattern.{want_p} / scope.{want_s}', where)
            elif identity is None:
                r.fail(key + ':product', 'no path builds the product of alternatives', where)
            continue
        cell_ok = True
        for comp, gs in products:
            if len(comp.gens) == 1 and isinstance(comp.elt, Call) and call_name(comp.elt) == 'but' and not comp.elt.args and {k for k, _ in comp.elt.kwargs} == {'scope', 'pattern'}:
                # a loop over a one-element literal was unrolled: a product with a singleton
                kw = dict(comp.elt.kwargs)
                each1 = Sym(f'each:{comp.gens[0][0]}')
                fixed = [k for k, v in kw.items() if v != each1]
                if len(fixed) == 1:
                    fk = fixed[0]
                    fgen = ('<fixed>', TupleT((kw[fk],), 'list'), ())
                    kw[fk] = Sym('each:<fixed>')
                    elt2 = Call(comp.elt.func, (), tuple((k, kw[k]) for k, _ in comp.elt.kwargs))
                    comp = Comp(comp.kind, elt2, (fgen, comp.gens[0]) if fk == 'scope' else (comp.gens[0], fgen))
            if len(comp.gens) != 2:
                r.fail(key + ':product', f'the result is not a two-level product: {str(comp)[:120]}', where)
                cell_ok = False
                continue
            (t1, it1, if1), (t2, it2, if2) = comp.gens
            elt = comp.elt
            sf, sprobs = _split_info(it1, sco)
            pf, pprobs = _split_info(it2, pat)
            swapped = False
            if sprobs and pprobs:
                # maybe generators are swapped (pattern-major)
                sf2, sp2 = _split_info(it2, sco)
                pf2, pp2 = _split_info(it1, pat)
                if not sp2 and not pp2:
                    swapped = True
                    sf, pf, sprobs, pprobs = sf2, pf2, [], []
            if swapped and not sound_only:
                r.fail(key + ':order', 'the product iterates patterns in the outer and scopes in the inner generator: output is not activator-major', where)
                cell_ok = False
            for pb in sprobs + pprobs:
                r.fail(key + ':alternatives', pb, where)
                cell_ok = False
            if if1 or if2:
                r.fail(key + ':filter', 'the product is filtered', where)
                cell_ok = False
            s_each, p_each = (Sym(f'each:{t2}'), Sym(f'each:{t1}')) if swapped else (Sym(f'each:{t1}'), Sym(f'each:{t2}'))
            ok_elt = isinstance(elt, Call) and call_name(elt) == 'but' and call_recv(elt) == prop and not elt.args and dict(elt.kwargs) == {'scope': s_each, 'pattern': p_each}
            if not ok_elt:
                r.fail(key + ':copy', f'each output is {str(elt)[:100]}, expected property.but(scope=<alt>, pattern=<alt>): other parts (metadata, time bounds, ...) may be lost', where)
                cell_ok = False
            if sound_only:
                if pf is not None and (P, pf) not in SOUND_SPLITS:
                    r.fail(key + ':unsound-split', f'{P} patterns are split over the alternatives of their {pf}: "exists/requires over a union" does not distribute, the canonical form is not equivalent', where, D2_PATTERN.get(P), pf)
                    cell_ok = False
                elif sf not in (None, 'activator'):
                    r.fail(key + ':unsound-split', f'the scope is split over its {sf}', where)
                    cell_ok = False
                continue
            if pf != want_p:
                r.fail(key + ':pattern-split', f'{P} patterns split {pf or "nothing"}, expected {want_p or "nothing"}', where, want_p, pf)
                cell_ok = False
            elif sf != want_s:
                r.fail(key + ':scope-split', f'{S} scopes split {sf or "nothing"}, expected {want_s or "nothing"}', where, want_s, sf)
                cell_ok = False
        if not sound_only:
            if identity is None:
                r.fail(key + ':identity', 'no path returns [property] itself when there is nothing to split', where)
                cell_ok = False
            if extra_guards:
                r.fail(key + ':dispatch', f'the decomposition of {P}/{S} also depends on {[repr(t)[:60] for t, _ in extra_guards][:2]}: pattern/scope kind alone must decide what is split', where)
                cell_ok = False
        if cell_ok:
            r.ok(f'{P},{S}: pattern.{want_p} x scope.{want_s}' + ('' if sound_only else ', scope-major, but(scope=, pattern=)'))
    r.floor('dispatch cells', n, 20)
    return r


def D2s(ctx: Ctx) -> RuleResult:
    return D2(ctx, 'D2s', True)


# ------------------------------------------------------------------------ D5
def D5(ctx: Ctx) -> RuleResult:
    r = RuleResult('D5', 'simplify re-wraps a predicate as the vacuous truth / contradiction exactly when its condition simplifies to the literal True / False')
    fi = ctx.model.func('hpl.rewrite', 'simplify', 'D5')
    p = Sym('p')

    def pol(f: FunctionInfo, depth: int) -> bool:
        # a private helper that only does the re-wrapping is looked through; the simplifier and the tests stay calls
        return f.module.name == 'hpl.rewrite' and f.cls is None and f.name.startswith('_') and not f.name.startswith('_simplify') and depth <= 2 \
            and not any(isinstance(x, (ast.For, ast.While, ast.Try, ast.With)) for x in ast.walk(f.node)) and default_inline(f, depth)
    from .terms import expand_outcomes
    outs = expand_outcomes(Evaluator(ctx.model, inline=pol).run(fi, {fi.params()[0]: p}))
    seen = {}
    for o in outs:
        gs = norm_guards(o.guards)
        if o.kind != 'return':
            continue
        pred = any(isinstance(t, Attr) and t.name == 'is_predicate' and pol_ for t, pol_ in gs)
        if not pred:
            continue
        v = o.value
        flags = {}
        if False:
            pass
        from .terms import implied_literals
        for t, pol_ in tuple(gs) + tuple(implied_literals(o.guards, 12)):
            if isinstance(t, Call) and isinstance(t.func, FuncRef) and t.func.key.endswith((':is_true', ':is_false')):
                flags[t.func.key.split(':')[1]] = pol_
        if isinstance(v, New) and v.cls == 'HplVacuousTruth':
            seen['true'] = flags.get('is_true') is True
        elif isinstance(v, New) and v.cls == 'HplContradiction':
            seen['false'] = flags.get('is_false') is True and flags.get('is_true') is False
        elif isinstance(v, New) and v.cls == 'HplPredicateExpression':
            seen['other'] = flags.get('is_true') is False and flags.get('is_false') is False
            e = v.get('expression')
            if not (isinstance(e, Call) and isinstance(e.func, FuncRef) and e.func.key.endswith(':_simplify')):
                r.fail('simplify:rewrap', f'the re-wrapped predicate does not hold the simplified condition: {e!r}', fi.where)
        elif v == p:
            seen.setdefault('vacuous-input', True)
    for k, label in (('true', 'is_true -> HplVacuousTruth'), ('false', 'is_false -> HplContradiction'), ('other', 'otherwise HplPredicateExpression(simplified)')):
        if seen.get(k):
            r.ok(label)
        else:
            r.fail(f'simplify:{k}', f'missing or mis-guarded case: {label}', fi.where)
    return r


RULES = {'D1': D1, 'D2': D2, 'D2s': D2s, 'D5': D5}

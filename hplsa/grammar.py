"""Grammar model (GM): the four grammar texts (two embedded in grammar.py, two
assembled from the .lark files in the order scripts/build_grammars.py uses)
compiled with lark -- used as a grammar compiler only: its rule list, terminal
list and LALR tables are inspected; no HPL text is parsed and no transformer
is attached.
"""
from __future__ import annotations

import ast
import re
from dataclasses import dataclass, field as dfield
from typing import Dict, FrozenSet, List, Optional, Set, Tuple

from .model import AnalysisError, Model


@dataclass
class Item:
    kind: str  # 'tok' | 'nt' | 'none'
    name: str = ''

    def __repr__(self):
        return {'tok': self.name, 'nt': f'<{self.name}>', 'none': 'None'}[self.kind]

    def __hash__(self):
        return hash((self.kind, self.name))


@dataclass
class Expansion:
    origin: str
    alias: Optional[str]
    symbols: List[Tuple[str, bool, bool]]  # (name, is_term, filter_out)
    empty_indices: Tuple[bool, ...]
    keep_all_tokens: bool
    priority: Optional[int]
    order: int

    @property
    def callback(self) -> str:
        return self.alias or self.origin

    def layout(self) -> List[Tuple[str, str, bool]]:
        """children handed to the callback, as lark's ChildFilter computes them:
        [(kind, name, expand)] with kind in tok|nt|none"""
        n = len(self.symbols)
        if self.empty_indices:
            s = ''.join(str(int(b)) for b in self.empty_indices)
            nones = [len(ones) for ones in s.split('0')]
        else:
            nones = [0] * (n + 1)
        out: List[Tuple[str, str, bool]] = []
        for i, (name, is_term, filt) in enumerate(self.symbols):
            out.extend([('none', '', False)] * nones[i])
            if self.keep_all_tokens or not (is_term and filt):
                out.append(('tok' if is_term else 'nt', name, (not is_term) and name.startswith('_')))
        out.extend([('none', '', False)] * nones[n])
        return out


@dataclass
class Terminal:
    name: str
    kind: str  # 'str' | 're'
    value: str
    flags: Tuple[str, ...]
    priority: int
    filter_out: bool = False

    def regexp(self) -> str:
        return re.escape(self.value) if self.kind == 'str' else self.value


class View:
    def __init__(self, name: str, text: str, starts: List[str], options: Dict[str, object]):
        import lark
        self.name = name
        self.text = text
        self.starts = starts
        try:
            self.lark = lark.Lark(text, parser=options.get('parser', 'lalr'), start=starts, maybe_placeholders=options.get('maybe_placeholders', True))
        except Exception as e:  # grammar errors, LALR conflicts
            self.error = f'{type(e).__name__}: {str(e)[:300]}'
            self.lark = None
            self.expansions = []
            self.terminals = {}
            self.ignore = []
            return
        self.error = None
        self.expansions: List[Expansion] = []
        # helper rules lark generates for ( ... )* and ( ... )+ carry a grammar-wide counter in their name; number them
        # per enclosing rule instead, so that the same rule compiles to the same expansions wherever it stands
        gen: Dict[str, str] = {}
        per_origin: Dict[str, int] = {}

        def canon(name: str) -> str:
            m = re.fullmatch(r'__(.+)_(star|plus)_\d+', name)
            if not m:
                return name
            if name not in gen:
                k = per_origin.get(m.group(1), 0)
                per_origin[m.group(1)] = k + 1
                gen[name] = f'__{m.group(1)}_{m.group(2)}_{k}'
            return gen[name]
        for r in sorted(self.lark.rules, key=lambda r: int(re.fullmatch(r'__.+_(?:star|plus)_(\d+)', str(r.origin.name)).group(1)) if re.fullmatch(r'__.+_(?:star|plus)_(\d+)', str(r.origin.name)) else -1):
            canon(str(r.origin.name))
        for i, r in enumerate(self.lark.rules):
            syms = [(canon(str(s.name)), s.is_term, bool(getattr(s, 'filter_out', False))) for s in r.expansion]
            self.expansions.append(Expansion(canon(str(r.origin.name)), str(r.alias) if r.alias else None, syms,
                                             tuple(r.options.empty_indices or ()), bool(r.options.keep_all_tokens), r.options.priority, i))
        self.terminals: Dict[str, Terminal] = {}
        for t in self.lark.terminals:
            p = t.pattern
            kind = 'str' if type(p).__name__ == 'PatternStr' else 're'
            self.terminals[t.name] = Terminal(t.name, kind, p.value, tuple(sorted(p.flags)), t.priority)
        for e in self.expansions:
            for name, is_term, filt in e.symbols:
                if is_term and name in self.terminals and filt:
                    self.terminals[name].filter_out = True
        self.ignore = list(self.lark.ignore_tokens)

    # ---------------------------------------------------------------- queries
    def rules_of(self, origin: str) -> List[Expansion]:
        own = [e for e in self.expansions if e.origin == origin]
        # `rule: ... -> name`: the alternatives that are handed to the callback `name` stand for a rule of that name
        return own or [e for e in self.expansions if e.alias == origin]

    def origins(self) -> List[str]:
        seen = []
        for e in self.expansions:
            if e.origin not in seen:
                seen.append(e.origin)
        return seen

    def nullable(self) -> Set[str]:
        nul: Set[str] = set()
        changed = True
        while changed:
            changed = False
            for e in self.expansions:
                if e.origin not in nul and all((not t) and n in nul for n, t, _ in e.symbols):
                    nul.add(e.origin)
                    changed = True
        return nul

    def reachable(self, start: str) -> Set[str]:
        seen = {start}
        todo = [start]
        while todo:
            o = todo.pop()
            for e in self.rules_of(o):
                for n, t, _ in e.symbols:
                    if not t and n not in seen:
                        seen.add(n)
                        todo.append(n)
        return seen

    def first_sets(self) -> Dict[str, Set[str]]:
        if getattr(self, '_first', None) is not None:
            return self._first
        nul = self.nullable()
        first: Dict[str, Set[str]] = {o: set() for o in self.origins()}
        changed = True
        while changed:
            changed = False
            for e in self.expansions:
                for n, t, _ in e.symbols:
                    add = {n} if t else first.get(n, set())
                    if not add <= first[e.origin]:
                        first[e.origin] |= add
                        changed = True
                    if t or n not in nul:
                        break
        self._first = first
        return first

    def follow_sets(self) -> Dict[str, Set[str]]:
        if getattr(self, '_follow', None) is not None:
            return self._follow
        nul = self.nullable()
        first = self.first_sets()
        follow: Dict[str, Set[str]] = {o: set() for o in self.origins()}
        for st in self.starts:
            follow.setdefault(st, set()).add('$END')
        changed = True
        while changed:
            changed = False
            for e in self.expansions:
                for i, (n, t, _) in enumerate(e.symbols):
                    if t:
                        continue
                    acc: Set[str] = set()
                    rest_nullable = True
                    for m, mt, _ in e.symbols[i + 1:]:
                        acc |= {m} if mt else first.get(m, set())
                        if mt or m not in nul:
                            rest_nullable = False
                            break
                    if rest_nullable:
                        acc |= follow[e.origin]
                    if not acc <= follow.setdefault(n, set()):
                        follow[n] |= acc
                        changed = True
        self._follow = follow
        return follow

    def after_terminal(self, term: str) -> Set[str]:
        """terminals that can immediately follow an occurrence of `term` in a sentence"""
        nul = self.nullable()
        first = self.first_sets()
        follow = self.follow_sets()
        out: Set[str] = set()
        for e in self.expansions:
            for i, (n, t, _) in enumerate(e.symbols):
                if not (t and n == term):
                    continue
                rest_nullable = True
                for m, mt, _ in e.symbols[i + 1:]:
                    out |= {m} if mt else first.get(m, set())
                    if mt or m not in nul:
                        rest_nullable = False
                        break
                if rest_nullable:
                    out |= follow[e.origin]
        return out

    def states(self) -> Dict[int, Set[str]]:
        """LALR state -> terminals with an action in that state (the contextual lexer's per-state set)"""
        pt = self.lark.parser.parser._parse_table
        out = {}
        for sid, row in pt.states.items():
            out[sid] = {k for k in row.keys() if k in self.terminals or k == '$END'}
        return out

    def canonical(self) -> Dict[str, object]:
        rules = sorted((e.origin, e.alias or '', tuple(e.symbols), e.empty_indices, e.keep_all_tokens, e.priority or 0) for e in self.expansions)
        terms = sorted((t.name, t.kind, t.value, t.flags, t.priority, t.filter_out) for t in self.terminals.values())
        return {'rules': rules, 'terminals': terms, 'ignore': sorted(self.ignore)}

    # ------------------------------------------------------- child layouts
    def layouts(self, rule: str, max_depth: int = 4) -> Tuple[List[List[Item]], bool]:
        """all child sequences a callback for `rule` can receive (underscore rules inlined);
        second component True if the set was truncated (recursive list rules)"""
        truncated = False

        def expand(origin: str, depth: int) -> List[List[Item]]:
            nonlocal truncated
            outs: List[List[Item]] = []
            for e in self.rules_of(origin):
                seqs: List[List[Item]] = [[]]
                for kind, name, exp in e.layout():
                    if kind == 'nt' and exp:
                        if depth >= max_depth:
                            truncated = True
                            subs = [[Item('nt', name + '...')]]
                        else:
                            subs = expand(name, depth + 1)
                        seqs = [s + x for s in seqs for x in subs]
                    else:
                        seqs = [s + [Item(kind, name)] for s in seqs]
                    if len(seqs) > 4000:
                        truncated = True
                        seqs = seqs[:4000]
                outs.extend(seqs)
            return outs

        res = expand(rule, 0)
        uniq: List[List[Item]] = []
        seen = set()
        for s in res:
            k = tuple(s)
            if k not in seen:
                seen.add(k)
                uniq.append(s)
        return uniq, truncated


_PREAMBLE = re.compile(r'\s*//\s*SPDX-License-Identifier:[^\n]+\s*//\s*Copyright[^\n]+\s*')


class GrammarModel:
    def __init__(self, model: Model):
        self.model = model
        repo = model.repo
        gmod = model.modules.get('hpl.grammar')
        if gmod is None:
            raise AnalysisError('GM', 'src/hpl/grammar.py not found')
        self.embedded: Dict[str, str] = {}
        for name in ('PREDICATE_GRAMMAR', 'HPL_GRAMMAR'):
            node = gmod.assigns.get(name)
            if not (isinstance(node, ast.Constant) and isinstance(node.value, str)):
                raise AnalysisError('GM', f'hpl.grammar.{name} is not a string literal')
            self.embedded[name] = node.value
        self.constants: Dict[str, str] = {k: v.value for k, v in gmod.assigns.items() if k.endswith('_OPERATOR') and isinstance(v, ast.Constant)}
        # packaged files, joined as scripts/build_grammars.py joins them
        gdir = repo / 'src' / 'hpl' / 'grammars'
        self.files: Dict[str, str] = {}
        for f in ('tokens', 'predicates', 'properties', 'files'):
            p = gdir / f'{f}.lark'
            if not p.exists():
                raise AnalysisError('GM', f'{p} not found')
            text = p.read_text(encoding='utf8')
            mo = _PREAMBLE.match(text)
            self.files[f] = text[mo.end():] if mo else text
        order = self._join_order(repo / 'scripts' / 'build_grammars.py')
        self.joined: Dict[str, str] = {g: '\n' + '\n'.join(self.files[f] for f in fs) + '\n' for g, fs in order.items()}
        self.join_order = order
        self.options, self.starts = self._parser_options()
        self.views: Dict[str, View] = {}
        for g in ('PREDICATE_GRAMMAR', 'HPL_GRAMMAR'):
            self.views[f'embedded:{g}'] = View(f'embedded:{g}', self.embedded[g], sorted(self.starts[g]), self.options)
            self.views[f'lark:{g}'] = View(f'lark:{g}', self.joined[g], sorted(self.starts[g]), self.options)

    def _join_order(self, script) -> Dict[str, List[str]]:
        default = {'PREDICATE_GRAMMAR': ['predicates', 'tokens'], 'HPL_GRAMMAR': ['files', 'properties', 'predicates', 'tokens']}
        if not script.exists():
            return default
        try:
            tree = ast.parse(script.read_text(encoding='utf8'))
        except SyntaxError:
            return default
        var_file: Dict[str, str] = {}
        last_path = None
        for st in tree.body:
            if isinstance(st, ast.Assign) and isinstance(st.targets[0], ast.Name):
                n = st.targets[0].id
                if n == 'path':
                    consts = [x.value for x in ast.walk(st.value) if isinstance(x, ast.Constant) and isinstance(x.value, str)]
                    last_path = consts[-1] if consts else None
                elif n.startswith('g_') and last_path and last_path.endswith('.lark'):
                    var_file[n] = last_path[:-5]
        order: Dict[str, List[str]] = {}
        for st in tree.body:
            if isinstance(st, ast.Assign) and isinstance(st.targets[0], ast.Name) and st.targets[0].id == 'GRAMMAR_PY' and isinstance(st.value, ast.JoinedStr):
                cur = None
                for v in st.value.values:
                    if isinstance(v, ast.Constant):
                        for mo in re.finditer(r'(\w+_GRAMMAR) = r"""|"""', v.value):
                            cur = mo.group(1) if mo.group(1) else None
                            if cur:
                                order[cur] = []
                    elif isinstance(v, ast.FormattedValue) and isinstance(v.value, ast.Name) and cur and v.value.id in var_file:
                        order[cur].append(var_file[v.value.id])
        if set(order) >= set(default) and all(order[k] for k in default):
            return {k: order[k] for k in default}
        return default

    def _parser_options(self):
        pm = self.model.modules.get('hpl.parser')
        if pm is None:
            raise AnalysisError('GM', 'hpl.parser not found')
        hp = pm.classes.get('HplParser')
        if hp is None:
            raise AnalysisError('GM', 'HplParser not found')
        opts: Dict[str, object] = {'parser': 'lalr', 'maybe_placeholders': True}
        fg = hp.methods.get('from_grammar')
        if fg is not None:
            for node in ast.walk(fg.node):
                if isinstance(node, ast.Call) and ast.unparse(node.func) in ('Lark', 'lark.Lark'):
                    for kw in node.keywords:
                        if kw.arg in ('parser', 'maybe_placeholders', 'lexer') and isinstance(kw.value, ast.Constant):
                            opts[kw.arg] = kw.value.value
        starts: Dict[str, Set[str]] = {'PREDICATE_GRAMMAR': set(), 'HPL_GRAMMAR': set()}
        self.entry_points: Dict[str, Tuple[str, str, Optional[str]]] = {}
        for name, fi in hp.methods.items():
            if not name.endswith('_parser'):
                continue
            for node in ast.walk(fi.node):
                if isinstance(node, ast.Call) and ast.unparse(node.func).endswith('from_grammar') and node.args and isinstance(node.args[0], ast.Name):
                    g = node.args[0].id
                    st = 'hpl_file'
                    tr = None
                    for kw in node.keywords:
                        if kw.arg == 'start' and isinstance(kw.value, ast.Constant):
                            st = kw.value.value
                        if kw.arg == 'transform':
                            tr = ast.unparse(kw.value)
                    if g in starts:
                        starts[g].add(st)
                        self.entry_points[name] = (g, st, tr)
        missing = [name for name in hp.methods if name.endswith('_parser') and name not in self.entry_points]
        if missing:
            # the factories do not call from_grammar with literal arguments themselves (a table of entry points, a
            # shared helper): what reaches from_grammar when they are evaluated
            from .terms import BoundMethod, Call, ClassRef, Const, Evaluator, FuncRef, GlobalVal, NONE
            ev = Evaluator(self.model)
            by_text = {v: k for k, v in self.embedded.items()}
            for name in missing:
                fi = hp.methods[name]
                params = fi.params()
                outs = ev.run(fi, {params[0]: ClassRef('HplParser')} if params and fi.kind == 'classmethod' else {})
                found = set()
                for o in outs:
                    for t in o.trace:
                        if isinstance(t, Call) and isinstance(t.func, BoundMethod) and t.func.name == 'from_grammar' and t.args:
                            g0 = t.args[0]
                            g = g0.name.split('.')[-1] if isinstance(g0, GlobalVal) else by_text.get(g0.value) if isinstance(g0, Const) else None
                            st0 = t.kw('start') if t.kw('start') is not None else (t.args[1] if len(t.args) > 1 else Const('hpl_file'))
                            tr0 = t.kw('transform')
                            tr = None if tr0 is None or tr0 == NONE else (tr0.key.split('.')[-1].split(':')[-1] if isinstance(tr0, FuncRef) else repr(tr0))
                            if g in starts and isinstance(st0, Const):
                                found.add((g, st0.value, tr))
                if len(found) == 1:
                    g, st1, tr = found.pop()
                    starts[g].add(st1)
                    self.entry_points[name] = (g, st1, tr)
        for g in starts:
            if not starts[g]:
                raise AnalysisError('GM', f'no parser entry point uses {g}')
        return opts, starts

    def view(self, name: str) -> View:
        v = self.views[name]
        if v.error:
            raise AnalysisError('GM', f'grammar {name} does not compile: {v.error}')
        return v

    @property
    def hpl(self) -> View:
        return self.view('embedded:HPL_GRAMMAR')

    @property
    def pred(self) -> View:
        return self.view('embedded:PREDICATE_GRAMMAR')

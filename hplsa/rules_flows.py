"""E5 flow rules: F1 (child position -> AST field for every transformer callback),
F2 (specification / property / metadata flows), D4 (time units), F3 (alias -> type),
F4 (non-reflexive constants)."""
from __future__ import annotations

import ast
import re
from typing import Callable, Dict, List, Optional, Set, Tuple

from .terms import guards_consistent

from .ctx import Ctx
from .grammar import View
from .model import AnalysisError, FunctionInfo
from .report import RuleResult
from .rules_grammar import EMBEDDED, callback_rules, lexemes, transformer_methods
from .rules_lattice import flagset
from .rules_tables import field_default
from .terms import (Attr, BoundMethod, Call, ClassRef, Comp, Const, Default, DictT, EnumMember, Evaluator, Ext, FuncRef, Lam,
                    Ite, Loop, New, Op, Opaque, Outcome, SliceT, Store, Sub, Sym, Term, TupleT, _State, alternatives,
                    default_inline, expand_outcomes, guards_repr, norm_guards, walk)
from .util import all_terms, call_name, call_recv, method_calls, none_test


def parser_eval(ctx: Ctx) -> Evaluator:
    def build():
        def pol(fi: FunctionInfo, depth: int) -> bool:
            definitional = fi.kind == 'property' and fi.cls is not None and not any(b.name == 'HplAstObject' for b in fi.cls.mro())
            if fi.cls is not None and fi.cls.name == 'HplAstObject' and fi.kind == 'method' and fi.name not in ('but', 'cast') and depth < 3 and default_inline(fi, depth):
                return True   # small helpers of the AST root (annotate-and-return-self, ...)
            if fi.name in ('_convert_unary_operator', '_convert_binary_operator', '_convert_function_def'):
                return False  # table lookups: summarised by G3 / T1 / T2, matched by name in F1
            if fi.module.name == 'hpl.parser' and fi.cls is None and depth < 4 and sum(1 for x in ast.walk(fi.node) if isinstance(x, ast.stmt)) <= 8 \
                    and not any(isinstance(x, (ast.For, ast.While, ast.With, ast.Yield, ast.YieldFrom)) for x in ast.walk(fi.node)):
                return True   # small module-level helpers of the parser, try/except fallbacks included
            return depth < 6 and (fi.kind == 'classmethod' or fi.module.name == 'hpl.parser' or fi.name.startswith('_convert') or definitional) and default_inline(fi, depth)
        return Evaluator(ctx.model, inline=pol)
    return ctx.memo('parser_eval', build)


def callback_outcomes(ctx: Ctx, name: str) -> Tuple[FunctionInfo, List[Outcome], List[str]]:
    methods, inline = transformer_methods(ctx)
    fi = methods.get(name)
    if fi is None:
        raise AnalysisError('F1', f'PropertyTransformer.{name} not found (anchor vanished)')
    params = fi.params()[1:]
    ev = parser_eval(ctx)
    va = fi.node.args.vararg
    if inline[name] and not params and va is not None:
        # def rule(self, *children): the inlined children arrive as one tuple, like the list of the non-inline form
        args = {va.arg: Sym('children')}
    elif inline[name]:
        args = {p: Sym(f'c{i}') for i, p in enumerate(params)}
    else:
        args = {params[0]: Sym('children')}
    ev._stack.append(fi.key)
    try:
        outs = ev.run(fi, args)
    finally:
        ev._stack.pop()
    return fi, outs, params


def C(i: int) -> Term:
    return Sym(f'c{i}')


CH = Sym('children')


def resolve_defaults(ctx: Ctx, t: Term) -> Term:
    if isinstance(t, New):
        fields = []
        for k, v in t.fields:
            if isinstance(v, Default):
                d = field_default(ctx, v.cls, v.field)
                fields.append((k, d if d is not None else v))
            else:
                fields.append((k, resolve_defaults(ctx, v)))
        return New(t.cls, tuple(fields))
    return t


class Expect:
    """expected constructor term: class + {field: matcher}"""

    def __init__(self, cls: str, **fields):
        self.cls, self.fields = cls, fields


def m_eq(t: Term) -> Callable[[Term], Optional[str]]:
    return lambda got: None if got == t else f'expected {t!r}, found {got!r}'


def m_child_or(default: Term, i: int) -> Callable[[Term], Optional[str]]:
    """`default if c_i is None else c_i`"""
    def f(got: Term) -> Optional[str]:
        if isinstance(got, Ite):
            nt = none_test(got.test)
            if nt and nt[0] == C(i):
                a, b = (got.a, got.b) if nt[1] else (got.b, got.a)
                if a == default and b == C(i):
                    return None
        return f'expected ({default!r} if c{i} is None else c{i}), found {got!r}'
    return f


def m_cast(src: Term, type_pred: Callable[[Term], bool], what: str) -> Callable[[Term], Optional[str]]:
    def f(got: Term) -> Optional[str]:
        if got == src:
            return None  # the constructor's validator narrows it anyway
        if isinstance(got, Call) and call_name(got) == 'cast' and call_recv(got) == src and got.args and type_pred(got.args[0]):
            return None
        return f'expected {src!r} (optionally cast to {what}), found {got!r}'
    return f


def check_new(ctx: Ctx, r: RuleResult, key: str, where: str, got: Term, exp: Expect) -> bool:
    if isinstance(got, New):
        dt = got.get('data_type')
        if dt is not None and not isinstance(dt, Default):
            r.fail(f'{key}:data_type', f'the callback overrides the type set of the new {got.cls} node ({dt!r}) instead of leaving it to the constructor: well-typed uses of the node are rejected / ill-typed ones accepted', where)
            return False
    got = resolve_defaults(ctx, got)
    if not isinstance(got, New) or got.cls != exp.cls:
        r.fail(key, f'callback builds {str(got)[:120]}, expected a {exp.cls}', where, exp.cls, str(got)[:200])
        return False
    ok = True
    for fname, matcher in exp.fields.items():
        v = got.get(fname)
        if v is None:
            r.fail(f'{key}:{fname}', f'field {fname} not set', where)
            ok = False
            continue
        why = matcher(v) if callable(matcher) else (None if v == matcher else f'expected {matcher!r}, found {v!r}')
        if why:
            r.fail(f'{key}:{fname}', f'{exp.cls}.{fname}: {why}', where, None, repr(v)[:200])
            ok = False
    return ok


INF = Const(float('inf'))


def _scope(kind: str, act, term) -> Expect:
    return Expect('HplScope', scope_type=EnumMember('ScopeType', kind), activator=act, terminator=term)


def _pattern(kind: str, beh, trig, ti: int) -> Expect:
    return Expect('HplPattern', pattern_type=EnumMember('PatternType', kind), behaviour=beh, trigger=trig, min_time=Const(0.0), max_time=m_child_or(INF, ti))


def _is_op_param(opcall_name: str, src_child: Term, attr: str) -> Callable[[Term], bool]:
    def f(t: Term) -> bool:
        return isinstance(t, Attr) and t.name == attr and isinstance(t.base, Call) and isinstance(t.base.func, FuncRef) and t.base.func.key.endswith(opcall_name) and t.base.args == (src_child,)
    return f


def _is_type(ctx: Ctx, name: str) -> Callable[[Term], bool]:
    return lambda t: flagset(ctx, t) == frozenset({name})


def F1(ctx: Ctx) -> RuleResult:
    r = RuleResult('F1', 'parse flows: every transformer callback routes each child position to the AST field the grammar rule assigns to it (factories summarised)')
    n = 0
    cur_guards: List = [()]

    def single(name: str, exp, guard_ok=None):
        nonlocal n
        fi, outs, params = callback_outcomes(ctx, name)
        n += 1
        good = True
        rets = [o for o in outs if o.kind == 'return']
        if not rets or any(o.kind == 'fall' for o in outs):
            r.fail(f'{name}', f'callback does not return a value on every path: {[str(o)[:80] for o in outs]}', fi.where)
            return
        for o in rets:
            for g, leaf in alternatives(o.value):
                cur_guards[0] = tuple(o.guards) + tuple(g)
                if not guards_consistent(cur_guards[0]):
                    continue    # `c is None` and `c is not None` at once: not a path
                if isinstance(exp, Expect):
                    good &= check_new(ctx, r, name, fi.where, leaf, exp)
                elif callable(exp):
                    why = exp(o, leaf)
                    if why:
                        r.fail(name, why, fi.where)
                        good = False
                else:
                    if leaf != exp:
                        r.fail(name, f'returns {str(leaf)[:120]}, expected {exp!r}', fi.where, repr(exp), str(leaf)[:200])
                        good = False
        if good:
            r.ok(f'{name}: {str(rets[0].value)[:110]}')

    # --- scopes
    single('global_scope', _scope('GLOBAL', Const(None), Const(None)))
    fi, outs, _ = callback_outcomes(ctx, 'after_until')
    n += 1
    seen = set()
    for o in outs:
        pol = None
        for t, p in norm_guards(o.guards):
            nt = none_test(t)
            if nt and nt[0] == C(1):
                pol = nt[1] if p else not nt[1]
        if o.kind != 'return' or pol is None:
            r.fail('after_until', f'unexpected path {str(o)[:120]}', fi.where)
            continue
        seen.add(pol)
        exp = _scope('AFTER', C(0), Const(None)) if pol else _scope('AFTER_UNTIL', C(0), C(1))
        if check_new(ctx, r, f'after_until[{"no until" if pol else "until"}]', fi.where, o.value, exp):
            r.ok(f'after_until[{"no until" if pol else "until"}]: {str(o.value)[:90]}')
    if seen != {True, False}:
        r.fail('after_until:paths', 'both the "after" and the "after ... until" case must be handled', fi.where)
    single('until', _scope('UNTIL', Const(None), C(0)))
    # --- patterns
    single('existence', _pattern('EXISTENCE', C(0), Const(None), 1))
    single('absence', _pattern('ABSENCE', C(0), Const(None), 1))
    single('response', _pattern('RESPONSE', C(1), C(0), 2))
    single('prevention', _pattern('PREVENTION', C(1), C(0), 2))
    single('requirement', _pattern('REQUIREMENT', C(0), C(1), 2))
    # --- events

    def pred_matcher(got: Term) -> Optional[str]:
        vt = lambda t: isinstance(resolve_defaults(ctx, t), New) and t.cls == 'HplVacuousTruth'
        if vt(got):
            # the default, only where no predicate was parsed
            from .terms import implied_literals
            absent = None
            for t_, pol_ in implied_literals(cur_guards[0], 12):
                nt_ = none_test(t_)
                if nt_ and nt_[0] == C(2):
                    absent = nt_[1] if pol_ else not nt_[1]
            if absent is True:
                return None
            return 'the event gets the vacuous truth as its predicate although a predicate was parsed (c2 is not None): the predicate of the event is lost'
        if isinstance(got, Ite):
            nt = none_test(got.test)
            if nt and nt[0] == C(2):
                a, b = (got.a, got.b) if nt[1] else (got.b, got.a)
                if vt(a) and b == C(2):
                    return None
        if got == C(2):
            return None
        return f'expected (HplVacuousTruth() if c2 is None else c2), found {got!r}'
    single('event', Expect('HplSimpleEvent', name=C(0), alias=C(1), predicate=pred_matcher, event_type=EnumMember('EventType', 'PUBLISH'), message_type=Const(None)))
    _event_disjunction(ctx, r)
    n += 1
    # --- pass-through
    for name in ('alias', 'channel_name', 'hpl_expression'):
        single(name, C(0))
    single('hpl_predicate', lambda o, leaf: None if (isinstance(leaf, Call) and isinstance(leaf.func, FuncRef) and leaf.func.key.endswith(':predicate_from_expression') and leaf.args == (C(0),)) else f'hpl_predicate does not return predicate_from_expression(c0): {str(leaf)[:100]}')
    # --- binary levels
    binop = Expect('HplBinaryOperator',
                   operator=lambda t: None if (isinstance(t, Call) and isinstance(t.func, FuncRef) and t.func.key.endswith(':_convert_binary_operator') and t.args == (Sub(CH, Const(1)),)) else f'operator must be the middle child: {t!r}',
                   operand1=m_cast(Sub(CH, Const(0)), _is_op_param('_convert_binary_operator', Sub(CH, Const(1)), 'parameter1'), 'operator.parameter1'),
                   operand2=m_cast(Sub(CH, Const(2)), _is_op_param('_convert_binary_operator', Sub(CH, Const(1)), 'parameter2'), 'operator.parameter2'))
    for name in ('condition', 'disjunction', 'conjunction', 'atomic_condition', 'expr', 'term', 'factor'):
        fi, outs, _ = callback_outcomes(ctx, name)
        n += 1
        good = True
        seen3 = seen1 = False
        for o in outs:
            if o.kind != 'return':
                r.fail(name, f'path does not return: {str(o)[:100]}', fi.where)
                good = False
                continue
            three = _child_count_case(o.guards)
            if three is None:
                r.fail(name, f'cannot tell the 1-child from the 3-child case: [{guards_repr(o.guards)}]', fi.where)
                good = False
            elif three:
                seen3 = True
                good &= check_new(ctx, r, f'{name}[3 children]', fi.where, o.value, binop)
            else:
                seen1 = True
                if o.value != Sub(CH, Const(0)):
                    r.fail(f'{name}[1 child]', f'single child is not passed through: {o.value!r}', fi.where)
                    good = False
        if not (seen3 and seen1):
            r.fail(name + ':paths', 'both the pass-through and the operator case must exist', fi.where)
            good = False
        if good:
            r.ok(f'{name}: c0 | HplBinaryOperator(operator=c1, operand1=c0, operand2=c2)')
    unop = Expect('HplUnaryOperator',
                  operator=lambda t: None if (isinstance(t, Call) and isinstance(t.func, FuncRef) and t.func.key.endswith(':_convert_unary_operator') and t.args == (C(0),)) else f'operator must be the first child: {t!r}',
                  operand=m_cast(C(1), _is_op_param('_convert_unary_operator', C(0), 'parameter'), 'operator.parameter'))
    single('negation', unop)
    single('negative_number', unop)
    single('quantification', Expect('HplQuantifier', quantifier=C(0), variable=C(1), domain=C(2), condition=C(3)))
    single('function_call', Expect('HplFunctionCall', function=C(0), arguments=TupleT((C(1),))))
    single('enum_literal', Expect('HplSet', values=lambda t: None if t in (CH, Call(Ext('tuple'), (CH,))) else f'set elements are not all children in order: {t!r}'))

    def startswith(i, meth):
        def test(t):
            if isinstance(t, Call) and call_name(t) == meth and call_recv(t) == C(i) and t.args == (Const('!'),):
                return None
            # any other way of computing the flag: decided at the two lexemes the bracket terminal has
            from .terms import subst
            from .util import fold_closed
            side = 'L' if i == 0 else 'R'
            terms_ = ctx.gm.hpl.terminals
            lex = {k: terms_[f'{side}_RANGE_{k}'].value for k in ('EXC', 'INC') if f'{side}_RANGE_{k}' in terms_}
            if len(lex) == 2:
                got = {k: fold_closed(subst(t, {C(i): Const(v)})) for k, v in lex.items()}
                guards_ok = True
                if got == {'EXC': Const(True), 'INC': Const(False)} and guards_ok:
                    return None
            return f'expected c{i}.{meth}("!") (or a term that is True at the exclusive bracket and False at the inclusive one), found {t!r}'
        return test
    single('range_literal', Expect('HplRange', min_value=C(1), max_value=C(2), exclude_min=startswith(0, 'startswith'), exclude_max=startswith(3, 'endswith')))
    single('variable', Expect('HplVarReference', token=C(0)))
    single('own_field', Expect('HplFieldAccess', message=lambda t: None if isinstance(t, New) and t.cls == 'HplThisMessage' else f'expected HplThisMessage(), found {t!r}', field=C(0)))
    single('field_access', Expect('HplFieldAccess', message=m_cast(C(0), _is_type(ctx, 'MESSAGE'), 'MESSAGE'), field=C(1)))
    single('array_access', Expect('HplArrayAccess', array=m_cast(C(0), _is_type(ctx, 'ARRAY'), 'ARRAY'), index=m_cast(C(1), _is_type(ctx, 'NUMBER'), 'NUMBER')))
    # --- literals
    def constant_value(t):
        want = Attr(Sub(ClassRef('NumberConstants'), C(0)), 'value')
        if t == want:
            return None
        # a table derived from the enumeration (read through by the evaluator): member by member the same value
        from .terms import eval_bool
        nc = ctx.model.cls('NumberConstants', 'F1')
        ev2 = parser_eval(ctx)
        alts = list(alternatives(t))
        for mname, node in nc.enum_members.items():
            exp_v = ev2.expr(node, _State(), nc.module, None, 0)
            known = {Op('==', (C(0), Const(k))): (k == mname) for k in nc.enum_members}
            hit = [leaf for g, leaf in alts if all(eval_bool(gt, known) == pol for gt, pol in g)]
            if len(hit) != 1 or hit[0] != exp_v:
                return f'expected NumberConstants[c0].value; for {mname} found {hit!r}, the member is {exp_v!r}'
        return None
    single('number_constant', Expect('HplLiteral', token=C(0), value=constant_value))
    single('string', Expect('HplLiteral', token=C(0), value=C(0)))
    fi, outs, _ = callback_outcomes(ctx, 'boolean')
    outs = expand_outcomes(outs)
    n += 1
    vals = {}
    for o in outs:
        for t, p in norm_guards(o.guards):
            if isinstance(t, Op) and t.op == '==' and t.args[0] == C(0) and isinstance(t.args[1], Const) and isinstance(o.value, New):
                v = o.value.get('value')
                lit = t.args[1].value
                if p:
                    vals[lit] = v
                else:
                    other = [a.args[1].value for a in o.asserts if isinstance(a, Op) and a.op == '==' and a.args[0] == C(0) and isinstance(a.args[1], Const)]
                    if other:
                        vals[other[0]] = v
            if o.kind == 'return' and isinstance(o.value, New) and o.value.get('token') != C(0):
                r.fail('boolean:token', 'literal token is not the lexeme', fi.where)
    if not vals and len(outs) == 1 and outs[0].kind == 'return' and isinstance(outs[0].value, New) and outs[0].value.get('token') == C(0) \
            and outs[0].value.get('value') == Op('==', (C(0), Const('True'))):
        # HplLiteral(token, token == 'True'): the same map, provided the token is one of the two lexemes
        vals = {'True': Const(True), 'False': Const(False)}
    if vals != {'True': Const(True), 'False': Const(False)}:
        # any other way of writing the map: the callback evaluated at each of the two lexemes the BOOLEAN terminal has
        ev_b = parser_eval(ctx)
        at = {}
        for lex in ('True', 'False'):
            ev_b._stack.append(fi.key)
            try:
                lo = [o for o in expand_outcomes(ev_b.run(fi, {fi.params()[1]: Const(lex)})) if guards_consistent(o.guards)]
            finally:
                ev_b._stack.pop()
            if len(lo) == 1 and lo[0].kind == 'return' and isinstance(lo[0].value, New) and lo[0].value.cls == 'HplLiteral' and lo[0].value.get('token') == Const(lex) \
                    and isinstance(lo[0].value.get('value'), Const):
                at[lex] = lo[0].value.get('value')
        if len(at) == 2:
            vals = at
    if vals == {'True': Const(True), 'False': Const(False)}:
        r.ok("boolean: 'True' -> True, 'False' -> False")
    else:
        r.fail('boolean', f'lexeme -> value map is {vals}, expected True->True, False->False', fi.where)
    fi, outs, _ = callback_outcomes(ctx, 'number')
    n += 1
    # the conversion may sit in a helper (function or method of the transformer) that is handed the lexeme
    for _ in range(2):
        if len(outs) == 1 and outs[0].kind == 'return' and isinstance(outs[0].value, Call) and isinstance(outs[0].value.func, (FuncRef, BoundMethod)) \
                and outs[0].value.args == (C(0),) and not outs[0].value.kwargs:
            hf = parser_eval(ctx).callee(outs[0].value.func)
            if hf is not None:
                hp = [p_ for p_ in hf.params() if not (p_ == 'self' and hf.cls is not None)]
                if len(hp) == 1:
                    outs = parser_eval(ctx).run(hf, {hp[0]: C(0)})
                    continue
        break
    ok = bool(outs)
    for o in outs:
        v = o.value.get('value') if isinstance(o.value, New) else None
        tk = o.value.get('token') if isinstance(o.value, New) else None
        if not (o.kind == 'return' and tk == C(0) and isinstance(v, Call) and isinstance(v.func, Ext) and v.func.name in ('int', 'float') and v.args == (C(0),)):
            ok = False
    (r.ok('number: HplLiteral(c0, int(c0) | float(c0))') if ok else r.fail('number', f'number literal value is not int(c0)/float(c0): {[str(o)[:100] for o in outs]}', fi.where))
    r.floor('callbacks checked', n, 30)
    # every reachable callback rule is covered above
    covered = {'global_scope', 'after_until', 'until', 'existence', 'absence', 'response', 'prevention', 'requirement', 'event', 'event_disjunction', 'alias',
               'channel_name', 'hpl_expression', 'hpl_predicate', 'condition', 'disjunction', 'conjunction', 'atomic_condition', 'expr', 'term', 'factor',
               'negation', 'negative_number', 'quantification', 'function_call', 'enum_literal', 'range_literal', 'variable', 'own_field', 'field_access',
               'array_access', 'number_constant', 'string', 'boolean', 'number', 'hpl_file', 'hpl_property', 'metadata', 'metadata_id', 'metadata_title',
               'metadata_desc', 'time_amount'}
    for vn in EMBEDDED:
        for cb in callback_rules(ctx, ctx.gm.view(vn)):
            if cb not in covered:
                r.fail(f'{cb}:uncovered', f'grammar rule {cb} is reachable but has no entry in the intended-tree table', 'src/hpl/grammar.py')
    _skeletons(ctx, r)
    _converters(ctx, r)
    return r


def _converters(ctx: Ctx, r: RuleResult):
    """converters of sequence-valued child fields are element-wise maps: they keep order, multiplicity and length"""
    for cname, fname in (('HplSet', 'values'), ('HplFunctionCall', 'arguments'), ('HplSpecification', 'properties')):
        c = ctx.model.cls(cname, 'F1')
        f = c.field(fname)
        if f is None:
            raise AnalysisError('F1', f'{cname}.{fname} not found')
        conv = f.kwargs.get('converter')
        key = f'{cname}.{fname}:converter'
        if conv is None:
            r.ok(f'{cname}.{fname}: stored as given')
            continue
        ct = ctx.ev.expr(conv, _State(), f.cls.module, None, 0)
        if ct == Ext('tuple'):
            r.ok(f'{cname}.{fname}: tuple()')
            continue
        fi = ctx.ev.callee(ct) if isinstance(ct, (FuncRef, BoundMethod)) else None
        val = Sym('values')
        if fi is None and isinstance(ct, Lam):
            # a converter built by a factory (a closure): what it computes when applied to the values
            st_c = _State()
            applied = ctx.ev.apply(ct, (val,), (), st_c, 0)
            if not (isinstance(applied, Call) and applied.func == ct):
                class _Pseudo:
                    name = ast.unparse(conv)
                    where = f.where
                fi = _Pseudo
                outs = [Outcome('return', applied, (), st_c.effects, st_c.asserts, 0)]
        if fi is None:
            r.fail(key, f'converter {ast.unparse(conv)} is not a recognised element-wise map', f.where)
            continue
        if not isinstance(ct, Lam):
            outs = ctx.ev.run(fi, {fi.params()[0]: val})
        good = False
        for o in outs:
            v = o.value
            if isinstance(v, Call) and isinstance(v.func, Ext) and v.func.name in ('tuple', 'list') and len(v.args) == 1:
                inner = v.args[0]
                if inner == val:
                    good = True
                if isinstance(inner, Comp) and len(inner.gens) == 1 and inner.gens[0][1] == val and not inner.gens[0][2]:
                    good = True
        if good and len(outs) == 1:
            r.ok(f'{cname}.{fname}: element-wise converter {fi.name}')
        else:
            r.fail(key, f'converter {fi.name} is not an element-wise map over all elements in order ({[str(o.value)[:70] for o in outs]}): elements may be dropped, merged or reordered', fi.where)


def _child_count_case(guards) -> Optional[bool]:
    """True if the path is taken exactly for 3 children, False if exactly for 1 child (the rule yields only 1 or 3)"""
    ln = Call(Ext('len'), (CH,))

    def ev(t: Term, n: int) -> Optional[bool]:
        if isinstance(t, Op) and len(t.args) == 2 and t.args[0] == ln and isinstance(t.args[1], Const) and t.op in ('==', '!=', '<', '<=', '>', '>='):
            k = t.args[1].value
            return {'==': n == k, '!=': n != k, '<': n < k, '<=': n <= k, '>': n > k, '>=': n >= k}[t.op]
        if isinstance(t, Op) and t.op == 'not':
            v = ev(t.args[0], n)
            return None if v is None else not v
        if isinstance(t, Op) and t.op in ('and', 'or'):
            vs = [ev(a, n) for a in t.args]
            if any(v is None for v in vs):
                return None
            return all(vs) if t.op == 'and' else any(vs)
        return None
    ok = {1: True, 3: True}
    informative = False
    for t, p in guards:
        for n in (1, 3):
            v = ev(t, n)
            if v is not None:
                informative = True
                if v != p:
                    ok[n] = False
    if not informative or ok[1] == ok[3]:
        return None
    return ok[3]


def _event_disjunction(ctx: Ctx, r: RuleResult):
    fi, outs, _ = callback_outcomes(ctx, 'event_disjunction')
    ED = 'HplEventDisjunction'
    key = 'event_disjunction'
    loops = [e for o in outs for e in o.effects if isinstance(e, Loop)]
    rets = [o for o in outs if o.kind == 'return']
    if not loops and len(rets) == 1 and isinstance(rets[0].value, Call) and isinstance(rets[0].value.func, Ext) and rets[0].value.func.name.split('.')[-1] == 'reduce' \
            and len(rets[0].value.args) == 3 and isinstance(rets[0].value.args[0], FuncRef):
        # the step is a named function: read it as the lambda it stands for
        sfi = parser_eval(ctx).callee(rets[0].value.args[0])
        if sfi is not None and len(sfi.params()) == 2:
            so = parser_eval(ctx).run(sfi, {p_: Sym(f'lam:{p_}') for p_ in sfi.params()})
            if len(so) == 1 and so[0].kind == 'return' and not so[0].guards:
                v0 = rets[0].value
                rets = [Outcome('return', Call(v0.func, (Lam(tuple(sfi.params()), so[0].value),) + tuple(v0.args[1:]), v0.kwargs), rets[0].guards, rets[0].effects, rets[0].asserts, rets[0].lineno, rets[0].env, rets[0].trace)]
    if not loops and len(rets) == 1 and isinstance(rets[0].value, Call) and isinstance(rets[0].value.func, Ext) and rets[0].value.func.name.split('.')[-1] == 'reduce' \
            and len(rets[0].value.args) == 3 and isinstance(rets[0].value.args[0], Lam):
        # reduce(lambda tail, event: Disjunction(event, tail), reversed(children[:-2]), Disjunction(children[-2], children[-1]))
        lam, it, init = rets[0].value.args
        acc_p, item_p = (Sym(f'lam:{x}') for x in lam.params) if len(lam.params) == 2 else (None, None)
        body = lam.body
        step_ok = isinstance(body, New) and body.cls == ED and body.get('event1') == item_p and body.get('event2') == acc_p
        init_ok = isinstance(init, New) and init.cls == ED and init.get('event1') == Sub(CH, Const(-2)) and init.get('event2') == Sub(CH, Const(-1))
        rest_ok = isinstance(it, Call) and isinstance(it.func, Ext) and it.func.name == 'reversed' and it.args == (Sub(CH, SliceT(None, Const(-2), None)),)
        # the same fold seeded with the last alternative alone: reduce(step, reversed(children[:-1]), children[-1])
        if step_ok and init == Sub(CH, Const(-1)):
            init_ok = True
            rest_ok = isinstance(it, Call) and isinstance(it.func, Ext) and it.func.name == 'reversed' and it.args == (Sub(CH, SliceT(None, Const(-1), None)),)
        if step_ok and init_ok and rest_ok:
            r.ok('event_disjunction: right fold (reduce) over the reversed prefix, seeded with the last alternative(s)')
        elif step_ok and init_ok:
            r.fail(key + ':order', f'the fold takes the remaining alternatives as {str(it)[:60]} while nesting to the right: with 3 or more alternatives their order or membership changes', fi.where)
        else:
            r.fail(key + ':fold', f'reduce step / seed do not nest to the right in source order: step {str(body)[:80]}, seed {str(init)[:80]}', fi.where)
        return
    if not loops:
        base = step = False
        for o in outs:
            if o.kind != 'return':
                r.fail(key, f'path does not return: {str(o)[:100]}', fi.where)
                continue
            v = o.value
            if not (isinstance(v, New) and v.cls == ED):
                r.fail(key, f'returns {str(v)[:100]}', fi.where)
                continue
            e1, e2 = v.get('event1'), v.get('event2')
            two = any(isinstance(t, Op) and t.op == '==' and t.args == (Call(Ext('len'), (CH,)), Const(2)) and p for t, p in norm_guards(o.guards))
            if two:
                if (e1, e2) == (Sub(CH, Const(0)), Sub(CH, Const(1))):
                    base = True
                else:
                    r.fail(key + '[2]', f'two alternatives are stored as ({e1!r}, {e2!r}), expected (children[0], children[1])', fi.where)
            else:
                rec = isinstance(e2, Call) and call_name(e2) == 'event_disjunction' and e2.args == (Sub(CH, SliceT(Const(1), None, None)),)
                if e1 == Sub(CH, Const(0)) and rec:
                    step = True
                else:
                    r.fail(key + '[n]', f'n alternatives are stored as ({str(e1)[:60]}, {str(e2)[:80]}), expected (children[0], event_disjunction(children[1:])): membership or order of the alternatives changes', fi.where)
        if base and step:
            r.ok('event_disjunction: right-nested, all children in order')
        elif not (base and step):
            r.fail(key + ':shape', 'needs both the 2-alternative base case and the n-alternative step', fi.where)
        return
    # iterative right fold
    lp = loops[0]
    o = [x for x in outs if x.kind == 'return']
    if len(o) != 1 or not (isinstance(o[0].value, Opaque) and o[0].value.tag.startswith('loop:')):
        raise AnalysisError('F1', 'event_disjunction: iterative shape not interpretable')
    acc = o[0].value.tag[5:]
    prev = Opaque(f'loopvar:{acc}')
    for pg, flow, binds, effs in lp.paths:
        val = dict(binds).get(acc)
        if not (isinstance(val, New) and val.cls == ED and val.get('event2') == prev):
            r.fail(key + ':fold', f'accumulator is rebuilt as {str(val)[:100]}, expected HplEventDisjunction(<next from the right>, result)', fi.where)
            continue
        e1 = val.get('event1')
        from_right = False
        if isinstance(e1, Sym) and e1.name.startswith('each:'):
            it = lp.iter
            from_right = isinstance(it, Call) and isinstance(it.func, Ext) and it.func.name == 'reversed'
        elif isinstance(e1, Call) and call_name(e1) == 'pop':
            from_right = not e1.args or e1.args[0] == Const(-1)
        if from_right:
            r.ok('event_disjunction: right fold taking alternatives from the right end')
        else:
            r.fail(key + ':order', f'the fold takes the remaining alternatives from the left ({e1!r}) while nesting to the right: with 3 or more alternatives their order changes', fi.where)


# rule keyword skeletons: the words of each phrase and where the kept children sit
SKELETONS = {
    'global_scope': ['globally'],
    'after_until': ['after', '$', 'until', '$'],
    'until': ['until', '$'],
    'existence': ['some', '$', 'within', '$'],
    'absence': ['no', '$', 'within', '$'],
    'response': ['$', 'causes', '$', 'within', '$'],
    'prevention': ['$', 'forbids', '$', 'within', '$'],
    'requirement': ['$', 'requires', '$', 'within', '$'],
    'alias': ['as', '$'],
    'quantification': ['$', '$', 'in', '$', ':', '$'],
    'range_literal': ['$', '$', 'to', '$', '$'],
    'function_call': ['$', '(', '$', ')'],
    'field_access': ['$', '.', '$'],
    'array_access': ['$', '[', '$', ']'],
    'hpl_predicate': ['{', '$', '}'],
    'hpl_property': ['$', '$', ':', '$'],
    'metadata_id': ['id', ':', '$'], 'metadata_title': ['title', ':', '$'], 'metadata_desc': ['description', ':', '$'],
    'time_amount': ['$', '$'],
}


def _skeletons(ctx: Ctx, r: RuleResult):
    """longest expansion of each phrase rule, filtered terminals spelled out, kept children as $"""
    v = ctx.gm.hpl
    for rule, want in SKELETONS.items():
        best: Optional[List[str]] = None
        for seq in _flatten(v, rule, 0):
            if best is None or len(seq) > len(best):
                best = seq
        if best is None:
            r.fail(f'{rule}:skeleton', f'rule {rule} not found', 'src/hpl/grammar.py')
            continue
        if best == want:
            r.ok(f'{rule} phrase: {" ".join(best)}')
        else:
            r.fail(f'{rule}:skeleton', f'phrase of rule {rule} is "{" ".join(best)}", expected "{" ".join(want)}": keywords / child positions changed', 'src/hpl/grammar.py', want, best)


def _flatten(v: View, rule: str, depth: int) -> List[List[str]]:
    outs: List[List[str]] = []
    for e in v.rules_of(rule):
        seqs: List[List[str]] = [[]]
        for name, is_term, filt in e.symbols:
            if is_term:
                if filt:
                    lx = lexemes(v.terminals[name]) if name in v.terminals else None
                    word = sorted(lx)[0] if lx and len(lx) == 1 else name
                    seqs = [s + [word] for s in seqs]
                else:
                    seqs = [s + ['$'] for s in seqs]
            elif name.startswith('_') and depth < 3 and not _recursive(v, name):
                subs = _flatten(v, name, depth + 1)
                # collapse alternatives of a choice rule to their distinct shapes
                shapes = []
                for s2 in subs:
                    if s2 not in shapes:
                        shapes.append(s2)
                seqs = [s + x for s in seqs for x in shapes][:64]
            else:
                seqs = [s + ['$'] for s in seqs]
        outs.extend(seqs)
    return outs


def _recursive(v: View, rule: str) -> bool:
    return rule in {n for e in v.rules_of(rule) for n, t, f in e.symbols if not t}


# ----------------------------------------------------------------------- F2
def F2(ctx: Ctx) -> RuleResult:
    r = RuleResult('F2', 'specification flows: hpl_file keeps all properties in order; hpl_property attaches exactly its own metadata to the new object; metadata builds a fresh dict and rejects duplicate keys')
    fi, outs, _ = callback_outcomes(ctx, 'hpl_file')
    ok = len(outs) == 1 and outs[0].kind == 'return' and isinstance(outs[0].value, New) and outs[0].value.cls == 'HplSpecification' and outs[0].value.get('properties') in (Call(Ext('tuple'), (CH,)), CH)
    (r.ok('hpl_file: HplSpecification(tuple(children))') if ok else r.fail('hpl_file', f'properties are not all children in order: {[str(o)[:120] for o in outs]}', fi.where))
    # HplSpecification.properties must not transform the tuple
    sp = ctx.model.cls('HplSpecification', 'F2')
    f = sp.field('properties')
    if f is None:
        raise AnalysisError('F2', 'HplSpecification.properties not found')
    conv = f.kwargs.get('converter')
    if conv is not None and ast.unparse(conv) not in ('tuple',):
        r.fail('HplSpecification.properties:converter', f'converter {ast.unparse(conv)} may reorder / drop / deduplicate properties', f.where)
    else:
        r.ok('HplSpecification.properties: stored as given')
    # a file is exactly its properties: building the specification object runs no check of its own that could reject
    # a sequence of individually valid properties
    for hook in ('__attrs_post_init__',):
        hf = sp.resolve(hook)
        if hf is not None:
            raising = [n_ for n_ in ast.walk(hf.node) if isinstance(n_, ast.Raise)]
            calls = [ast.unparse(n_.func) for n_ in ast.walk(hf.node) if isinstance(n_, ast.Call)]
            if raising or any(c_.startswith('self.') for c_ in calls):
                r.fail('HplSpecification:construction-check', f'HplSpecification.{hook} runs checks on construction ({", ".join(calls)[:80]}): a file whose properties are all valid can be rejected as a whole', hf.where)
    for fld, vs in sp.validators.items():
        for vname in vs:
            vf = sp.methods[vname]
            if any(isinstance(n_, ast.Raise) for n_ in ast.walk(vf.node)):
                r.fail(f'HplSpecification.{fld}:validator', f'validator {vname} of HplSpecification.{fld} can reject a sequence of valid properties', vf.where)
    if 'children' in sp.methods:
        so = ctx.ev.run(sp.methods['children'], {'self': Sym('self', 'HplSpecification')})
        if not (len(so) == 1 and so[0].value == Attr(Sym('self', 'HplSpecification'), 'properties')):
            r.fail('HplSpecification.children', 'children() is not the properties tuple', sp.methods['children'].where)
    # hpl_property
    fi, outs, _ = callback_outcomes(ctx, 'hpl_property')
    for o in outs:
        if o.kind != 'return':
            r.fail('hpl_property', f'path does not return: {str(o)[:100]}', fi.where)
            continue
        v = o.value
        if not check_new(ctx, r, 'hpl_property', fi.where, v, Expect('HplProperty', scope=C(1), pattern=C(2))):
            continue
        is_none = None
        for t, p in norm_guards(o.guards):
            nt = none_test(t)
            if nt and nt[0] == C(0):
                is_none = nt[1] if p else not nt[1]
        ups = [e for e in o.effects if isinstance(e, Call) and call_name(e) == 'update' and isinstance(call_recv(e), Attr) and call_recv(e).name == 'metadata']
        if is_none is False:
            if len(ups) == 1 and call_recv(ups[0]).base == v and ups[0].args == (C(0),):
                r.ok('hpl_property: new.metadata.update(c0)')
            else:
                r.fail('hpl_property:metadata', f'the annotations (c0) are not attached to the new property: {[str(u)[:80] for u in ups]}', fi.where)
        else:
            bad = [u for u in ups if not (u.args and (u.args[0] == DictT(()) or u.args[0] == C(0)))]
            if bad or any(call_recv(u).base != v for u in ups):
                r.fail('hpl_property:metadata', f'without annotations the property still receives {[str(u)[:80] for u in ups]}', fi.where)
            else:
                r.ok('hpl_property: no annotations -> empty metadata')
        for e in o.effects:
            if isinstance(e, Store) and isinstance(e.target, Attr) and isinstance(e.target.base, Sym) and e.target.base.name == 'self':
                r.fail('hpl_property:state', 'callback stores state on the transformer', fi.where)
    # metadata
    fi, outs, _ = callback_outcomes(ctx, 'metadata')
    raised = [o for o in outs if o.kind == 'raise']
    rets = [o for o in outs if o.kind == 'return']
    ok_raise = False
    for o in raised:
        exc = list(alternatives(o.value))
        if all(isinstance(x[1], Call) and (isinstance(x[1].func, BoundMethod) and x[1].func.recv == ClassRef('HplSyntaxError') or isinstance(x[1].func, ClassRef) and x[1].func.name == 'HplSyntaxError' or 'HplSyntaxError' in repr(x[1].func)) for x in exc):
            ok_raise = True
        else:
            r.fail('metadata:error-class', f'duplicate keys raise {str(o.value)[:80]}, not HplSyntaxError', fi.where)
    loops = [e for o in outs for e in o.effects if isinstance(e, Loop)]
    dup_ok = False
    store_ok = False
    for lp in loops:
        if lp.iter != CH:
            continue
        key_t = None
        for pg, flow, binds, effs in lp.paths:
            for e in effs:
                if isinstance(e, Store) and isinstance(e.target, Sub) and isinstance(e.target.base, DictT) and not e.target.base.items:
                    store_ok = True
                    key_t = e.target.index
            for t, p in norm_guards(pg):
                if isinstance(t, Op) and t.op == 'in' and p and isinstance(t.args[1], DictT):
                    # some variable records the repeated key, and the final raise tests that variable
                    recorders = [n_ for n_, v_ in binds if v_ == t.args[0]]
                    tested = {x.tag[5:] for o_ in raised for g_, _ in o_.guards for x in walk(g_) if isinstance(x, Opaque) and x.tag.startswith('loop:')}
                    if set(recorders) & tested:
                        dup_ok = True
            if flow != 'end':
                r.fail('metadata:loop', 'the annotation loop can stop early', fi.where)
        immediate = False
        for rg, exc in lp.raises:
            if any(isinstance(t, Op) and t.op == 'in' and p and isinstance(t.args[1], DictT) for t, p in norm_guards(rg)) and 'HplSyntaxError' in repr(exc):
                immediate = True
        if immediate:
            dup_ok = True
        # the duplicate test must be unconditional w.r.t. the key kind: some path where `key in metadata` is not tested -> hole
        for pg, flow, binds, effs in lp.paths:
            tested = any(isinstance(t, Op) and t.op == 'in' and isinstance(t.args[1], DictT) for t, p in norm_guards(pg))
            stores = any(isinstance(e, Store) for e in effs)
            if not tested and stores:
                r.fail('metadata:dup-test', f'on path [{guards_repr(norm_guards(pg))}] an annotation is stored without testing whether its key was already seen', fi.where)
                dup_ok = False
    all_children = (CH, Call(Ext('list'), (CH,)), Call(Ext('tuple'), (CH,)))
    fresh_dicts = tuple(Call(Ext('dict'), (x,)) for x in all_children)
    if not loops and raised and ok_raise:
        # dict(children) plus a helper that reports a repeated key: the helper must see the keys of ALL children, record
        # every key it has not seen, and report one that it has
        if all(o.value in fresh_dicts for o in rets) and rets:
            store_ok = True
        for o in raised:
            for g, pol in norm_guards(o.guards):
                for x in walk(g):
                    if isinstance(x, Call) and isinstance(x.func, FuncRef) and len(x.args) == 1:
                        a = x.args[0]
                        keys_of_all = isinstance(a, Comp) and len(a.gens) == 1 and a.gens[0][1] in all_children and not a.gens[0][2] \
                            and a.elt == Sym('each:' + a.gens[0][0].strip('()').split(',')[0].strip())
                        hf = ctx.ev.callee(x.func)
                        if not keys_of_all or hf is None:
                            continue
                        kp = Sym('keys')
                        for ho in ctx.ev.run(hf, {hf.params()[0]: kp}):
                            for e in ho.effects:
                                if not (isinstance(e, Loop) and e.iter == kp):
                                    continue
                                each = Sym(f'each:{e.target}')
                                rec = rem = False
                                for pg2, flow2, binds2, effs2 in e.paths:
                                    seen_test = [(t, p) for t, p in norm_guards(pg2) if isinstance(t, Op) and t.op == 'in' and t.args[0] == each]
                                    if seen_test and seen_test[0][1] and any(v == each and ho.value == Opaque(f'loop:{n_}') for n_, v in binds2):
                                        rec = True
                                    if seen_test and not seen_test[0][1] and any(isinstance(c2, Call) and call_name(c2) in ('add', 'append') and c2.args == (each,) and call_recv(c2) == seen_test[0][0].args[1] for c2 in effs2):
                                        rem = True
                                    if flow2 != 'end':
                                        rec = rem = False
                                        break
                                if rec and rem:
                                    dup_ok = True
    if raised and ok_raise and dup_ok and store_ok:
        r.ok('metadata: fresh dict, every key tested for repetition, HplSyntaxError on duplicates')
    else:
        if not raised:
            r.fail('metadata:no-raise', 'duplicate annotation keys are not rejected', fi.where)
        elif not dup_ok:
            r.fail('metadata:dup', 'duplicate detection (key in metadata -> dup) not found on every path', fi.where)
        if not store_ok:
            r.fail('metadata:fresh', 'annotations are not collected in a fresh dict created by this call', fi.where)
    for o in rets:
        if not ((isinstance(o.value, DictT) and not o.value.items) or o.value in fresh_dicts):
            r.fail('metadata:return', f'returns {str(o.value)[:60]}, not the dict built by this call', fi.where)
    if not rets or any(o.kind == 'fall' for o in outs):
        r.fail('metadata:return', 'a path through the callback ends without returning the collected annotations (None reaches hpl_property, which reads it as "no annotations")', fi.where)
    for name, k in (('metadata_id', 'id'), ('metadata_title', 'title'), ('metadata_desc', 'description')):
        fi, outs, _ = callback_outcomes(ctx, name)
        # (a NamedTuple record with those two fields is the same pair)
        ok = len(outs) == 1 and outs[0].value is not None and parser_eval(ctx)._as_tuple(outs[0].value, _State(), 0) in (TupleT((Const(k), C(0))), TupleT((Const(k), C(0)), 'tuple'))
        (r.ok(f'{name}: ({k!r}, c0)') if ok else r.fail(name, f'expected ({k!r}, c0), found {[str(o)[:80] for o in outs]}', fi.where))
    return r


# ----------------------------------------------------------------------- D4
def D4(ctx: Ctx) -> RuleResult:
    r = RuleResult('D4', 'time_amount: ms divides by exactly 1000, s is the identity; pattern printer uses the reciprocal factor')
    fi, outs, _ = callback_outcomes(ctx, 'time_amount')
    outs = expand_outcomes(outs)
    num = Call(Ext('float'), (C(0),))
    seen = {}
    for o in outs:
        unit = None
        for t, p in norm_guards(o.guards):
            if isinstance(t, Op) and t.op == '==' and t.args[0] == C(1) and isinstance(t.args[1], Const):
                if p:
                    unit = t.args[1].value
                else:
                    other = [a.args[1].value for a in o.asserts if isinstance(a, Op) and a.op == '==' and a.args[0] == C(1)]
                    unit = other[0] if other else 'else'
        if not o.guards:
            unit = 'always'
        if o.kind == 'raise' and o.guards and all(not p for _, p in norm_guards(o.guards)):
            continue  # no known unit: an error is as good as the assertion (G7: the grammar produces no other unit)
        if o.kind != 'return':
            r.fail('time_amount:path', f'path does not return: {str(o)[:80]}', fi.where)
            continue
        seen[unit] = o.value
    ms = seen.get('ms')
    s = seen.get('s', seen.get('else'))
    # division by exactly 1000: multiplying by the (inexact) constant 0.001 gives other floats (9 ms -> 0.009000000000000001)
    ms_ok = ms in (Op('/', (num, Const(1000.0))), Op('/', (num, Const(1000))))
    if ms_ok:
        r.ok(f'ms -> {ms!r}')
    else:
        r.fail('time_amount:ms', f'milliseconds are converted as {ms!r}, expected float(c0) / 1000.0', fi.where, 'float(c0) / 1000.0', repr(ms))
    if s in (num, Op('/', (num, Const(1.0))), Op('/', (num, Const(1))), Op('*', (num, Const(1.0))), Op('*', (num, Const(1)))):
        r.ok(f's -> {s!r}')
    else:
        r.fail('time_amount:s', f'seconds are converted as {s!r}, expected float(c0)', fi.where, 'float(c0)', repr(s))
    return r


# ----------------------------------------------------------------------- F3
def F3(ctx: Ctx) -> RuleResult:
    r = RuleResult('F3', 'alias -> type: the variables mapping that reaches predicate type checking is derived from the aliases of earlier events')
    se = ctx.model.cls('HplSimpleEvent', 'F3')
    fi = se.resolve('type_check_references')
    self_t = Sym('self', 'HplSimpleEvent')
    mt = Sym('msg_types')
    outs = ctx.ev.run(fi, {'self': self_t, 'msg_types': mt}, self_cls=se)
    calls = method_calls(all_terms(outs), 'type_check_references')
    if not calls:
        raise AnalysisError('F3', 'HplSimpleEvent.type_check_references: no delegation to the predicate found')
    for c in calls:
        this = c.args[0] if c.args else c.kw('this_msg')
        var = c.kw('variables') if c.kw('variables') is not None else (c.args[1] if len(c.args) > 1 else None)
        if this == Sub(mt, Attr(self_t, 'name')):
            r.ok('own message type = msg_types[self.name]')
        else:
            r.fail('HplSimpleEvent.type_check_references:this', f'own message type is {this!r}, expected msg_types[self.name]', fi.where)
        if var == mt:
            r.fail('HplSimpleEvent.type_check_references:variables', 'alias references (@A.x) are looked up in the channel-name map itself: the alias must also be a key of msg_types, otherwise "no type token for A"', fi.where)
        elif var is None:
            r.fail('HplSimpleEvent.type_check_references:variables', 'no variables mapping is passed: every alias reference fails', fi.where)
        else:
            txt = repr(var)
            if 'alias' in txt:
                r.ok(f'variables derived from aliases: {txt[:80]}')
            else:
                r.fail('HplSimpleEvent.type_check_references:variables', f'variables mapping {txt[:80]} is not derived from event aliases', fi.where)
    return r


# ----------------------------------------------------------------------- F4
def F4(ctx: Ctx) -> RuleResult:
    r = RuleResult('F4', 'no non-reflexive constant (NaN) reaches an attrs field that takes part in == without a custom key')
    nc = ctx.model.cls('NumberConstants', 'F4')
    nan_members = []
    for m in nc.enum_members:
        v = ctx.ev.enum_value(EnumMember('NumberConstants', m), 0)
        if isinstance(v, Const) and isinstance(v.value, float) and v.value != v.value:
            nan_members.append(m)
    fi, outs, _ = callback_outcomes(ctx, 'number_constant')
    lit = ctx.model.cls('HplLiteral', 'F4')
    f = lit.field('value')
    for m in nan_members:
        reaches = any(isinstance(o.value, New) and o.value.cls == 'HplLiteral' and 'NumberConstants' in repr(o.value.get('value')) for o in outs)
        custom = f is not None and 'eq' in f.kwargs and not isinstance(f.kwargs['eq'], ast.Constant)
        if reaches and f is not None and f.eq and not custom:
            r.fail('HplLiteral.value:NaN', f'NumberConstants.{m} (float nan) is stored in HplLiteral.value, which attrs compares with ==: the literal NAN is never equal to itself, so parse(str(ast)) != ast', f.where)
        else:
            r.ok(f'NumberConstants.{m}: not compared with ==')
    if not nan_members:
        r.ok('no NaN-valued constant')
    return r


RULES = {'F1': F1, 'F2': F2, 'D4': D4, 'F3': F3, 'F4': F4}

"""E7 printer rules P1-P6 over a string-template abstract domain: the terms the
evaluator extracts from every `__str__` are flattened into sequences of literal
words and field slots and compared with the grammar's own rule variants
annotated (through F1) with the field each kept child feeds."""
from __future__ import annotations

import ast
import re
from typing import Dict, List, Optional, Set, Tuple

from .ctx import Ctx
from .grammar import View
from .model import AnalysisError, ClassInfo, FunctionInfo
from .report import RuleResult
from .rules_flows import C, CH, callback_outcomes, resolve_defaults
from .rules_grammar import lexemes
from .rules_slots import slot_table
from .terms import (Attr, Call, Comp, Const, EnumMember, Evaluator, Ext, Fmt, Ite, New, Op, Outcome, Sub, Sym, Template,
                    Term, TupleT, alternatives, default_inline, guards_repr, norm_guards, walk)
from .util import call_name, call_recv, none_test

# ----------------------------------------------------------------- templates
# token: ('w', word) | ('s', field, detail) | ('j', field, sep-words, source)


def _tok_words(text: str) -> List[str]:
    return re.findall(r'!\[|\]!|\*\*|<=|>=|!=|[A-Za-z_]+|\d+(?:\.\d+)?|\S', text)


def _slot_of(t: Term, self_t: Term) -> Optional[Tuple[str, str]]:
    """(field, detail) when `t` formats a field of self (detail: '' itself, '.x' projection, 'arith')"""
    if isinstance(t, Attr) and t.base == self_t:
        return (t.name, '')
    if isinstance(t, Attr):
        inner = _slot_of(t.base, self_t)
        if inner:
            return (inner[0], inner[1] + '.' + t.name)
    if isinstance(t, Op) and t.op in ('*', '/', '+', '-', '//', '%'):
        for a in t.args:
            inner = _slot_of(a, self_t)
            if inner:
                return (inner[0], 'arith:' + repr(t))
    if isinstance(t, Call) and isinstance(t.func, Ext) and t.func.name in ('str', 'repr', 'int', 'float', 'round') and t.args:
        inner = _slot_of(t.args[0], self_t)
        if inner:
            return (inner[0], inner[1] if t.func.name == 'str' else f'{t.func.name}()')
    return None


def _stringy(t: Term) -> bool:
    if isinstance(t, Const):
        return isinstance(t.value, str)
    if isinstance(t, (Template, Fmt)):
        return True
    if isinstance(t, Call) and isinstance(t.func, Ext) and t.func.name in ('str', 'repr'):
        return True
    if isinstance(t, Call) and isinstance(t.func, Attr) and t.func.name == 'join':
        return True
    if isinstance(t, Op) and t.op == '+':
        return any(_stringy(a) for a in t.args)
    if isinstance(t, Ite):
        return _stringy(t.a) or _stringy(t.b)
    return False


def flatten(t: Term, self_t: Term) -> List[Tuple[Tuple, List[Tuple]]]:
    """all alternatives of a printed term: [(guards, token list)]"""
    if isinstance(t, Const):
        return [((), [('w', w) for w in _tok_words(str(t.value))])]
    if isinstance(t, Ite):
        out = []
        for g, seq in flatten(t.a, self_t):
            out.append((((t.test, True),) + g, seq))
        for g, seq in flatten(t.b, self_t):
            out.append((((t.test, False),) + g, seq))
        return out
    if isinstance(t, Fmt):
        if t.spec:
            return [((), [('s', '?', f'format-spec:{t.spec}')])]
        return flatten(t.value, self_t)
    if isinstance(t, Template):
        alts: List[Tuple[Tuple, List[Tuple]]] = [((), [])]
        for p in t.parts:
            sub = flatten(p, self_t)
            alts = [(g1 + g2, s1 + s2) for g1, s1 in alts for g2, s2 in sub]
        return alts
    if isinstance(t, Op) and t.op == '+' and any(_stringy(a) for a in t.args):
        # string concatenation
        alts2: List[Tuple[Tuple, List[Tuple]]] = [((), [])]
        for p in t.args:
            sub = flatten(p, self_t)
            alts2 = [(g1 + g2, s1 + s2) for g1, s1 in alts2 for g2, s2 in sub]
        return alts2
    if isinstance(t, Call) and isinstance(t.func, Attr) and t.func.name == 'join' and isinstance(t.func.base, Const) and t.args:
        sep = _tok_words(str(t.func.base.value))
        src = t.args[0]
        if isinstance(src, TupleT):
            # sep.join((a, b, c)): the parts interleaved with the separator
            alts3: List[Tuple[Tuple, List[Tuple]]] = [((), [])]
            for i, p in enumerate(src.items):
                sub = flatten(p, self_t)
                pre = [('w', w) for w in sep] if i else []
                alts3 = [(g1 + g2, s1 + pre + s2) for g1, s1 in alts3 for g2, s2 in sub]
            return alts3
        if isinstance(src, Call) and isinstance(src.func, Ext) and src.func.name == 'map' and len(src.args) == 2 and src.args[0] == Ext('str'):
            src = Comp('gen', Sym('each:<item>'), (('<item>', src.args[1], ()),))
        if isinstance(src, Comp) and len(src.gens) == 1:
            tgt, it, ifs = src.gens[0]
            each = Sym(f'each:{tgt}')
            elt = src.elt
            if isinstance(elt, Template) and len(elt.parts) == 1 and isinstance(elt.parts[0], Fmt):
                elt = elt.parts[0].value
            if isinstance(elt, Call) and isinstance(elt.func, Ext) and elt.func.name == 'str' and elt.args:
                elt = elt.args[0]
            detail = '' if elt == each else ('.' + elt.name if isinstance(elt, Attr) and elt.base == each else 'elem:' + repr(elt))
            field = None
            source = ''
            if isinstance(it, Attr) and it.base == self_t:
                field = it.name
            elif isinstance(it, Call) and call_recv(it) == self_t:
                field = call_name(it) + '()'
                source = 'call'
            if ifs:
                detail += ' filtered'
            if field is not None:
                return [((), [('j', field, tuple(sep), detail)])]
        return [((), [('s', '?', 'join:' + repr(src)[:60])])]
    sl = _slot_of(t, self_t)
    if sl:
        return [((), [('s', sl[0], sl[1])])]
    if isinstance(t, Call) and isinstance(t.func, Ext) and t.func.name == 'str' and t.args:
        return flatten(t.args[0], self_t)
    if isinstance(t, New) and _FLATTEN_EV:
        # a node built on the spot and printed (str(HplLiteral('True', True))): its own printer on the known fields
        ev = _FLATTEN_EV[-1]
        ci = ev.m.classes.get(t.cls)
        sfi = ci.resolve('__str__') if ci is not None else None
        if sfi is not None and len(_FLATTEN_EV) < 4:
            _FLATTEN_EV.append(ev)
            try:
                outs = ev.run(sfi, {'self': t}, self_cls=ci)
                alts4 = []
                for o in outs:
                    if o.kind == 'return':
                        for g, seq in flatten(o.value, t):
                            alts4.append((tuple(o.guards) + g, seq))
                if alts4:
                    return alts4
            finally:
                _FLATTEN_EV.pop()
    return [((), [('s', '?', repr(t)[:60])])]


_FLATTEN_EV: List = []


def printer_alternatives(ctx: Ctx, c: ClassInfo, assume: Optional[Dict[Term, Term]] = None) -> Tuple[FunctionInfo, List[Tuple[Tuple, List[Tuple]]]]:
    fi = c.resolve('__str__')
    if fi is None:
        raise AnalysisError('P1', f'{c.name} has no __str__')
    self_t = Sym('self', c.name)
    ev = Evaluator(ctx.model, assume=assume) if assume else ctx.ev
    outs = ev.run(fi, {'self': self_t}, self_cls=c)
    alts = []
    _FLATTEN_EV.append(ev)
    try:
        for o in outs:
            if o.kind != 'return':
                continue
            for g, seq in flatten(o.value, self_t):
                alts.append((norm_guards(o.guards) + norm_guards(g), seq))
    finally:
        _FLATTEN_EV.pop()
    return fi, alts


def P1(ctx: Ctx) -> RuleResult:
    r = RuleResult('P1', 'every concrete AST class prints through a __str__ defined in the package (never the attrs repr)')
    n = 0
    for c in ctx.model.concrete_ast_classes():
        n += 1
        fi = c.resolve('__str__')
        if fi is None:
            r.fail(f'{c.name}.__str__', 'no __str__ in the class or its package bases: str() falls back to the attrs repr, which is not HPL', c.where)
        else:
            r.ok(f'{c.name}.__str__ defined in {fi.cls.name}')
    r.floor('concrete classes', n, 20)
    return r


# ------------------------------------------------------------------------ P2
# fields the parser can only ever set to one constant (checked against F1 below); exempt from printing
CONSTANT_FIELDS = {('HplPattern', 'min_time'), ('HplSimpleEvent', 'event_type'), ('HplSimpleEvent', 'message_type')}
DERIVED_FIELDS = {'data_type', 'metadata'}
# fields that are functions of another, printed field (F1: same child feeds both)
FUNCTION_OF = {('HplLiteral', 'value'): 'token'}
SELECTOR_FIELDS = {('HplScope', 'scope_type'), ('HplPattern', 'pattern_type')}


def _singleton_kind(ctx: Ctx, field_cls: Optional[ClassInfo], pred: str) -> bool:
    """kind predicate `pred` is True for exactly one concrete, field-less class below field_cls"""
    if field_cls is None:
        return False
    hits = []
    for c in ctx.model.subclasses(field_cls):
        if not ctx.model.is_leaf(c):
            continue
        m = c.resolve(pred)
        if m is None:
            continue
        outs = ctx.ev.run(m, {'self': Sym('self', c.name)}, self_cls=c)
        if len(outs) == 1 and outs[0].value == Const(True):
            hits.append(c)
    return len(hits) == 1 and not [f for f in hits[0].fields() if f.name not in DERIVED_FIELDS]


def _empty_printers(ctx: Ctx) -> List[str]:
    """concrete classes whose printer always yields the empty string"""
    def build():
        out = []
        for c in ctx.model.concrete_ast_classes():
            fi, alts = printer_alternatives(ctx, c)
            if alts and all(not seq for g, seq in alts):
                out.append(c.name)
        return out
    return ctx.memo('empty_printers', build)


def P2(ctx: Ctx) -> RuleResult:
    r = RuleResult('P2', 'field coverage: on every print path every equality-relevant field the parser can vary is printed itself (not a projection), selects between distinct literals, or is pinned by the path guard / the class validators')
    from .rules_slots import optional_facts
    n = 0
    for c in ctx.model.concrete_ast_classes():
        self_t = Sym('self', c.name)
        enum_f = None
        for f in c.fields():
            t = ctx.ev.ann_class(f.annotation, f.cls.module)
            if t is not None and t.is_enum and (c.name, f.name) in SELECTOR_FIELDS:
                enum_f = (f.name, t)
        cases: List[Tuple[str, Optional[Dict], Dict[str, bool]]] = [('', None, {})]
        if enum_f:
            cases = []
            facts = optional_facts(ctx, c)
            for m in enum_f[1].enum_members:
                none_must: Dict[str, bool] = {}
                rows = [d for d in facts if d.get(enum_f[0]) == EnumMember(enum_f[1].name, m)]
                for k in (rows[0].keys() if rows else []):
                    vals = {d[k] for d in rows if isinstance(d[k], bool)}
                    if vals == {True}:
                        none_must[k] = True
                cases.append((m, {Attr(self_t, enum_f[0]): EnumMember(enum_f[1].name, m)}, none_must))
        fields = [f for f in c.fields() if f.eq and f.name not in DERIVED_FIELDS and (c.name, f.name) not in CONSTANT_FIELDS]
        word_sets: Dict[str, List] = {}
        fi = None
        per_field_bad: Dict[str, List[str]] = {f.name: [] for f in fields}
        per_field_proj: Dict[str, str] = {}
        for label, assume, none_must in cases:
            fi, alts = printer_alternatives(ctx, c, assume)
            alts = [(g, seq) for g, seq in alts if not any(isinstance(t, Const) and bool(t.value) != pol for t, pol in g)]
            word_sets[label] = sorted({tuple(t[1] for t in seq if t[0] == 'w' and re.fullmatch(r'[A-Za-z_]+', t[1]) and t[1] not in ('within', 's', 'ms')) for g, seq in alts})
            for f in fields:
                if enum_f and f.name == enum_f[0]:
                    continue
                if (c.name, f.name) in FUNCTION_OF:
                    other = FUNCTION_OF[(c.name, f.name)]
                    if not all(any(t[0] in ('s', 'j') and t[1] == other and t[2 if t[0] == 's' else 3] == '' for t in seq) for g, seq in alts):
                        per_field_bad[f.name].append(f'{other} not printed')
                    continue
                if none_must.get(f.name):
                    continue  # validators force None for this member
                for g, seq in alts:
                    printed = False
                    for t in seq:
                        if t[0] == 's' and t[1] == f.name:
                            if t[2] == '' or t[2].startswith('arith'):
                                printed = True
                            elif (c.name, f.name) in (('HplFunctionCall', 'function'), ('HplUnaryOperator', 'operator'), ('HplBinaryOperator', 'operator')) and t[2] in ('.name', '.token'):
                                printed = True  # definitions print as their lexeme
                            elif t[2] == '.value' and getattr(ctx.ev.ann_class(f.annotation, f.cls.module), 'is_enum', False):
                                printed = True  # the value of an enum member identifies the member
                            else:
                                per_field_proj[f.name] = t[2]
                        if t[0] == 'j' and t[1] == f.name:
                            if t[3] == '':
                                printed = True
                            else:
                                per_field_proj[f.name] = t[3]
                        if t[0] == 'j' and t[1].endswith('()') and _call_covers(ctx, c, t[1][:-2], f.name):
                            printed = True
                    if printed:
                        continue
                    pinned = False
                    for tt, pol in g:
                        if isinstance(tt, Attr) and tt.base == self_t and tt.name == f.name:
                            pinned = True  # boolean flag selecting literals
                        nt = none_test(tt)
                        if nt and nt[0] == Attr(self_t, f.name) and (nt[1] == pol):
                            pinned = True
                        if isinstance(tt, Op) and tt.op in ('==', 'is') and Attr(self_t, f.name) in tt.args and pol and any(isinstance(a, (EnumMember, Const)) for a in tt.args):
                            pinned = True
                        if isinstance(tt, Attr) and tt.base == Attr(self_t, f.name) and pol:
                            fc = ctx.ev.ann_class(f.annotation, f.cls.module)
                            if _singleton_kind(ctx, fc, tt.name):
                                pinned = True
                        if isinstance(tt, Op) and tt.op in ('<', '>=') and Attr(self_t, f.name) in tt.args and any(isinstance(a, Const) and a.value == float('inf') for a in tt.args):
                            if (tt.op == '<' and not pol) or (tt.op == '>=' and pol):
                                pinned = True  # not (x < INF) pins x to INF
                        if isinstance(tt, (Template, Fmt)) and not pol and any(x == Attr(self_t, f.name) for x in walk(tt)):
                            # "prints as the empty string": pinned iff exactly one field-less class prints nothing
                            eps = _empty_printers(ctx)
                            if len(eps) == 1 and not [x for x in ctx.model.cls(eps[0]).fields() if x.name not in DERIVED_FIELDS]:
                                pinned = True
                    if not pinned:
                        per_field_bad[f.name].append((f'[{label}] ' if label else '') + guards_repr(g)[:70])
        for f in fields:
            n += 1
            key = f'{c.name}.__str__:{f.name}'
            if enum_f and f.name == enum_f[0]:
                flat = [(lab, ws) for lab, wss in word_sets.items() for ws in wss]
                clash = [(a[0], b[0]) for i, a in enumerate(flat) for b in flat[i + 1:] if a[0] != b[0] and a[1] == b[1]]
                if clash:
                    r.fail(key, f'members {clash[0]} print the same keywords: the kind cannot be recovered from the text', fi.where)
                else:
                    r.ok(f'{c.name}.{f.name}: every member prints distinct keywords {dict((k, v[0] if v else ()) for k, v in word_sets.items())}')
                continue
            bad = per_field_bad[f.name]
            if bad and f.name in per_field_proj:
                r.fail(key, f'{f.name} is printed only through the projection {per_field_proj[f.name]}: the field itself cannot be recovered from the text', fi.where)
            elif bad:
                r.fail(key, f'{f.name} is neither printed nor pinned on path(s) {bad[:2]}: different ASTs print the same text', fi.where)
            else:
                r.ok(f'{c.name}.{f.name}: printed or pinned on every path')
    r.floor('(class, field) pairs', n, 30)
    return r


def _call_covers(ctx: Ctx, c: ClassInfo, meth: str, field: str) -> bool:
    """`self.simple_events()`-style enumerations cover the event1/event2 slots"""
    return meth in ('simple_events', 'children', 'iterate') and field in {s.name for s in slot_table(ctx).get(c.name, [])}


# ------------------------------------------------------------------------ P3
def rule_field_map(ctx: Ctx, rule: str) -> Optional[Tuple[str, Dict[int, str]]]:
    """(class built, {child index: field}) for a callback rule, from the F1 extraction"""
    try:
        fi, outs, params = callback_outcomes(ctx, rule)
    except AnalysisError:
        return None
    cls = None
    m: Dict[int, str] = {}
    classes_extra: Dict[str, Dict[int, str]] = {}
    for o in outs:
        if o.kind != 'return':
            continue
        for g, leaf in alternatives(o.value):
            leaf = resolve_defaults(ctx, leaf)
            if isinstance(leaf, Call) and isinstance(leaf.func, __import__('hplsa.terms', fromlist=['FuncRef']).FuncRef) and leaf.args and all(isinstance(a, Sym) for a in leaf.args):
                callee = ctx.ev.callee(leaf.func)
                if callee is not None:
                    ps = callee.params()
                    for o2 in ctx.ev.run(callee, {p_: a for p_, a in zip(ps, leaf.args)}):
                        for g2, leaf2 in alternatives(o2.value) if o2.kind == 'return' else []:
                            if isinstance(leaf2, New):
                                classes_extra.setdefault(leaf2.cls, {})
                                for fname, v in leaf2.fields:
                                    for x in walk(v):
                                        if isinstance(x, Sym) and re.fullmatch(r'c\d+', x.name):
                                            classes_extra[leaf2.cls].setdefault(int(x.name[1:]), fname)
                continue
            if not isinstance(leaf, New):
                continue
            cls = cls or leaf.cls
            for fname, v in leaf.fields:
                for x in walk(v):
                    if isinstance(x, Sym) and re.fullmatch(r'c\d+', x.name):
                        m.setdefault(int(x.name[1:]), fname)
                    if isinstance(x, Sub) and x.base == CH and isinstance(x.index, Const) and isinstance(x.index.value, int):
                        m.setdefault(x.index.value, fname)
                if v == CH or v == Call(Ext('tuple'), (CH,)):
                    m.setdefault(-1, fname)
    if cls is None:
        # iteratively built results (e.g. a fold): the constructor terms sit in the loop summaries
        from .terms import Loop
        for o in outs:
            for e in o.effects:
                if isinstance(e, Loop):
                    for pg, flow, binds, effs in e.paths:
                        for _n, v in binds:
                            if isinstance(v, New):
                                cls = cls or v.cls
                                for i, (fname, fv) in enumerate(f2 for f2 in v.fields if f2[0] not in ('metadata', 'data_type')):
                                    m.setdefault(i, fname)
    if cls is None:
        # results built by a library fold (reduce(lambda acc, x: C(x, acc), ..., C(a, b))): the constructor terms sit in
        # the step function and the seed
        for o in outs:
            if o.kind != 'return' or o.value is None:
                continue
            for x in walk(o.value):
                if isinstance(x, Call) and isinstance(x.func, Ext) and x.func.name.split('.')[-1] == 'reduce':
                    for a in x.args:
                        v = a.body if type(a).__name__ == 'Lam' else a
                        if type(v).__name__ == 'FuncRef':
                            # a named step function: what it returns
                            sfi = ctx.ev.callee(v)
                            so = ctx.ev.run(sfi) if sfi is not None else []
                            v = so[0].value if len(so) == 1 and so[0].kind == 'return' else v
                        if isinstance(v, New):
                            cls = cls or v.cls
                            for i, (fname, fv) in enumerate(f2 for f2 in v.fields if f2[0] not in ('metadata', 'data_type')):
                                m.setdefault(i, fname)
    if cls is None:
        if classes_extra:
            _EXTRA[rule] = classes_extra
        return None
    return cls, m


_EXTRA: Dict[str, Dict[str, Dict[int, str]]] = {}
PASS_THROUGH_RULES = {'alias', 'channel_name', 'time_amount'}


def rule_variants(ctx: Ctx, v: View, rule: str) -> List[List[Tuple]]:
    """compiled variants of a rule as token lists: ('w', word) | ('c', child index) | ('l', child index, sep)"""
    out: List[List[Tuple]] = []
    for e in v.rules_of(rule):
        lay = e.layout()
        # walk symbols and layout in parallel to know the child index of each kept symbol
        seqs: List[List[Tuple]] = [[]]
        nones = []
        if e.empty_indices:
            s = ''.join(str(int(b)) for b in e.empty_indices)
            nones = [len(x) for x in s.split('0')]
        else:
            nones = [0] * (len(e.symbols) + 1)
        idx = 0
        for i, (name, is_term, filt) in enumerate(e.symbols):
            idx += nones[i]
            if is_term and filt and not e.keep_all_tokens:
                lx = lexemes(v.terminals[name]) if name in v.terminals else None
                word = sorted(lx)[0] if lx and len(lx) == 1 else name
                seqs = [s + [('w', word)] for s in seqs]
                continue
            if not is_term and name.startswith('_'):
                subs = _inline_variants(ctx, v, name, 0, 0)
                if subs is None:
                    # recursive list rule: children idx.. are a separated list
                    sep = _list_separator(v, name)
                    seqs = [s + [('l', idx, sep)] for s in seqs]
                    idx += 1
                else:
                    widths = {w for w, _ in subs}
                    new = []
                    for s in seqs:
                        for w, sub in subs:
                            new.append(s + [((t[0], t[1] + idx) + tuple(t[2:])) if t[0] in ('c', 't') else t for t in sub])
                    seqs = new
                    idx += max(widths) if widths else 0
                continue
            if not is_term and name.startswith('__'):
                sep = _list_separator(v, name)
                seqs = [s + [('l', idx, sep)] for s in seqs]
                idx += 1
                continue
            if not is_term and name in PASS_THROUGH_RULES:
                # the child rule hands its own kept token(s) up unchanged: spell its phrase out
                sub = rule_variants(ctx, v, name)
                if sub and name != 'time_amount':
                    seqs = [s + [t if t[0] == 'w' else ('c', idx) for t in sub[0]] for s in seqs]
                else:
                    seqs = [s + [('c', idx), ('u',)] for s in seqs] if name == 'time_amount' else [s + [('c', idx)] for s in seqs]
                idx += 1
                continue
            nullable = not is_term and any(not e2.symbols for e2 in v.rules_of(name))
            # a child rule that also matches the empty string (metadata: _metadata_items?) may contribute no text at all
            seqs = [s + [('t', idx, name) if is_term else ('c', idx)] for s in seqs] + ([list(s) for s in seqs] if nullable else [])
            idx += 1
        out.extend(seqs)
    return out


def _inline_variants(ctx: Ctx, v: View, name: str, base: int, depth: int) -> Optional[List[Tuple[int, List[Tuple]]]]:
    if depth > 3:
        return None
    exps = v.rules_of(name)
    if any(n == name for e in exps for n, t, f in e.symbols if not t):
        return None
    res: List[Tuple[int, List[Tuple]]] = []
    for e in exps:
        seqs: List[Tuple[int, List[Tuple]]] = [(0, [])]
        for sym, is_term, filt in e.symbols:
            if is_term and filt:
                lx = lexemes(v.terminals[sym]) if sym in v.terminals else None
                word = sorted(lx)[0] if lx and len(lx) == 1 else sym
                seqs = [(w, s + [('w', word)]) for w, s in seqs]
            elif not is_term and sym.startswith('_'):
                subs = _inline_variants(ctx, v, sym, 0, depth + 1)
                if subs is None:
                    return None
                seqs = [(w + w2, s + [((t[0], t[1] + w) + tuple(t[2:])) if t[0] in ('c', 't') else t for t in s2]) for w, s in seqs for w2, s2 in subs]
            elif not is_term and sym in PASS_THROUGH_RULES and sym == 'time_amount':
                seqs = [(w + 1, s + [('c', base + w), ('u',)]) for w, s in seqs]
            else:
                seqs = [(w + 1, s + [('t', base + w, sym) if is_term else ('c', base + w)]) for w, s in seqs]
        # an empty alternative of an optional group corresponds to a None placeholder handled by the caller
        res.extend(seqs)
    # collapse single-symbol choice alternatives
    uniq = []
    for item in res:
        if item not in uniq:
            uniq.append(item)
    return uniq


def _list_separator(v: View, name: str, seen: Optional[Set[str]] = None) -> str:
    seen = seen if seen is not None else set()
    seen.add(name)
    for e in v.rules_of(name):
        for sym, is_term, filt in e.symbols:
            if is_term and filt and sym in v.terminals:
                lx = lexemes(v.terminals[sym])
                if lx and len(lx) == 1:
                    return sorted(lx)[0]
    # `x (SEP x)*`: the separator stands in the generated repetition helper
    for e in v.rules_of(name):
        for sym, is_term, filt in e.symbols:
            if not is_term and sym.startswith('__') and sym not in seen:
                sep = _list_separator(v, sym, seen)
                if sep:
                    return sep
    return ''


# which rules build which class (derived from F1), plus wrappers
EXPR_PAREN_CLASSES = {'HplUnaryOperator', 'HplBinaryOperator', 'HplQuantifier'}
BINARY_RULES = ('condition', 'disjunction', 'conjunction', 'atomic_condition', 'expr', 'term', 'factor')


def class_rules(ctx: Ctx) -> Dict[str, List[Tuple[str, Dict[int, str]]]]:
    def build():
        from .rules_grammar import callback_rules
        v = ctx.gm.hpl
        out: Dict[str, List[Tuple[str, Dict[int, str]]]] = {}
        for rule in sorted(callback_rules(ctx, v)):
            rf = rule_field_map(ctx, rule)
            if rf is None:
                for cname, fm in _EXTRA.get(rule, {}).items():
                    out.setdefault(cname, []).append((rule, fm))
                continue
            out.setdefault(rf[0], []).append((rule, rf[1]))
        return out
    return ctx.memo('class_rules', build)


def _match(seq: List[Tuple], variant: List[Tuple], fmap: Dict[int, str], units: Set[str], term_lex: Dict[str, Set[str]], flags: List) -> Optional[str]:
    """None if the printed token sequence equals the rule variant (words equal, slots where the children feed those fields)"""
    i = j = 0
    while i < len(seq) and j < len(variant):
        a, b = seq[i], variant[j]
        if b[0] == 'w':
            if a[0] == 'w' and a[1] == b[1]:
                i += 1
                j += 1
                continue
            return f'expected the word {b[1]!r}, found {a[1:]}'
        if b[0] == 'u':
            if a[0] == 'w' and a[1] in units:
                i += 1
                j += 1
                continue
            return f'expected a time unit {sorted(units)}, found {a[1:]}'
        if b[0] == 't':
            want = fmap.get(b[1])
            lx = term_lex.get(b[2]) or set()
            if a[0] == 'w' and a[1] in lx:
                flags.append((want, a[1]))
                i += 1
                j += 1
                continue
            if a[0] in ('s', 'j') and (want is None or a[1] == want):
                i += 1
                j += 1
                continue
            if a[0] == 's' and want is not None:
                return f'prints field {a[1]} where the grammar rule feeds {want} (token {b[2]})'
            return f'expected a {b[2]} token, found {a[1:]}'
        if b[0] == 'c':
            want = fmap.get(b[1])
            if a[0] == 's' and (want is None or a[1] == want):
                i += 1
                j += 1
                continue
            if a[0] == 'j' and want is not None and a[1] == want:
                i += 1
                j += 1
                continue
            # `x (SEP x)+`: the printed join covers the leading element as well
            if a[0] == 'j' and j + 1 < len(variant) and variant[j + 1][0] == 'l' and variant[j + 1][2] and variant[j + 1][2] in a[2]:
                i += 1
                j += 2
                continue
            if a[0] == 's' and want is not None and a[1] != want:
                return f'prints field {a[1]} where the grammar rule feeds {want} (child {b[1]})'
            return f'expected a slot for child {b[1]} ({want}), found {a[1:]}'
        if b[0] == 'l':
            want = fmap.get(-1) or fmap.get(b[1])
            if a[0] == 'j' and (b[2] in a[2] or (b[2] == '' and not [w for w in a[2] if w.strip()])):
                i += 1
                j += 1
                # `(x SEP)+ x`: the printed join covers the trailing element as well
                if j < len(variant) and variant[j][0] == 'c' and (i >= len(seq) or seq[i][0] == 'w'):
                    j += 1
                continue
            if a[0] == 's' and want is not None and a[1] == want:
                i += 1
                j += 1
                continue
            return f'expected a {b[2]!r}-separated list, found {a}'
    if i < len(seq):
        return f'printed text continues with {seq[i][1:]} after the rule ends'
    if j < len(variant):
        return f'printed text ends before {variant[j]}'
    return None


def P3(ctx: Ctx) -> RuleResult:
    r = RuleResult('P3', 'template = annotated rule: every print alternative of every class is, word for word and slot for slot, a variant of a grammar rule that builds that class (slots where F1 says the child feeds that field); operators/quantifiers wrapped in ( )')
    v = ctx.gm.hpl
    cr = class_rules(ctx)
    units = lexemes(v.terminals['TIME_UNIT']) if 'TIME_UNIT' in v.terminals else set()
    term_lex: Dict[str, Set[str]] = {name: (lexemes(t) or set()) for name, t in v.terminals.items()}
    n = 0
    for c in ctx.model.concrete_ast_classes():
        rules = cr.get(c.name, [])
        self_t = Sym('self', c.name)
        enum_f = None
        for f in c.fields():
            t = ctx.ev.ann_class(f.annotation, f.cls.module)
            if t is not None and t.is_enum and (c.name, f.name) in SELECTOR_FIELDS:
                enum_f = (f.name, t)
        assumptions: List[Tuple[str, Optional[Dict]]] = [('', None)]
        if enum_f:
            assumptions = [(m, {Attr(self_t, enum_f[0]): EnumMember(enum_f[1].name, m)}) for m in enum_f[1].enum_members]
        for label, assume in assumptions:
            fi, alts = printer_alternatives(ctx, c, assume)
            # under an enum assumption only the rules that build that member apply
            cand = rules
            if enum_f and label:
                cand = [(rule, fm) for rule, fm in rules if _rule_builds_member(ctx, rule, enum_f[0], enum_f[1].name, label)]
            for g, seq in alts:
                if any(isinstance(t, Const) and bool(t.value) != pol for t, pol in g):
                    continue
                n += 1
                key = f'{c.name}.__str__' + (f'[{label}]' if label else '')
                text = ' '.join(t[1] if t[0] == 'w' else '{' + t[1] + '}' for t in seq)
                if c.name in ('HplVacuousTruth', 'HplContradiction'):
                    want = ['{', 'True' if c.name == 'HplVacuousTruth' else 'False', '}']
                    if [t[1] for t in seq] == want:
                        r.ok(f'{c.name}: "{text}"')
                    else:
                        r.fail(key, f'prints "{text}", expected "{" ".join(want)}" (re-parsed by predicate_from_expression)', fi.where)
                    continue
                if c.name == 'HplThisMessage':
                    (r.ok('HplThisMessage prints nothing (own fields print bare)') if not seq else r.fail(key, f'prints "{text}": own fields would no longer print as bare names', fi.where))
                    continue
                if c.name == 'HplSpecification':
                    ok = len(seq) == 1 and seq[0][0] == 'j' and seq[0][1] == 'properties' and not [w for w in seq[0][2] if w.strip()] and seq[0][3] == ''
                    (r.ok('HplSpecification: properties joined by line breaks') if ok else r.fail(key, f'prints "{text}", expected all properties separated by whitespace only', fi.where))
                    continue
                if any(t[0] == 's' and t[1] == '?' for t in seq):
                    r.fail(key, f'cannot interpret a printed piece: {[t for t in seq if t[0] == "s" and t[1] == "?"][0][2]}', fi.where)
                    continue
                body = seq
                if c.name in EXPR_PAREN_CLASSES:
                    infix_false = any(isinstance(t, Attr) and t.name == 'infix' and not pol for t, pol in g)
                    if infix_false:
                        continue  # prefix form of non-infix operators: no built-in operator uses it (T1: infix is True for all)
                    if len(seq) >= 2 and seq[0] == ('w', '(') and seq[-1] == ('w', ')'):
                        body = seq[1:-1]
                    else:
                        r.fail(key + ':parens', f'prints "{text}" without the enclosing parentheses: the text no longer re-parses to the same tree at every operand position', fi.where)
                        continue
                if not cand:
                    r.fail(key, f'no grammar rule builds {c.name}{"[" + label + "]" if label else ""}, but it prints "{text}"', fi.where)
                    continue
                reasons = []
                matched = False
                flags: List = []
                for rule, fmap in cand:
                    for var in rule_variants(ctx, v, rule):
                        flags = []
                        why = _match(body, var, fmap, units, term_lex, flags)
                        if why is None:
                            matched = True
                            break
                        reasons.append(f'{rule}: {why}')
                    if matched:
                        break
                if matched:
                    bad_flag = None
                    for fld, word in flags:
                        pol = None
                        for tt, pp in g:
                            if tt == Attr(self_t, fld):
                                pol = pp
                        if fld in ('exclude_min', 'exclude_max') and pol is not None and (word.startswith('!') or word.endswith('!')) != pol:
                            bad_flag = (fld, word, pol)
                    if bad_flag:
                        r.fail(key + f':{bad_flag[0]}', f'prints the bracket {bad_flag[1]!r} when {bad_flag[0]} is {bad_flag[2]}: exclusivity flips on re-parsing', fi.where)
                    else:
                        r.ok(f'{c.name}{"[" + label + "]" if label else ""}: "{text}" = rule {rule}')
                else:
                    r.fail(key, f'prints "{text}", which is not a variant of {[x[0] for x in cand][:4]} ({reasons[0] if reasons else ""})', fi.where)
    r.floor('print alternatives', n, 35)
    return r


def _rule_builds_member(ctx: Ctx, rule: str, field: str, enum: str, member: str) -> bool:
    try:
        fi, outs, _ = callback_outcomes(ctx, rule)
    except AnalysisError:
        return False
    for o in outs:
        for g, leaf in alternatives(o.value):
            if isinstance(leaf, New) and leaf.get(field) == EnumMember(enum, member):
                return True
    return False


# ------------------------------------------------------------------------ P5
def P5(ctx: Ctx) -> RuleResult:
    r = RuleResult('P5', 'slot class compatibility: restructured nodes print flat (an n-ary event disjunction prints its simple events inside one pair of parentheses)')
    c = ctx.model.cls('HplEventDisjunction', 'P5')
    fi, alts = printer_alternatives(ctx, c)
    for g, seq in alts:
        js = [t for t in seq if t[0] == 'j']
        ss = [t for t in seq if t[0] == 's' and t[1] in ('event1', 'event2')]
        if ss:
            r.fail('HplEventDisjunction.__str__:nested', 'prints event1/event2 directly: the parser nests 3+ alternatives to the right, so the text contains nested parentheses that the grammar (one flat list) rejects', fi.where)
        elif len(js) == 1 and js[0][1] == 'simple_events()' and 'or' in js[0][2] and js[0][3] == '' and seq[0] == ('w', '(') and seq[-1] == ('w', ')'):
            r.ok('( simple_events() joined by "or" )')
        else:
            r.fail('HplEventDisjunction.__str__', f'unexpected shape {seq}', fi.where)
    # arguments / set elements / properties are printed element by element
    for cname, field in (('HplSet', 'values'), ('HplFunctionCall', 'arguments'), ('HplSpecification', 'properties')):
        c = ctx.model.cls(cname, 'P5')
        fi, alts = printer_alternatives(ctx, c)
        for g, seq in alts:
            js = [t for t in seq if t[0] == 'j' and t[1] == field]
            if len(js) == 1 and js[0][3] == '':
                r.ok(f'{cname}.{field}: every element printed itself')
            else:
                r.fail(f'{cname}.__str__:{field}', f'elements of {field} are not each printed themselves: {[t for t in seq if t[0] in "js"]}', fi.where)
    return r


# ------------------------------------------------------------------------ P6
def _pow2(x) -> bool:
    try:
        import math
        m, e = math.frexp(float(x))
        return m == 0.5
    except Exception:
        return False


def P6(ctx: Ctx) -> RuleResult:
    r = RuleResult('P6', 'exact numerics: a printed numeric field is formatted without arithmetic (or only by a power of two) and without a format spec')
    n = 0
    for c in ctx.model.concrete_ast_classes():
        fi, alts = printer_alternatives(ctx, c)
        seen = set()
        for g, seq in alts:
            for t in seq:
                if t[0] != 's':
                    continue
                n += 1
                if t[2].startswith('arith:'):
                    consts = [float(x) for x in re.findall(r'(?<![\w.])(\d+(?:\.\d+)?)(?![\w.])', t[2])]
                    if all(_pow2(k) for k in consts) and consts:
                        r.ok(f'{c.name}.{t[1]}: scaled by a power of two')
                    elif (c.name, t[1]) not in seen:
                        seen.add((c.name, t[1]))
                        r.fail(f'{c.name}.__str__:{t[1]}:arith', f'{t[1]} is printed as {t[2][6:]}: the parser applies the inverse operation in floating point, and x*1000/1000 != x for some x (e.g. sub-second time bounds)', fi.where)
                elif t[2].startswith('format-spec') or t[2].endswith('()'):
                    r.fail(f'{c.name}.__str__:{t[1]}:format', f'{t[1]} is printed through {t[2]}: digits may be lost', fi.where)
    r.counts['slots'] = n
    return r


RULES = {'P1': P1, 'P2': P2, 'P3': P3, 'P5': P5, 'P6': P6}

"""E11 lattice rules L1-L4 (C20): DataType is a power set of seven base types
and cast / can_be / union are intersection / non-empty intersection / join.

Trusted: enum.Flag semantics of `&`, `|`, truthiness and `auto()`.
"""
from __future__ import annotations

from typing import FrozenSet, List, Optional, Tuple

from .ctx import Ctx
from .model import AnalysisError
from .report import RuleResult
from .terms import (Attr, Call, ClassRef, Const, EnumMember, Ext, Lam, Loop, Op, Opaque, Outcome, Sym, Term,
                    guards_repr, norm_guards, walk)

BASES = ('BOOL', 'NUMBER', 'STRING', 'ARRAY', 'RANGE', 'SET', 'MESSAGE')
UNIONS = {
    'NONE': frozenset(),
    'PRIMITIVE': frozenset({'BOOL', 'NUMBER', 'STRING'}),
    'ITEM': frozenset({'BOOL', 'NUMBER', 'STRING', 'MESSAGE'}),
    'COMPOUND': frozenset({'ARRAY', 'RANGE', 'SET'}),
    'ANY': frozenset(BASES),
}


def flagset(ctx: Ctx, t: Term, _depth: int = 0) -> Optional[FrozenSet[str]]:
    """fold a term built from DataType members with | and & into a set of base names"""
    dt = ctx.model.cls('DataType', 'L1')
    if _depth > 12:
        return None
    if isinstance(t, EnumMember) and t.cls == 'DataType':
        node = dt.enum_members.get(t.name)
        if node is None:
            return None
        src = ctx.ev.enum_value(t, 0)
        if isinstance(src, Call) and isinstance(src.func, Ext) and src.func.name.endswith('auto'):
            return frozenset({t.name})
        if isinstance(src, Const) and type(src.value) is int and src.value > 0:
            fb = ctx.ev.flag_bits(t)    # bits written out (1 << n): the base members that own them
            return frozenset(n for _, n in fb) if fb is not None else None
        return flagset(ctx, src, _depth + 1)
    if isinstance(t, Op) and t.op in ('|', '&') and len(t.args) == 2:
        a, b = flagset(ctx, t.args[0], _depth + 1), flagset(ctx, t.args[1], _depth + 1)
        if a is None or b is None:
            return None
        return a | b if t.op == '|' else a & b
    if isinstance(t, Call) and isinstance(t.func, ClassRef) and t.func.name == 'DataType' and len(t.args) == 1 and t.args[0] == Const(0):
        return frozenset()
    if isinstance(t, Call) and type(t.func).__name__ == 'FuncRef':
        fb = ctx.ev.flag_bits(t)     # built by a helper function of the package
        return frozenset(n for _, n in fb) if fb is not None else None
    if isinstance(t, Const) and isinstance(t.value, int) and not isinstance(t.value, bool) and t.value == 0:
        return frozenset()  # the empty flag written as 0
    return None


def L1(ctx: Ctx) -> RuleResult:
    r = RuleResult('L1', 'DataType: Flag with seven auto() base members; NONE/PRIMITIVE/ITEM/COMPOUND/ANY are the stated sets')
    dt = ctx.model.cls('DataType', 'L1')
    if not dt.is_flag:
        r.fail('DataType', 'DataType is not an enum.Flag: set algebra of & and | is not available', dt.where)
        return r
    bases = []
    for name in dt.enum_members:
        fs = flagset(ctx, EnumMember('DataType', name))
        if fs is None:
            raise AnalysisError('L1', f'cannot fold DataType.{name}')
        if fs == frozenset({name}):
            bases.append(name)
            r.ok(f'DataType.{name} = auto() base member')
        elif name in UNIONS:
            if fs == UNIONS[name]:
                r.ok(f'DataType.{name} = {{{",".join(sorted(fs))}}}')
            else:
                r.fail(f'DataType.{name}', f'alias {name} denotes {sorted(fs)} instead of {sorted(UNIONS[name])}', dt.where, sorted(UNIONS[name]), sorted(fs))
        else:
            r.ok(f'DataType.{name} = extra alias {sorted(fs)}')
            r.notes.append(f'extra alias DataType.{name} = {sorted(fs)} (accepted)')
    for b in BASES:
        if b not in bases:
            r.fail(f'DataType.{b}', f'base member {b} missing or not an auto() member', dt.where)
    for b in bases:
        if b not in BASES:
            r.fail(f'DataType.{b}', f'unexpected eighth base member {b}: ANY / the unions no longer cover the lattice', dt.where)
    for u in UNIONS:
        if u not in dt.enum_members:
            r.fail(f'DataType.{u}', f'alias {u} missing', dt.where)
    r.floor('members', len(dt.enum_members), 12)
    return r


def _is_inter(t: Term, a: Term, b: Term) -> bool:
    return isinstance(t, Op) and t.op == '&' and len(t.args) == 2 and set(t.args) == {a, b} and a != b


def _empty_test(ctx: Ctx, t: Term) -> Optional[Tuple[Term, bool]]:
    """if `t` tests a flag value x for (non-)emptiness return (x, True if t means non-empty)"""
    if isinstance(t, Call) and isinstance(t.func, Ext) and t.func.name == 'bool' and len(t.args) == 1:
        return (t.args[0], True)
    if isinstance(t, Op) and t.op in ('==', 'is', '!=', 'is not') and len(t.args) == 2:
        a, b = t.args
        for x, y in ((a, b), (b, a)):
            fs = flagset(ctx, y)
            if fs is not None and not fs:
                return (x, t.op in ('!=', 'is not'))
            if y == Const(0) and isinstance(x, Attr) and x.name == 'value':
                return (x.base, t.op in ('!=', 'is not'))
            if y == Const(0):
                # Flag.__eq__ against int 0 is always False: not an emptiness test
                return None
    if isinstance(t, Op) and t.op == '>' and t.args[1] == Const(0) and isinstance(t.args[0], Attr) and t.args[0].name == 'value':
        return (t.args[0].base, True)
    if isinstance(t, Op) and t.op == 'not':
        inner = _empty_test(ctx, t.args[0])
        if inner:
            return (inner[0], not inner[1])
        return (t.args[0], False)
    if isinstance(t, (Op, Sym, Attr)):
        return (t, True)  # truthiness of a Flag value
    return None


def L2(ctx: Ctx) -> RuleResult:
    r = RuleResult('L2', 'DataType.cast(t): return self & t; raise TypeError iff the intersection is empty')
    fi = ctx.model.method('DataType', 'cast', 'L2')
    s, t = Sym('self', 'DataType'), Sym('t', 'DataType')
    outs = ctx.ev.run(fi, {'self': s, 't': t})
    if not outs:
        raise AnalysisError('L2', 'no outcome extracted from DataType.cast')
    saw_raise = saw_ret = False
    for o in outs:
        gs = norm_guards(o.guards)
        nonempty_proved = False
        empty_proved = False
        for g, pol in gs:
            et = _empty_test(ctx, g)
            if et and _is_inter(et[0], s, t):
                if et[1] == pol:
                    nonempty_proved = True
                else:
                    empty_proved = True
        desc = f'[{guards_repr(gs)}] {o.kind} {o.value!r}'
        if o.kind == 'raise':
            exc = o.value
            is_te = isinstance(exc, Call) and isinstance(exc.func, Ext) and exc.func.name == 'TypeError'
            if not is_te:
                r.fail('DataType.cast:raise', f'raises {exc!r}, not TypeError', fi.where)
            elif not empty_proved:
                r.fail('DataType.cast:raise', f'TypeError raised on a path not guarded by "self & t is empty": {desc}', fi.where)
            else:
                saw_raise = True
                r.ok(desc)
        elif o.kind == 'return':
            if not _is_inter(o.value, s, t):
                r.fail('DataType.cast:return', f'returns {o.value!r} instead of the intersection self & t: {desc}', fi.where, 'self & t', repr(o.value))
            elif not nonempty_proved:
                r.fail('DataType.cast:return', f'returns on a path that did not establish a non-empty intersection: {desc}', fi.where)
            else:
                saw_ret = True
                r.ok(desc)
        else:
            r.fail('DataType.cast:fall', f'path falls off the end (returns None): {desc}', fi.where)
    if not saw_raise:
        r.fail('DataType.cast:no-raise', 'no path raises TypeError for an empty intersection', fi.where)
    if not saw_ret:
        r.fail('DataType.cast:no-return', 'no path returns the intersection', fi.where)
    return r


def _is_nonempty_inter(ctx: Ctx, v: Term, a: Term, b_set: Optional[FrozenSet[str]] = None, b: Optional[Term] = None) -> bool:
    et = _empty_test(ctx, v)
    if not et or not et[1]:
        return False
    x = et[0]
    if not (isinstance(x, Op) and x.op == '&' and len(x.args) == 2):
        return False
    for p, q in (x.args, x.args[::-1]):
        if p == a:
            if b is not None and q == b:
                return True
            if b_set is not None and flagset(ctx, q) == b_set:
                return True
    return False


def L3(ctx: Ctx) -> RuleResult:
    r = RuleResult('L3', 'can_be(t) == bool(self & t); can_be_<base> == bool(self & <base>)')
    s, t = Sym('self', 'DataType'), Sym('t', 'DataType')
    fi = ctx.model.method('DataType', 'can_be', 'L3')
    outs = ctx.ev.run(fi, {'self': s, 't': t})
    for o in outs:
        if o.kind == 'return' and not o.guards and _is_nonempty_inter(ctx, o.value, s, b=t):
            r.ok(f'can_be -> {o.value!r}')
        else:
            r.fail('DataType.can_be', f'not the non-empty-intersection test: [{guards_repr(o.guards)}] {o.kind} {o.value!r}', fi.where, 'bool(self & t)', repr(o.value))
    dt = ctx.model.cls('DataType')
    n = 0
    for base in BASES:
        name = f'can_be_{base.lower()}'
        m = dt.methods.get(name)
        if m is None:
            raise AnalysisError('L3', f'DataType.{name} not found (anchor vanished)')
        n += 1
        outs = ctx.ev.run(m, {'self': s})
        for o in outs:
            if o.kind == 'return' and not o.guards and _is_nonempty_inter(ctx, o.value, s, b_set=frozenset({base})):
                r.ok(f'{name} -> {o.value!r}')
            else:
                r.fail(f'DataType.{name}', f'does not test overlap with exactly {base}: [{guards_repr(o.guards)}] {o.kind} {o.value!r}', m.where, f'bool(self & DataType.{base})', repr(o.value))
    r.floor('can_be_x', n, 7)
    return r


def L4(ctx: Ctx) -> RuleResult:
    r = RuleResult('L4', 'DataType.union == fold of | over all elements starting from the empty set')
    fi = ctx.model.method('DataType', 'union', 'L4')
    types = Sym('types')
    from .terms import Evaluator, helper_inline
    outs = Evaluator(ctx.model, inline=helper_inline(('hpl.types',), exclude=('union',))).run(fi, {'types': types})
    rets = [o for o in outs if o.kind == 'return']
    if len(outs) != 1 or len(rets) != 1:
        for o in outs:
            if o.kind != 'return' or o.guards:
                r.fail('DataType.union:paths', f'unexpected extra path: {o!r}', fi.where)
        if not rets:
            raise AnalysisError('L4', 'DataType.union: no return outcome')
    o = rets[0]
    loops = [e for e in o.effects if isinstance(e, Loop)]
    v = o.value
    if not loops and isinstance(v, Call) and isinstance(v.func, Ext) and v.func.name in ('functools.reduce', 'reduce') and not v.kwargs:
        # reduce(or_, types, <empty>): the same left fold, written with the library combinator
        fn = v.args[0] if v.args else None
        is_or = (isinstance(fn, Ext) and fn.name in ('operator.or_', 'or_', 'operator.__or__')) or \
            (isinstance(fn, Lam) and len(fn.params) == 2 and isinstance(fn.body, Op) and fn.body.op == '|' and set(fn.body.args) == {Sym(f'lam:{fn.params[0]}'), Sym(f'lam:{fn.params[1]}')})
        if not is_or:
            r.fail('DataType.union:step', f'the fold combines with {fn!r}, not with |', fi.where, '|', repr(fn))
        else:
            r.ok('reduce with | (operator.or_)')
        if len(v.args) < 2 or v.args[1] != types:
            r.fail('DataType.union:iter', f'the fold iterates {v.args[1] if len(v.args) > 1 else None!r}, not all of the argument', fi.where)
        if len(v.args) < 3:
            r.fail('DataType.union:init', 'reduce() without an initial value: the union of no types raises TypeError instead of giving the empty set', fi.where)
        else:
            fs = flagset(ctx, v.args[2])
            if fs is None:
                raise AnalysisError('L4', f'cannot fold initial accumulator value {v.args[2]!r}')
            if fs:
                r.fail('DataType.union:init', f'fold starts from {sorted(fs)} instead of the empty set', fi.where, [], sorted(fs))
            else:
                r.ok('fold starts from the empty set')
        return r
    if len(loops) != 1:
        raise AnalysisError('L4', f'DataType.union: expected exactly one fold loop, found {len(loops)} (shape not interpretable)')
    lp = loops[0]
    if lp.iter != types:
        r.fail('DataType.union:iter', f'the fold iterates {lp.iter!r}, not all of the argument', fi.where)
    acc = None
    if isinstance(o.value, Opaque) and o.value.tag.startswith('loop:'):
        acc = o.value.tag[len('loop:'):]
    if acc is None:
        r.fail('DataType.union:return', f'returns {o.value!r}, not the accumulator of the fold', fi.where)
        return r
    # initial value: the accumulator on entry to the loop (wherever the loop sits after looking through helpers)
    init = dict(lp.inits).get(acc)
    if init is None:
        init = _initial_value(ctx, fi, acc)
    fs = flagset(ctx, init) if init is not None else None
    if fs is None:
        raise AnalysisError('L4', f'cannot fold initial accumulator value {init!r}')
    if fs:
        r.fail('DataType.union:init', f'fold starts from {sorted(fs)} instead of the empty set', fi.where, [], sorted(fs))
    else:
        r.ok(f'accumulator {acc} starts from the empty set')
    if lp.raises or lp.returns:
        r.fail('DataType.union:exit', 'the fold loop has an early exit (return/raise)', fi.where)
    elem = None
    for gs, flow, binds, effs in lp.paths:
        val = dict(binds).get(acc)
        prev = Opaque(f'loopvar:{acc}')
        ok = False
        if isinstance(val, Op) and val.op == '|' and len(val.args) == 2 and prev in val.args:
            other = val.args[0] if val.args[1] == prev else val.args[1]
            if isinstance(other, Sym) and other.name.startswith('each:'):
                ok = True
                elem = other
        if ok and flow == 'end' or ok and flow == 'continue':
            r.ok(f'[{guards_repr(gs)}] {acc} = {val!r}')
        elif flow == 'break':
            r.fail('DataType.union:break', f'the fold stops early under [{guards_repr(gs)}]', fi.where)
        else:
            r.fail('DataType.union:step', f'under [{guards_repr(norm_guards(gs))}] the element is not joined into the result ({acc} = {val!r})', fi.where, f'{acc} | element', repr(val))
    if not lp.paths:
        raise AnalysisError('L4', 'fold loop body has no path')
    return r


def L5(ctx: Ctx) -> RuleResult:
    r = RuleResult('L5', 'tables keyed by DataType members that are subscripted (table[member], no default) have an entry for each of the seven base types: naming / describing a type set never raises KeyError')
    import ast as _ast
    dt = ctx.model.cls('DataType', 'L5')
    bases = [n for n in dt.enum_members if flagset(ctx, EnumMember('DataType', n)) == frozenset({n})]
    n = 0
    for mod in ctx.model.modules.values():
        for name in list(mod.assigns):
            t = ctx.ev.global_term(mod, name)
            t = getattr(t, 'value', t) if type(t).__name__ == 'GlobalVal' else t
            if type(t).__name__ != 'DictT' or not t.items:
                continue
            keysets = [flagset(ctx, k) for k, _ in t.items]
            if not all(ks is not None and len(ks) == 1 for ks in keysets):
                continue   # not a table keyed by base types
            # is it subscripted somewhere (table[x]) rather than read with .get(x, default)?
            subscripted = [node for m2 in ctx.model.modules.values() for node in _ast.walk(m2.tree)
                           if isinstance(node, _ast.Subscript) and isinstance(node.value, _ast.Name) and node.value.id == name and isinstance(node.ctx, _ast.Load)
                           and (m2 is mod or m2.imports.get(name, (None, None))[0] == mod.name)]
            if not subscripted:
                continue
            n += 1
            have = set().union(*keysets)
            missing = [b for b in bases if b not in have]
            if missing:
                r.fail(f'{mod.name}.{name}', f'{name}[...] is looked up without a default but has no entry for {missing}: a type set containing {missing[0]} raises KeyError instead of being named', f'{mod.relpath}:{subscripted[0].lineno}', bases, sorted(have))
            else:
                r.ok(f'{mod.name}.{name}: all {len(bases)} base types have an entry')
    r.counts['subscripted tables keyed by base types'] = n
    if len(bases) != 7:
        raise AnalysisError('L5', f'expected seven base types, found {bases}')
    if not r.findings:
        r.ok('no partial table over the base types is subscripted')
    return r


def _initial_value(ctx: Ctx, fi, name: str) -> Optional[Term]:
    import ast
    from .terms import _State
    val = None
    for st in fi.node.body:
        if isinstance(st, (ast.For, ast.While)):
            break
        if isinstance(st, ast.Assign) and len(st.targets) == 1 and isinstance(st.targets[0], ast.Name) and st.targets[0].id == name:
            val = ctx.ev.expr(st.value, _State(), fi.module, fi, 0)
        if isinstance(st, ast.AnnAssign) and isinstance(st.target, ast.Name) and st.target.id == name and st.value is not None:
            val = ctx.ev.expr(st.value, _State(), fi.module, fi, 0)
    return val


RULES = {'L1': L1, 'L2': L2, 'L3': L3, 'L4': L4, 'L5': L5}

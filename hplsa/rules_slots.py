"""E2 class/slot protocol rules S1-S8: the per-class overrides of children(),
the reference queries, reshape, type_check_references, iterate and the event
level delegations agree with the slot table derived from the attrs fields."""
from __future__ import annotations

import ast
from itertools import product
from typing import Dict, List, Optional, Set, Tuple

from .ctx import Ctx
from .model import AnalysisError, ClassInfo, FieldInfo, FunctionInfo
from .report import RuleResult
from .terms import (Attr, Ite, BoundMethod, Call, ClassRef, Comp, Const, EnumMember, Evaluator, Ext, GlobalVal, Guard, Lam, helper_inline,
                    Loop, Op, Opaque, Outcome, Sub, Sym, Term, TupleT, alternatives, guards_repr, implied_literals, norm_guards, walk)
from .util import exists_form, all_terms, call_name, call_recv, is_self_attr, method_calls, none_test, outcome_terms


# ------------------------------------------------------------------ slot table
class Slot:
    def __init__(self, cls: ClassInfo, f: FieldInfo, kind: str, target: str):
        self.cls, self.f, self.kind, self.target = cls, f, kind, target  # kind: one|opt|many
        self.name = f.name

    def __repr__(self):
        return f'{self.cls.name}.{self.name}:{self.kind}'


def _slot_kind(ctx: Ctx, f: FieldInfo) -> Optional[Tuple[str, str]]:
    ann = f.annotation
    if ann is None:
        return None
    root = ctx.model.ast_root()
    names = [n.id for n in ast.walk(ann) if isinstance(n, ast.Name)] + [n.value for n in ast.walk(ann) if isinstance(n, ast.Constant) and isinstance(n.value, str)]
    target = None
    for n in names:
        r = ctx.model.resolve_name(f.cls.module, n)
        if r and r[0] == 'class' and root in r[1].mro():
            target = r[1].name
    if target is None:
        return None
    src = ast.unparse(ann)
    if src.startswith(('Tuple[', 'List[', 'Sequence[', 'Iterable[', 'typing.Tuple[')):
        return ('many', target)
    if src.startswith(('Optional[', 'typing.Optional[')) or 'None' in names:
        return ('opt', target)
    return ('one', target)


def slot_table(ctx: Ctx) -> Dict[str, List[Slot]]:
    def build():
        tab: Dict[str, List[Slot]] = {}
        for c in ctx.model.concrete_ast_classes():
            slots = []
            for f in c.fields():
                k = _slot_kind(ctx, f)
                if k:
                    slots.append(Slot(c, f, k[0], k[1]))
            tab[c.name] = slots
        return tab
    return ctx.memo('slots', build)


def S1(ctx: Ctx) -> RuleResult:
    r = RuleResult('S1', 'slot table: child fields of every concrete AST class (derived from attrs field annotations)')
    tab = slot_table(ctx)
    n = 0
    for cname, slots in tab.items():
        for s in slots:
            n += 1
            r.ok(f'{cname}.{s.name}: {s.kind} {s.target}')
    r.floor('concrete AST classes', len(tab), 20)
    r.floor('child slots', n, 23)
    return r


# ------------------------------------------------- enum-determined None-ness
def optional_facts(ctx: Ctx, c: ClassInfo) -> List[Dict[str, object]]:
    """Every consistent assignment {enum field: member, opt slot: is-None?} allowed by the
    attrs validators of `c` (read from the validators' raise paths)."""
    slots = [s for s in slot_table(ctx)[c.name] if s.kind == 'opt']
    enum_fields = []
    for f in c.fields():
        t = ctx.ev.ann_class(f.annotation, f.cls.module)
        if t is not None and t.is_enum:
            enum_fields.append((f, t))
    if not slots:
        return [{}]
    self_t = Sym('self', c.name)
    combos = []
    member_lists = [[(f.name, EnumMember(t.name, m)) for m in t.enum_members] for f, t in enum_fields]
    for choice in product(*member_lists) if member_lists else [()]:
        assume = {Attr(self_t, fname): mem for fname, mem in choice}
        ev = Evaluator(ctx.model, assume=assume, inline=helper_inline((c.module.name,)))   # a shared presence helper is looked through
        allowed: Dict[str, Set[bool]] = {}
        for s in slots:
            ok = {True, False}
            for v in c.all_validators(s.name):
                params = v.params()
                if len(params) < 3:
                    continue
                val = Sym('value')
                attr = Sym('attribute')
                raise_paths = []
                for o in ev.run(v, {params[0]: self_t, params[1]: attr, params[2]: val}):
                    if o.kind == 'raise':
                        raise_paths.append(tuple(o.guards))
                    # raises of a helper that was looked through appear as conditional effects
                    for e in o.effects:
                        for g_, leaf in alternatives(e):
                            if type(leaf).__name__ == 'Raises':
                                raise_paths.append(tuple(o.guards) + tuple(g_))
                for rguards in raise_paths:
                    need: Optional[bool] = None
                    unknown = False
                    for t, pol in (implied_literals(rguards, 10) or norm_guards(rguards)):
                        nt = none_test(t)
                        if nt and nt[0] == val:
                            need = nt[1] if pol else (not nt[1])
                        else:
                            unknown = True
                    if need is not None and not unknown:
                        ok.discard(need)
            allowed[s.name] = ok
        names = [s.name for s in slots]
        for vals in product(*[sorted(allowed[n]) for n in names]):
            d: Dict[str, object] = {fname: mem for fname, mem in choice}
            d.update({n: v for n, v in zip(names, vals)})
            combos.append(d)
    return combos


def _consistent(o: Outcome, self_t: Term, facts: Dict[str, object]) -> Optional[bool]:
    """False if some guard contradicts the None-ness facts; None if an uninterpreted guard remains"""
    unknown = False

    def ev(t: Term) -> Optional[bool]:
        nt = none_test(t)
        if nt and isinstance(nt[0], Attr) and nt[0].base == self_t and nt[0].name in facts:
            return nt[1] == facts[nt[0].name]
        if isinstance(t, Op) and t.op == 'and':
            vs = [ev(a) for a in t.args]
            if any(v is False for v in vs):
                return False
            if all(v is True for v in vs):
                return True
            return None
        if isinstance(t, Op) and t.op == 'or':
            vs = [ev(a) for a in t.args]
            if any(v is True for v in vs):
                return True
            if all(v is False for v in vs):
                return False
            return None
        if isinstance(t, Op) and t.op == 'not':
            v = ev(t.args[0])
            return None if v is None else (not v)
        if isinstance(t, Attr) and t.base == self_t and t.name in facts and isinstance(facts[t.name], bool):
            return not facts[t.name]  # truthiness of an AST object == not None
        return None

    for t, pol in o.guards:
        v = ev(t)
        if v is None:
            unknown = True
        elif v != pol:
            return False
    return None if unknown else True


def S2(ctx: Ctx) -> RuleResult:
    r = RuleResult('S2', 'children() returns exactly the non-None child slots of the class, each once')
    tab = slot_table(ctx)
    n = 0
    for cname, slots in tab.items():
        c = ctx.model.cls(cname)
        fi = c.resolve('children')
        if fi is None:
            raise AnalysisError('S2', f'{cname}.children not found')
        self_t = Sym('self', cname)
        for facts in optional_facts(ctx, c):
            assume = {Attr(self_t, k): v for k, v in facts.items() if isinstance(v, EnumMember)}
            ev = Evaluator(ctx.model, assume=assume)
            outs = ev.run(fi, {'self': self_t})
            expect = [s.name for s in slots if not (s.kind == 'opt' and facts.get(s.name) is True)]
            label = ','.join(f'{k}={"None" if v is True else "set" if v is False else v}' for k, v in facts.items())
            for o in outs:
                cons = _consistent(o, self_t, facts)
                if cons is False:
                    continue
                n += 1
                got = _returned_slots(o.value, self_t)
                key = f'{cname}.children'
                if got is None or o.kind != 'return':
                    r.fail(key, f'[{label}] cannot interpret returned value {o.value!r}', fi.where)
                    continue
                if sorted(got) != sorted(expect):
                    missing = sorted(set(expect) - set(got))
                    extra = sorted(set(got) - set(expect))
                    dup = sorted({g for g in got if got.count(g) > 1})
                    r.fail(key, f'[{label}] children() returns {got}; missing={missing} extra={extra} duplicated={dup}', fi.where, expect, got)
                else:
                    r.ok(f'{cname}[{label}].children = {got}')
    r.floor('children() paths', n, 20)
    return r


def _returned_slots(v: Optional[Term], self_t: Term) -> Optional[List[str]]:
    if v is None:
        return None
    if isinstance(v, TupleT):
        out = []
        for x in v.items:
            if isinstance(x, Attr) and x.base == self_t:
                out.append(x.name)
            elif isinstance(x, Op) and x.op == '*' and isinstance(x.args[0], Attr) and x.args[0].base == self_t:
                out.append(x.args[0].name)
            else:
                return None
        return out
    if isinstance(v, Attr) and v.base == self_t:
        return [v.name]
    if isinstance(v, Call) and isinstance(v.func, Ext) and v.func.name in ('tuple', 'list') and len(v.args) == 1:
        return _returned_slots(v.args[0], self_t)
    if isinstance(v, Op) and v.op == '+':
        a, b = _returned_slots(v.args[0], self_t), _returned_slots(v.args[1], self_t)
        if a is None or b is None:
            return None
        return a + b
    return None


# ------------------------------------------------------------- query coverage
BOOL_QUERIES = ('contains_reference', 'contains_self_reference', 'contains_definition')
SET_QUERIES = ('external_references',)

# leaves / binders: statements of the property (C15), keyed by resolved definition
# allowed removals from a reference set: (defining class, what is removed)
ALLOWED_REMOVALS = {
    'HplQuantifier.external_references': 'variable',
    'HplSimpleEvent.external_references': 'alias',
}


def _query_classes(ctx: Ctx, q: str) -> List[ClassInfo]:
    return [c for c in ctx.model.concrete_ast_classes() if c.resolve(q) is not None]


def _children_call(t: Term, self_t: Term) -> bool:
    return isinstance(t, Call) and call_name(t) == 'children' and call_recv(t) == self_t


def _iter_slots(it: Term, self_t: Term, slots: Optional[List] = None) -> Set[str]:
    """slots whose value(s) an iterable term enumerates: self.slot, (self.a, self.b), reversed(...), tuple(...)"""
    if isinstance(it, Attr) and it.base == self_t:
        return {it.name}
    if slots is not None and isinstance(it, Call) and call_name(it) == 'simple_events' and call_recv(it) == self_t and not it.args:
        # the leaves of an event disjunction: every alternative of both operands (S8 checks that enumeration)
        return {s_.name for s_ in slots}
    if isinstance(it, TupleT):
        out: Set[str] = set()
        for x in it.items:
            if isinstance(x, Op) and x.op == '*':
                x = x.args[0]
            if isinstance(x, Attr) and x.base == self_t:
                out.add(x.name)
        return out
    if isinstance(it, Call) and isinstance(it.func, Ext) and it.func.name in ('reversed', 'tuple', 'list', 'iter') and it.args:
        return _iter_slots(it.args[0], self_t)
    if isinstance(it, __import__('hplsa.terms', fromlist=['Ite']).Ite):
        return _iter_slots(it.a, self_t) | _iter_slots(it.b, self_t)
    return set()


def _consulted_slots(terms: List[Term], q: str, self_t: Term, slots: List[Slot]) -> Tuple[Set[str], bool]:
    """slots on which `q` is (recursively) called; second component: self.children() is iterated with q"""
    got: Set[str] = set()
    via_children = False
    for t in terms:
        for x in walk(t):
            if isinstance(x, Call) and call_name(x) == q:
                rc = call_recv(x)
                if isinstance(rc, Attr) and rc.base == self_t:
                    got.add(rc.name)
            if isinstance(x, Comp):
                calls_q = any(isinstance(y, Call) and call_name(y) == q and isinstance(call_recv(y), Sym) and call_recv(y).name.startswith('each:')
                              for part in (x.elt,) + tuple(it for _, it, _ in x.gens[1:]) for y in walk(part))   # {n for c in children for n in c.q()}
                if calls_q:
                    for _, it, _ in x.gens:
                        if _children_call(it, self_t):
                            via_children = True
                        got.update(_iter_slots(it, self_t, slots))
            if isinstance(x, Loop):
                calls_q = any(isinstance(y, Call) and call_name(y) == q and isinstance(call_recv(y), Sym) and call_recv(y).name.startswith('each:') for e in x.effects for y in walk(e)) or \
                    any(isinstance(y, Call) and call_name(y) == q and isinstance(call_recv(y), Sym) and call_recv(y).name.startswith('each:') for p in x.paths for _, v in p[2] for y in walk(v)) or \
                    any(isinstance(y, Call) and call_name(y) == q and isinstance(call_recv(y), Sym) and call_recv(y).name.startswith('each:')
                        for gs in [rg for rg, _ in x.returns] + [rg for rg, _ in x.raises] + [p[0] for p in x.paths] for g, _ in gs for y in walk(g))
                if calls_q:
                    if _children_call(x.iter, self_t):
                        via_children = True
                    got.update(_iter_slots(x.iter, self_t, slots))
    return got, via_children


def S3(ctx: Ctx) -> RuleResult:
    r = RuleResult('S3', 'reference queries cover every child slot of every class, combine with or/union, and implement the leaf/binder base cases')
    tab = slot_table(ctx)
    n = 0
    scanned: Dict[str, bool] = {}
    for q in BOOL_QUERIES + SET_QUERIES:
        for c in _query_classes(ctx, q):
            fi = c.resolve(q)
            slots = tab[c.name]
            self_t = Sym('self', c.name)
            outs = ctx.ev.run(fi, {'self': self_t}, self_cls=c)
            terms = all_terms(outs)
            if all(o.kind == 'raise' for o in outs):
                names = {call_name(o.value) or repr(o.value) for o in outs if isinstance(o.value, Call)}
                if 'NotImplementedError' in names:
                    r.fail(f'{c.name}.{q}', 'query resolves to an abstract stub (NotImplementedError) on a concrete class', fi.where)
                    continue
            need = {s.name for s in slots}
            key = f'{c.name}.{q}'
            if q in BOOL_QUERIES and _scan_query(ctx, r, c, fi, q, self_t, scanned):
                n += 1
                r.ok(f'{key}: flat scan of self.iterate() [{fi.cls.name}]')
                continue
            got, via_children = _consulted_slots(terms, q, self_t, slots)
            n += 1
            if via_children or need <= got:
                r.ok(f'{key} via {"children()" if via_children else sorted(got) or "no slots"} [{fi.cls.name}]')
            else:
                r.fail(key, f'{q} resolved in {fi.cls.name} does not consult slot(s) {sorted(need - got)}', fi.where, sorted(need), sorted(got))
            # a boolean "occurs anywhere below" query of a node with children answers False only through its children
            if q in BOOL_QUERIES and need:
                for o in outs:
                    asked = any(isinstance(x, Call) and call_name(x) == q for g, _ in o.guards for x in walk(g)) or \
                        any(isinstance(x, Call) and call_name(x) == q for e in o.effects for x in walk(e)) or \
                        any(isinstance(e, Loop) and any(isinstance(x, Call) and call_name(x) == q for gs in [rg for rg, _ in e.returns] + [pp[0] for pp in e.paths] for g, _ in gs for x in walk(g)) for e in o.effects)
                    if o.kind == 'return' and o.value == Const(False) and not asked:
                        r.fail(key + ':shortcut', f'{q} answers False under [{guards_repr(norm_guards(o.guards))[:100]}] without asking the children: occurrences below this node are not reported', fi.where)
            # combiner polarity
            for o in outs:
                if o.kind != 'return' or o.value is None:
                    continue
                bad = _bad_combiner(o.value, q)
                if bad:
                    r.fail(key + ':combine', f'{q} combines child results with {bad} instead of {"or/any" if q in BOOL_QUERIES else "union"}', fi.where)
            if q in SET_QUERIES:
                _check_set_query(ctx, r, c, fi, q, outs, self_t)
    _leaf_rules(ctx, r, {k for k, v in scanned.items() if v})
    r.floor('(class, query) pairs', n, 50)
    return r


# what the element test of a flat scan must say about a node of each class: the base cases of the recursive form
SCAN_LEAF = {
    'contains_reference': ('HplVarReference', 'name'),
    'contains_self_reference': ('HplThisMessage', None),
    'contains_definition': ('HplQuantifier', 'variable'),
}


def _scan_query(ctx: Ctx, r: RuleResult, c: ClassInfo, fi: FunctionInfo, q: str, self_t: Term, scanned: Dict[str, bool]) -> bool:
    """The query is written as `some node of self.iterate() satisfies <test>` instead of recursing through the children:
    every descendant is covered when iterate() is the whole-subtree walk (S7's criterion, re-checked here), and the
    test must be, for each class of node, exactly the base case of the recursive definition."""
    from .terms import subst
    if fi.key in scanned:
        return scanned[fi.key]
    scanned[fi.key] = False
    params = fi.params()
    alias = Sym('alias')
    base_t = Sym('self', fi.cls.name)
    outs = ctx.ev.run(fi, {'self': base_t, **({params[1]: alias} if len(params) > 1 else {})})
    ef = exists_form(ctx.ev, outs)
    descent = _descent_form(ctx, fi, outs, base_t) if ef is None else None
    if ef is None and descent is None:
        return False
    if descent is not None:
        # q(x) = self._h(test), _h the uniform descent `test(self) or any(c._h(test) for c in self.children())`: the same
        # as "some node of the sub-tree satisfies test" provided children() lists every slot (S1/S2)
        each, cond = descent
        it = None
    else:
        it, each, cond = ef
        if not (isinstance(it, Call) and call_name(it) == 'iterate' and call_recv(it) == base_t and not it.args and not it.kwargs):
            return False
    scanned[fi.key] = True
    key = f'{fi.cls.name}.{q}'
    for wfi in ({id(k.resolve('iterate')): k.resolve('iterate') for k in ctx.model.subclasses(fi.cls) if k.resolve(q) is fi}.values() if it is not None else ()):
        if wfi is None:
            r.fail(key + ':walk', 'the scanned walk iterate() is not defined', fi.where)
            continue
        w_self = Sym('self', wfi.cls.name)
        why = _preorder_ok(ctx.ev.run(wfi, {'self': w_self}), w_self, 'children', 'iterate')
        if why:
            r.fail(key + ':walk', f'{q} scans self.iterate(), which does not reach every node of the sub-tree: {why}', wfi.where)
    leaf, attr = SCAN_LEAF[q]
    for k in ctx.model.concrete_ast_classes():
        if k.resolve(q) is not fi:
            continue
        k_self = Sym('self', k.name)
        got = ctx.ev.refold(subst(cond, {each: k_self}))
        if k.name == leaf or any(b.name == leaf for b in k.mro()):
            if attr is None:
                ok = got == Const(True)
                want = 'True'
            else:
                at = ctx.ev.attr(k_self, attr, __import__('hplsa.terms', fromlist=['_State'])._State(), 0)
                ok = isinstance(got, Op) and got.op == '==' and set(got.args) == {alias, at}
                want = f'alias == self.{attr}'
        else:
            ok = got == Const(False)
            want = 'False'
        if not ok:
            r.fail(f'{k.name}.{q}:scan', f'the element test of the flat scan says {got!r} about a {k.name} node, expected {want}', fi.where, want, repr(got))
    return True


def _descent_form(ctx: Ctx, fi: FunctionInfo, outs: List[Outcome], base_t: Term) -> Optional[Tuple[Term, Term]]:
    """(each, condition on each) when the query is `return self._h(test)` and _h is, for every class below, the one
    recursive descent `if test(self): return True; return any(c._h(test) for c in self.children())`"""
    from .terms import _State
    inlined_test = None
    if len(outs) == 2 and all(o.kind == 'return' and len(norm_guards(o.guards)) == 1 for o in outs):
        # the first level of the descent already looked through: [test(self)] True / [not test(self)] any(c._h(test) ...)
        hit = next((o for o in outs if norm_guards(o.guards)[0][1] and o.value == Const(True)), None)
        miss = next((o for o in outs if not norm_guards(o.guards)[0][1]), None)
        mv = miss.value if miss is not None else None
        if hit is not None and miss is not None and norm_guards(hit.guards)[0][0] == norm_guards(miss.guards)[0][0] \
                and isinstance(mv, Call) and isinstance(mv.func, Ext) and mv.func.name == 'any' and len(mv.args) == 1 and isinstance(mv.args[0], Comp) and len(mv.args[0].gens) == 1:
            tgt0, it0, ifs0 = mv.args[0].gens[0]
            elt0 = mv.args[0].elt
            if not ifs0 and isinstance(it0, Call) and call_name(it0) == 'children' and call_recv(it0) == base_t and isinstance(elt0, Call) and call_name(elt0) is not None \
                    and call_recv(elt0) == Sym(f'each:{tgt0}') and len(elt0.args) == 1 and not elt0.kwargs:
                on_self = ctx.ev.apply(elt0.args[0], (base_t,), (), _State(), 0)
                h0 = fi.cls.resolve(call_name(elt0))
                if on_self == norm_guards(hit.guards)[0][0] and h0 is not None:
                    inlined_test = norm_guards(hit.guards)[0][0]
                    v = Call(BoundMethod(base_t, h0.key, h0.name), elt0.args)
    if inlined_test is None:
        if len(outs) != 1 or outs[0].kind != 'return' or outs[0].guards:
            return None
        v = outs[0].value
    if not (isinstance(v, Call) and isinstance(v.func, BoundMethod) and v.func.recv == base_t and len(v.args) == 1 and not v.kwargs):
        return None
    hfi = ctx.ev.callee(v.func)
    if hfi is None or hfi.cls is None or ctx.model.overrides(hfi.cls, hfi.name) or len(hfi.params()) != 2:
        return None
    test = Sym('test')
    h_self = Sym('self', hfi.cls.name)
    houts = ctx.ev.run(hfi, {'self': h_self, hfi.params()[1]: test})
    applied = Call(test, (h_self,))
    shape_ok = False
    rec = None
    if len(houts) == 2 and all(o.kind == 'return' for o in houts):
        hit = next((o for o in houts if any(g == applied and pol for g, pol in norm_guards(o.guards))), None)
        miss = next((o for o in houts if any(g == applied and not pol for g, pol in norm_guards(o.guards))), None)
        if hit is not None and miss is not None and hit.value == Const(True) and len(norm_guards(hit.guards)) == 1 and len(norm_guards(miss.guards)) == 1:
            rec = miss.value
    elif len(houts) == 1 and houts[0].kind == 'return' and not houts[0].guards and isinstance(houts[0].value, Op) and houts[0].value.op == 'or' \
            and len(houts[0].value.args) == 2 and houts[0].value.args[0] == applied:
        rec = houts[0].value.args[1]
    if isinstance(rec, Call) and isinstance(rec.func, Ext) and rec.func.name == 'any' and len(rec.args) == 1 and isinstance(rec.args[0], Comp) and len(rec.args[0].gens) == 1:
        tgt, it, ifs = rec.args[0].gens[0]
        e = Sym(f'each:{tgt}')
        elt = rec.args[0].elt
        shape_ok = not ifs and isinstance(it, Call) and call_name(it) == 'children' and call_recv(it) == h_self and not it.args \
            and isinstance(elt, Call) and call_recv(elt) == e and call_name(elt) == hfi.name and elt.args == (test,)
    if not shape_ok:
        return None
    each = Sym('each:node')
    arg = v.args[0]
    cond = ctx.ev.apply(arg, (each,), (), _State(), 0)
    if isinstance(cond, Call) and cond.func == arg:
        return None     # the test could not be applied (not a lambda / a function of the package)
    return each, cond


def _bad_combiner(v: Term, q: str) -> Optional[str]:
    def has_q(t: Term) -> bool:
        return any(isinstance(y, Call) and call_name(y) == q for y in walk(t))
    for x in walk(v):
        if q in BOOL_QUERIES:
            if isinstance(x, Op) and x.op == 'and' and sum(1 for a in x.args if has_q(a)) >= 2:
                return '"and"'
            if isinstance(x, Call) and isinstance(x.func, Ext) and x.func.name == 'all' and x.args and has_q(x.args[0]):
                return 'all()'
            if isinstance(x, Op) and x.op == 'not' and has_q(x.args[0]):
                return 'a negation'
        else:
            if isinstance(x, Op) and x.op in ('&', '^') and all(has_q(a) for a in x.args):
                return f'"{x.op}"'
            if isinstance(x, Call) and call_name(x) in ('intersection', 'symmetric_difference') and has_q(x):
                return call_name(x)
    return None


def _check_set_query(ctx: Ctx, r: RuleResult, c: ClassInfo, fi: FunctionInfo, q: str, outs: List[Outcome], self_t: Term):
    key = f'{c.name}.{q}'
    defkey = f'{fi.cls.name}.{q}'
    removed: List[Term] = []
    for o in outs:
        for t in outcome_terms(o):
            for x in walk(t):
                if isinstance(x, Call) and call_name(x) in ('remove', 'discard', 'difference', 'difference_update', 'pop'):
                    removed.append(x.args[0] if x.args else Opaque('pop'))
                if isinstance(x, Op) and x.op == '-':
                    removed.append(x.args[1])
        if o.kind == 'return' and isinstance(o.value, GlobalVal):
            r.fail(key + ':shared', f'{q} returns the module-level container {o.value!r}: callers that update the result pollute every later query', fi.where)
    allowed = ALLOWED_REMOVALS.get(defkey)
    for x in removed:
        attr = None
        for y in walk(x):
            if isinstance(y, Attr) and y.base == self_t:
                attr = y.name
        if allowed is not None and attr == allowed:
            continue
        r.fail(key + ':removal', f'{q} removes {x!r} from the reference set; only {defkey.split(".")[0]}.{allowed or "<nothing>"} may be removed here', fi.where, allowed, repr(x))
    if allowed is not None and not any(any(isinstance(y, Attr) and y.base == self_t and y.name == allowed for y in walk(x)) for x in removed):
        if fi.cls.name == defkey.split('.')[0]:
            r.fail(key + ':binder', f'{q} no longer removes self.{allowed} (bound name would be reported as free)', fi.where)


def _single_return(ctx: Ctx, c: ClassInfo, name: str, args: Dict[str, Term]) -> Tuple[FunctionInfo, List[Outcome]]:
    fi = c.resolve(name)
    if fi is None:
        raise AnalysisError('S3', f'{c.name}.{name} not found (anchor vanished)')
    self_t = Sym('self', c.name)
    a = {'self': self_t}
    a.update(args)
    return fi, ctx.ev.run(fi, a, self_cls=c)


def _leaf_rules(ctx: Ctx, r: RuleResult, scan_defs: Set[str] = frozenset()):
    m = ctx.model
    alias = Sym('alias')

    def is_scan(cname: str, q: str) -> bool:
        fi0 = m.cls(cname, 'S3').resolve(q)
        return fi0 is not None and fi0.key in scan_defs
    # HplVarReference
    vr = m.cls('HplVarReference', 'S3')
    self_t = Sym('self', 'HplVarReference')
    name_term = ctx.ev.attr(self_t, 'name', __import__('hplsa.terms', fromlist=['_State'])._State(), 0)
    # name == token[1:]
    want_name = Sub(Attr(self_t, 'token'), __import__('hplsa.terms', fromlist=['SliceT']).SliceT(Const(1), None, None))
    if name_term == want_name:
        r.ok('HplVarReference.name = token[1:] (VAR_REF: "@" CNAME)')
    else:
        r.fail('HplVarReference.name', f'name is {name_term!r}, expected the token without its leading "@"', vr.where, 'token[1:]', repr(name_term))
    fi, outs = _single_return(ctx, vr, 'external_references', {})
    ok = len(outs) == 1 and outs[0].kind == 'return' and isinstance(outs[0].value, TupleT) and outs[0].value.kind == 'set' and outs[0].value.items == (name_term,)
    (r.ok('HplVarReference.external_references = {name}') if ok else r.fail('HplVarReference.external_references', f'expected {{self.name}}, got {[str(o) for o in outs]}', fi.where))
    fi, outs = _single_return(ctx, vr, 'contains_reference', {fi2: alias for fi2 in ['alias']})
    params = fi.params()
    if len(params) >= 2:
        outs = ctx.ev.run(fi, {'self': self_t, params[1]: alias}, self_cls=vr)
    ok = len(outs) == 1 and outs[0].kind == 'return' and isinstance(outs[0].value, Op) and outs[0].value.op == '==' and set(outs[0].value.args) == {alias, name_term}
    if not is_scan('HplVarReference', 'contains_reference'):
        (r.ok('HplVarReference.contains_reference(a) = (a == name)') if ok else r.fail('HplVarReference.contains_reference', f'expected alias == self.name, got {[str(o) for o in outs]}', fi.where))
    # HplThisMessage.contains_self_reference -> True ; others' leaves False
    tm = m.cls('HplThisMessage', 'S3')
    fi, outs = _single_return(ctx, tm, 'contains_self_reference', {})
    ok = len(outs) == 1 and outs[0].kind == 'return' and outs[0].value == Const(True)
    if not is_scan('HplThisMessage', 'contains_self_reference'):
        (r.ok('HplThisMessage.contains_self_reference = True') if ok else r.fail('HplThisMessage.contains_self_reference', f'expected True, got {[str(o) for o in outs]}', fi.where))
    for cname in ('HplLiteral', 'HplVarReference'):
        c = m.cls(cname, 'S3')
        if is_scan(cname, 'contains_self_reference'):
            continue
        fi, outs = _single_return(ctx, c, 'contains_self_reference', {})
        ok = len(outs) == 1 and outs[0].kind == 'return' and outs[0].value == Const(False)
        (r.ok(f'{cname}.contains_self_reference = False') if ok else r.fail(f'{cname}.contains_self_reference', f'expected False, got {[str(o) for o in outs]}', fi.where))
    for cname in ('HplLiteral', 'HplThisMessage'):
        c = m.cls(cname, 'S3')
        for q in ('contains_reference', 'contains_definition'):
            if is_scan(cname, q):
                continue
            fi, outs = _single_return(ctx, c, q, {})
            ok = len(outs) == 1 and outs[0].kind == 'return' and outs[0].value == Const(False)
            (r.ok(f'{cname}.{q} = False') if ok else r.fail(f'{cname}.{q}', f'expected False, got {[str(o) for o in outs]}', fi.where))
        fi, outs = _single_return(ctx, c, 'external_references', {})
        ok = len(outs) == 1 and outs[0].kind == 'return' and _is_fresh_empty_set(outs[0].value)
        (r.ok(f'{cname}.external_references = fresh empty set') if ok else r.fail(f'{cname}.external_references', f'expected a fresh empty set, got {[str(o) for o in outs]}', fi.where))
    fi, outs = _single_return(ctx, m.cls('HplVarReference'), 'contains_definition', {})
    ok = len(outs) == 1 and outs[0].kind == 'return' and outs[0].value == Const(False)
    if not is_scan('HplVarReference', 'contains_definition'):
        (r.ok('HplVarReference.contains_definition = False') if ok else r.fail('HplVarReference.contains_definition', f'expected False, got {[str(o) for o in outs]}', fi.where))
    # HplQuantifier.contains_definition: True when alias == variable, else recursion
    qc = m.cls('HplQuantifier', 'S3')
    fi = qc.resolve('contains_definition')
    self_q = Sym('self', 'HplQuantifier')
    params = fi.params()
    outs = ctx.ev.run(fi, {'self': self_q, params[1]: alias}, self_cls=qc)
    early = [o for o in outs if o.kind == 'return' and o.value == Const(True)]
    ok = False
    for o in early:
        for t, pol in norm_guards(o.guards):
            if pol and isinstance(t, Op) and t.op == '==' and set(t.args) == {alias, Attr(self_q, 'variable')}:
                ok = True
    for o in outs:
        # ... or as one disjunction: return alias == self.variable or <the children>
        if o.kind == 'return' and isinstance(o.value, Op) and o.value.op == 'or' and any(isinstance(t, Op) and t.op == '==' and set(t.args) == {alias, Attr(self_q, 'variable')} for t in o.value.args):
            ok = True
    if not is_scan('HplQuantifier', 'contains_definition'):
        (r.ok('HplQuantifier.contains_definition(a): a == variable -> True') if ok else r.fail('HplQuantifier.contains_definition:binder', 'no path returns True when the alias equals the bound variable', fi.where))


def _is_fresh_empty_set(v: Optional[Term]) -> bool:
    if isinstance(v, Call) and isinstance(v.func, Ext) and v.func.name == 'set' and not v.args:
        return True
    return isinstance(v, TupleT) and v.kind == 'set' and not v.items


# --------------------------------------------------------------------- reshape
def _f_of(x: Term, f: Term) -> Optional[Term]:
    if isinstance(x, Call) and x.func == f and len(x.args) == 1 and not x.kwargs:
        return x.args[0]
    return None


def _deep_of(x: Term, f: Term) -> Optional[Term]:
    """x == recv.reshape(f, deep=True)  ->  recv"""
    if isinstance(x, Call) and call_name(x) == 'reshape':
        ok_f = (x.args and x.args[0] == f) or x.kw('f') == f
        deep = x.kw('deep') if x.kw('deep') is not None else (x.args[1] if len(x.args) > 1 else None)
        if ok_f and deep == Const(True):
            return call_recv(x)
    return None


def _slot_value_ok(v: Term, slot: Slot, self_t: Term, f: Term, deep: bool) -> Optional[str]:
    """None if v is the expected image of the slot under reshape, else a reason"""
    src = Attr(self_t, slot.name)
    if slot.kind in ('one', 'opt'):
        inner = _f_of(v, f)
        if inner is None:
            return f'{slot.name} is not passed through f: {v!r}'
        if deep:
            rc = _deep_of(inner, f)
            if rc is None:
                return f'deep arm does not recurse with deep=True before applying f on {slot.name}: {inner!r}'
            if rc != src:
                return f'deep arm recurses into {rc!r} instead of self.{slot.name}'
        elif inner != src:
            return f'shallow arm applies f to {inner!r} instead of self.{slot.name}'
        return None
    # many
    comp = v
    if isinstance(comp, Call) and isinstance(comp.func, Ext) and comp.func.name in ('tuple', 'list') and len(comp.args) == 1:
        comp = comp.args[0]
    if not isinstance(comp, Comp) or len(comp.gens) != 1:
        return f'{slot.name} is not rebuilt element-wise: {v!r}'
    tgt, it, ifs = comp.gens[0]
    if it != src or ifs:
        return f'{slot.name} is rebuilt from {it!r}{" with a filter" if ifs else ""} instead of all of self.{slot.name}'
    each = Sym(f'each:{tgt}')
    inner = _f_of(comp.elt, f)
    if inner is None:
        return f'elements of {slot.name} are not passed through f: {comp.elt!r}'
    if deep:
        rc = _deep_of(inner, f)
        if rc != each:
            return f'deep arm does not recurse into each element of {slot.name} with deep=True: {inner!r}'
    elif inner != each:
        return f'shallow arm applies f to {inner!r} instead of each element'
    return None


def _identity_guard_ok(o: Outcome, slots: List[Slot], self_t: Term, new_vals: Dict[str, Term]) -> Optional[str]:
    """the path returning `self` must have established that every slot is unchanged"""
    gs = norm_guards(o.guards)
    established: Set[str] = set()
    for t, pol in gs:
        conj = list(t.args) if isinstance(t, Op) and t.op == 'and' else [t]
        if not pol:
            # not(a and b) establishes nothing; `not (x is not y)` handled by norm_guard only for top-level
            if isinstance(t, Op) and t.op == 'is not' and len(t.args) == 2:
                conj, pol = [Op('is', t.args)], True
            else:
                continue
        for cj in conj:
            if isinstance(cj, Op) and cj.op == 'is' and len(cj.args) == 2:
                a, b = cj.args
                for s in slots:
                    src = Attr(self_t, s.name)
                    if (a == src or b == src):
                        established.add(s.name)
            if isinstance(cj, Op) and cj.op == 'loop-completes':
                # for/else idiom: every body path that does not break must be `new is old`
                lp = None
                for e in o.effects:
                    if isinstance(e, Loop) and e.iter == cj.args[0]:
                        lp = e
                if lp is None:
                    continue
                zipped = lp.iter
                srcs = [x for x in walk(zipped) if isinstance(x, Attr) and x.base == self_t]
                good = True
                for pg, flow, binds, effs in lp.paths:
                    tests = norm_guards(pg)
                    if flow == 'break':
                        if not any(isinstance(tt, Op) and ((tt.op == 'is not' and pp) or (tt.op == 'is' and not pp)) for tt, pp in tests):
                            good = False
                    elif flow == 'end':
                        if not any(isinstance(tt, Op) and ((tt.op == 'is not' and not pp) or (tt.op == 'is' and pp)) for tt, pp in tests):
                            good = False
                if good and lp.paths:
                    for s in slots:
                        if Attr(self_t, s.name) in srcs:
                            established.add(s.name)
            if isinstance(cj, Call) and isinstance(cj.func, Ext) and cj.func.name == 'all' and cj.args and isinstance(cj.args[0], Comp):
                comp = cj.args[0]
                if isinstance(comp.elt, Op) and comp.elt.op == 'is':
                    for _, it, ifs in comp.gens:
                        for x in walk(it):
                            if isinstance(x, Attr) and x.base == self_t:
                                established.add(x.name)
            if isinstance(cj, Call) and isinstance(cj.func, Ext) and cj.func.name == 'any':
                return 'identity shortcut taken when ANY element is unchanged (must be ALL)'
    missing = [s.name for s in slots if s.name not in established]
    if missing:
        return f'returns self without establishing that slot(s) {missing} are unchanged'
    return None


def S4(ctx: Ctx) -> RuleResult:
    r = RuleResult('S4', 'reshape: every slot of every expression class passes through f in both arms; deep arm recurses first; rebuild via but() with every slot; identity only when all unchanged')
    tab = slot_table(ctx)
    expr_root = ctx.model.cls('HplExpression', 'S4')
    f = Sym('f')
    n = 0
    for c in ctx.model.concrete_ast_classes():
        if expr_root not in c.mro():
            continue
        slots = tab[c.name]
        fi = c.resolve('reshape')
        if fi is None:
            raise AnalysisError('S4', f'{c.name}.reshape not found')
        self_t = Sym('self', c.name)
        if not slots:
            outs = ctx.ev.run(fi, {'self': self_t, 'f': f}, self_cls=c)
            if all(o.kind == 'return' and o.value == self_t for o in outs):
                r.ok(f'{c.name}.reshape = self (no slots)')
            else:
                r.fail(f'{c.name}.reshape', f'class has no child slots but reshape does not return self: {[str(o) for o in outs]}', fi.where)
            continue
        for deep in (True, False):
            n += 1
            outs = ctx.ev.run(fi, {'self': self_t, 'f': f, 'deep': Const(deep)}, self_cls=c)
            via_helper = False
            if any(o.kind == 'return' and isinstance(o.value, Call) and call_recv(o.value) == self_t and (call_name(o.value) or '').startswith('_') for o in outs):
                # the work is done by a private helper shared between node classes (it may loop over the slot names)
                via_helper = True
                outs = ctx.memo('S4_helper_ev', lambda: Evaluator(ctx.model, inline=helper_inline((fi.module.name,)))).run(fi, {'self': self_t, 'f': f, 'deep': Const(deep)}, self_cls=c)
            key = f'{c.name}.reshape[{"deep" if deep else "shallow"}]'
            rebuilt = False
            for o in outs:
                if o.kind != 'return':
                    r.fail(key, f'path does not return: {o}', fi.where)
                    continue
                for g, leaf in alternatives(o.value):
                    o2 = Outcome(o.kind, leaf, (implied_literals(o.guards + g) if via_helper else o.guards + g), o.effects, o.asserts, o.lineno, o.env)
                    if leaf == self_t:
                        why = _identity_guard_ok(o2, slots, self_t, {})
                        if why:
                            r.fail(key + ':identity', why, fi.where)
                        else:
                            r.ok(f'{key}: identity shortcut guarded on all slots')
                        continue
                    vals: Optional[Dict[str, Term]] = None
                    if isinstance(leaf, Call) and call_name(leaf) == 'but' and call_recv(leaf) == self_t and not leaf.args:
                        vals = dict(leaf.kwargs)
                    elif isinstance(leaf, Call) and isinstance(leaf.func, Ext) and leaf.func.name.endswith('evolve') and leaf.args and leaf.args[0] == self_t:
                        r.fail(key + ':rebuild', 'rebuilds with evolve(): metadata is not carried over (use but())', fi.where)
                        continue
                    if vals is None:
                        r.fail(key + ':rebuild', f'does not rebuild with self.but(<slot>=...): {str(leaf)[:200]}', fi.where)
                        continue
                    rebuilt = True
                    extra = sorted(set(vals) - {s.name for s in slots})
                    if extra:
                        r.fail(key + ':rebuild', f'but() also changes non-slot field(s) {extra}', fi.where)
                    for s in slots:
                        if s.name not in vals:
                            # left out of the copy because this path established that the new child IS the old one
                            same = [x for t, pol in o2.guards if pol and isinstance(t, Op) and t.op == 'is' and len(t.args) == 2 and Attr(self_t, s.name) in t.args
                                    for x in t.args if x != Attr(self_t, s.name)]
                            if same and all(_slot_value_ok(x, s, self_t, f, deep) is None for x in same):
                                r.ok(f'{key}: {s.name} unchanged on this path ({str(same[0])[:60]} is self.{s.name})')
                                continue
                            r.fail(f'{key}:{s.name}', f'slot {s.name} is not rebuilt (f never reaches it)', fi.where)
                            continue
                        why = _slot_value_ok(vals[s.name], s, self_t, f, deep)
                        if why:
                            r.fail(f'{key}:{s.name}', why, fi.where)
                        else:
                            r.ok(f'{key}: {s.name} -> {str(vals[s.name])[:80]}')
            if not rebuilt:
                r.fail(key + ':rebuild', 'no path rebuilds the node', fi.where)
    # replace() must use deep=True
    fi = expr_root.resolve('replace')
    if fi is None:
        raise AnalysisError('S4', 'HplExpression.replace not found')
    outs = ctx.ev.run(fi, {'self': Sym('self', 'HplExpression'), 'test': Sym('test'), 'other': Sym('other')})
    calls = method_calls(all_terms(outs), 'reshape')
    if calls and all((c.kw('deep') == Const(True)) for c in calls):
        r.ok('HplExpression.replace -> reshape(..., deep=True)')
    else:
        r.fail('HplExpression.replace', f'replace() does not call reshape with deep=True: {[str(c) for c in calls]}', fi.where)
    r.floor('reshape arms', n, 16)
    return r


def _schema_args_unchanged(c: Call, tm: Term, vs: Optional[Term], guards=()) -> bool:
    """type_check_references(<this_msg>, <variables>) with both arguments as received ({} standing in for None only)"""
    def same(x: Term, y: Term) -> bool:
        return isinstance(x, Sym) and isinstance(y, Sym) and x.name == y.name   # the parameter, whatever its annotation
    args = list(c.args) + [v for k, v in c.kwargs]
    if not args or not same(args[0], tm):
        return False
    if vs is None or len(args) < 2:
        return len(args) < 2 or vs is None
    v = args[1]
    if same(v, vs):
        return True
    if type(v).__name__ == 'DictT' and not v.items:
        # an empty map on the path where none was given
        for g, pol in norm_guards(tuple(guards)):
            nt = none_test(g)
            if nt is not None and same(nt[0], vs) and (nt[1] == pol):
                return True
    if isinstance(v, Ite):
        nt = none_test(v.test)
        if nt is not None and same(nt[0], vs):
            given, absent = (v.b, v.a) if nt[1] else (v.a, v.b)
            return same(given, vs) and type(absent).__name__ == 'DictT' and not absent.items
    return False


# --------------------------------------------------- type_check_references walk
def S5(ctx: Ctx) -> RuleResult:
    r = RuleResult('S5', 'type_check_references reaches every slot of every expression: generic walk pushes all children; accessors visit object chain and index')
    m = ctx.model
    base = m.cls('HplExpression', 'S5')
    fi = base.methods.get('type_check_references')
    if fi is None:
        raise AnalysisError('S5', 'HplExpression.type_check_references not found')
    self_t = Sym('self', 'HplExpression')
    outs = ctx.ev.run(fi, {'self': self_t})
    loops = [e for o in outs for e in o.effects if isinstance(e, Loop)]
    if not loops:
        raise AnalysisError('S5', 'HplExpression.type_check_references: no traversal loop found')
    lp = loops[0]
    lp_guards = next((o.guards for o in outs if any(e is lp for e in o.effects)), ())
    gen_mode = False
    if isinstance(lp.iter, Call) and call_recv(lp.iter) == self_t and base.resolve(call_name(lp.iter) or '') is not None and lp.target != '<while>':
        # two stages: a generator method walks the tree and yields the nodes to check; the loop here checks each of them
        gfi = base.resolve(call_name(lp.iter))
        each = Sym(f'each:{lp.target}')
        all_checked = bool(lp.paths) and all(not pg and flow == 'end' and any(call_recv(c) == each for c in method_calls(effs, 'type_check_references')) for pg, flow, binds, effs in lp.paths)
        if not all_checked:
            r.fail('HplExpression.type_check_references:skip', f'not every node produced by {gfi.name}() is checked', fi.where)
        gouts = ctx.ev.run(gfi, {'self': self_t})
        gloops = [e for o in gouts for e in o.effects if isinstance(e, Loop)]
        if not gloops:
            raise AnalysisError('S5', f'HplExpression.{gfi.name}: no traversal loop found')
        lp = gloops[0]
        gen_mode = True
    if not (isinstance(lp.iter, TupleT) and lp.iter.items == (self_t,)):
        r.fail('HplExpression.type_check_references:start', f'the work list does not start from self: {lp.iter!r}', fi.where)
    from .terms import guards_consistent as _gc
    for pg, flow, binds, effs in lp.paths:
        if not _gc(pg):
            continue    # a combination of tests that no node satisfies (the same test taken both ways)
        desc = f'[{guards_repr(norm_guards(pg))}]'
        pushes = [c for c in method_calls(effs, 'extend') + method_calls(effs, 'append')]
        pushes_children = any(any(isinstance(y, Call) and call_name(y) == 'children' for y in walk(c)) for c in pushes)
        delegates = bool(method_calls(effs, 'type_check_references'))
        if gen_mode:
            popped = [v for _, v in binds if isinstance(v, Call) and call_name(v) == 'pop' and call_recv(v) == lp.iter]
            delegates = any(isinstance(e, Op) and e.op == 'yield' and e.args and e.args[0] in popped for e in effs)
        acc_guard = [(t, pol) for t, pol in norm_guards(pg) if isinstance(t, Attr) and t.name == 'is_accessor']
        if delegates and acc_guard and acc_guard[0][1]:
            r.ok(f'{desc} accessor -> its own type_check_references')
            if not gen_mode:
                ps5 = fi.params()
                for c5 in method_calls(effs, 'type_check_references'):
                    if not _schema_args_unchanged(c5, Sym(ps5[1]), Sym(ps5[2]) if len(ps5) > 2 else None, tuple(lp_guards) + tuple(pg)):
                        r.fail('HplExpression.type_check_references:arguments', f'the accessor is checked with {str(c5)[-90:]}: the current message type and the alias map must be passed on as they were given', fi.where)
        elif pushes_children:
            r.ok(f'{desc} pushes children()')
        else:
            r.fail('HplExpression.type_check_references:skip', f'under {desc} a node is neither checked nor are its children pushed: its sub-tree is never schema-checked', fi.where)
    # overrides in non-accessor classes would bypass the walk
    for c in m.concrete_ast_classes():
        if base in c.mro():
            res = c.resolve('type_check_references')
            acc = m.cls('HplDataAccess', 'S5')
            if acc not in c.mro() and res is not fi:
                r.fail(f'{c.name}.type_check_references', 'non-accessor class overrides the generic walk', res.where)
    # accessors
    # the arguments handed on, on every path of the method (not only the one whose loop was read above)
    if not gen_mode:
        ps5 = fi.params()
        for o_ in outs:
            for lp_ in (e for e in o_.effects if isinstance(e, Loop)):
                if lp_ is lp:
                    continue
                for pg_, _flow, _binds, effs_ in lp_.paths:
                    for c5 in method_calls(effs_, 'type_check_references'):
                        if not _schema_args_unchanged(c5, Sym(ps5[1]), Sym(ps5[2]) if len(ps5) > 2 else None, tuple(o_.guards) + tuple(pg_)):
                            r.fail('HplExpression.type_check_references:arguments', f'the accessor is checked with {str(c5)[-90:]}: the current message type and the alias map must be passed on as they were given', fi.where)
    acc = m.cls('HplDataAccess', 'S5')
    tab = slot_table(ctx)
    n = 0
    for c in m.concrete_ast_classes():
        if acc not in c.mro():
            continue
        n += 1
        res = c.resolve('type_check_references')
        self_c = Sym('self', c.name)
        obj_fi = c.resolve('object')
        obj_outs = ctx.ev.run(obj_fi, {'self': self_c}, self_cls=c)
        obj_slot = None
        for o in obj_outs:
            if o.kind == 'return' and isinstance(o.value, Attr) and o.value.base == self_c:
                obj_slot = o.value.name
        if obj_slot is None:
            r.fail(f'{c.name}.object', 'object property does not return a slot of the class', obj_fi.where)
            continue
        others = [s.name for s in tab[c.name] if s.name != obj_slot]
        outs2 = ctx.ev.run(res, {'self': self_c}, self_cls=c)
        terms = all_terms(outs2)
        chain = bool(method_calls(terms, '_get_next_token'))
        if not chain:
            r.fail(f'{c.name}.type_check_references:chain', 'accessor chain is not resolved with _get_next_token', res.where)
        tm_param = res.params()[1] if len(res.params()) > 1 else 'this_msg'
        for sname in others:
            calls = [cl for cl in method_calls(terms, 'type_check_references') if isinstance(call_recv(cl), Attr) and call_recv(cl).name == sname]
            if calls:
                bad = [cl for cl in calls if not (cl.args and isinstance(cl.args[0], Sym) and cl.args[0].name == tm_param)]
                if bad:
                    r.fail(f'{c.name}.type_check_references:{sname}:root', f'references inside slot {sname} are checked against {str(bad[0].args[0])[:50] if bad[0].args else None}, not against the current message type ({tm_param}): own fields used in an index of an aliased message fail to resolve', res.where)
                else:
                    r.ok(f'{c.name}: non-object slot {sname} is schema-checked against the current message')
            else:
                # the check may sit in a hook method that the chain walk calls on every element and that this class
                # overrides: hook(this_msg, ...) -> self.<slot>.type_check_references(this_msg, ...)
                via_hook = None
                for hc in [x for t in terms for x in walk(t) if isinstance(x, Call) and call_name(x) and call_recv(x) is not None and call_recv(x) != self_c
                           and (isinstance(call_recv(x), (Sym, Opaque)) or (isinstance(call_recv(x), Call) and call_name(call_recv(x)) in ('pop', 'popleft')))]:
                    hf = c.resolve(call_name(hc))
                    if hf is None or hf.cls not in c.mro() or len(hf.params()) < 2:
                        continue
                    hparams = hf.params()
                    passed = {hparams[i + 1]: a for i, a in enumerate(hc.args) if i + 1 < len(hparams)}
                    passed.update({k: v for k, v in hc.kwargs})
                    houts = ctx.ev.run(hf, {'self': self_c}, self_cls=c)
                    for cl in method_calls(all_terms(houts), 'type_check_references'):
                        if isinstance(call_recv(cl), Attr) and call_recv(cl).base == self_c and call_recv(cl).name == sname and cl.args and isinstance(cl.args[0], Sym):
                            root_arg = passed.get(cl.args[0].name)
                            via_hook = (hf.name, isinstance(root_arg, Sym) and root_arg.name == tm_param)
                if via_hook is not None and via_hook[1]:
                    r.ok(f'{c.name}: non-object slot {sname} is schema-checked against the current message (hook {via_hook[0]})')
                elif via_hook is not None:
                    r.fail(f'{c.name}.type_check_references:{sname}:root', f'references inside slot {sname} are not checked against the current message type ({tm_param}) by the hook {via_hook[0]}', res.where)
                else:
                    r.fail(f'{c.name}.type_check_references:{sname}', f'references inside slot {sname} are never schema-checked', res.where)
        if not others:
            r.ok(f'{c.name}: object chain via {obj_slot}')
    r.floor('accessor classes', n, 2)
    _delegation_chain(ctx, r)
    return r


def _delegation_chain(ctx: Ctx, r: RuleResult):
    """property -> every event -> predicate -> whole expression, with the arguments passed through unchanged"""
    m = ctx.model
    mt = Sym('msg_types')
    se_cls = m.cls('HplSimpleEvent', 'S5')
    ed = m.cls('HplEventDisjunction', 'S5')
    ev = Evaluator(m, inline=helper_inline(('hpl.ast.properties', 'hpl.ast.events')))

    def checks_predicate(name: str) -> bool:
        """on a simple event, method `name` checks the predicate against the given channel map"""
        f2 = se_cls.resolve(name)
        if f2 is None or len(f2.params()) < 2:
            return False
        s2 = Sym('self', 'HplSimpleEvent')
        for o2 in ev.run(f2, {'self': s2, f2.params()[1]: mt}, self_cls=se_cls):
            for cl in method_calls(list(o2.effects) + list(o2.trace), 'type_check_references'):
                if call_recv(cl) == Attr(s2, 'predicate') and any(mt in (a, getattr(a, 'base', None)) or any(y == mt for y in walk(a)) for a in list(cl.args) + [v for _, v in cl.kwargs]):
                    return True
        return False

    def all_simple_events(it: Term, owner: Term) -> Optional[str]:
        """the iterable ranges over every event below `owner`: 'events' (its direct events) or 'simple' (their leaves)"""
        if isinstance(it, Call) and call_name(it) == 'events' and call_recv(it) == owner and not it.args:
            return 'events'
        if isinstance(it, Call) and call_name(it) == 'simple_events' and call_recv(it) == owner and not it.args:
            return 'simple'
        if isinstance(it, Call) and isinstance(it.func, Ext) and it.func.name.split('.')[-1] in ('from_iterable', 'chain', 'tuple', 'list') and it.args:
            inner = it.args[0]
            if isinstance(inner, Op) and inner.op == '*' and len(inner.args) == 1:
                inner = inner.args[0]
            if isinstance(inner, Comp) and len(inner.gens) == 1 and not inner.gens[0][2] and all_simple_events(inner.gens[0][1], owner) \
                    and isinstance(inner.elt, Call) and call_name(inner.elt) == 'simple_events' and call_recv(inner.elt) == Sym('each:' + inner.gens[0][0]):
                return 'simple'
            return all_simple_events(inner, owner)
        return None

    def delegating_loops(outs, owner: Term, key: str, where: str) -> bool:
        ok_ = False
        for o in outs:
            for e in o.effects:
                if not isinstance(e, Loop) or all_simple_events(e.iter, owner) is None:
                    continue
                each = Sym(f'each:{e.target}')
                for pg, flow, binds, effs in e.paths:
                    cs = [c for c in effs if isinstance(c, Call) and call_recv(c) == each and call_name(c) is not None and
                          (call_name(c) == 'type_check_references' or checks_predicate(call_name(c)))]
                    if len(cs) == 1 and not pg and cs[0].args == (mt,) and flow == 'end':
                        ok_ = True
                    elif cs and cs[0].args != (mt,):
                        r.fail(key + ':map', f'events are checked against {str(cs[0].args)[:60]}, not against the caller\'s channel map itself: entries added or shadowed there change which schema a channel resolves to', where)
        return ok_
    # property level
    pc = m.cls('HplProperty', 'S5')
    fi = pc.resolve('type_check_references')
    sp = Sym('self', 'HplProperty')
    outs = ev.run(fi, {'self': sp, fi.params()[1]: mt}, self_cls=pc)
    ok = delegating_loops(outs, sp, 'HplProperty.type_check_references', fi.where)
    (r.ok('HplProperty: every event of events() is checked against the given channel map') if ok else r.fail('HplProperty.type_check_references', 'does not check every event of events() against msg_types', fi.where))
    # disjunction
    fi = ed.resolve('type_check_references')
    se = Sym('self', 'HplEventDisjunction')
    outs = ev.run(fi, {'self': se, fi.params()[1]: mt}, self_cls=ed)
    recvs = {call_recv(cl).name for o in outs for cl in method_calls(list(o.effects) + list(o.trace), 'type_check_references') if isinstance(call_recv(cl), Attr) and call_recv(cl).base == se and cl.args == (mt,)}
    if recvs == {'event1', 'event2'}:
        r.ok('HplEventDisjunction: both alternatives')
    elif delegating_loops(outs, se, 'HplEventDisjunction.type_check_references', fi.where):
        r.ok('HplEventDisjunction: every simple event below it (simple_events(), rule S8)')
    else:
        r.fail('HplEventDisjunction.type_check_references', f'checks {sorted(recvs)} instead of event1 and event2', fi.where)
    # predicate level
    pe = m.cls('HplPredicateExpression', 'S5')
    fi = pe.resolve('type_check_references')
    spp = Sym('self', 'HplPredicateExpression')
    tm, var = Sym('this_msg'), Sym('variables')
    ps = fi.params()
    outs = ctx.ev.run(fi, {'self': spp, ps[1]: tm, ps[2]: var}, self_cls=pe)
    good = False
    for o in outs:
        for t in [o.value] + list(o.effects):
            if isinstance(t, Call) and call_name(t) == 'type_check_references' and call_recv(t) == Attr(spp, 'expression'):
                a0 = t.args[0] if t.args else t.kw('this_msg')
                a1 = t.kw('variables') if t.kw('variables') is not None else (t.args[1] if len(t.args) > 1 else None)
                if a0 == tm and a1 == var and not o.guards:
                    good = True
    if good and len(outs) == 1:
        r.ok('HplPredicateExpression: the whole expression is checked')
    else:
        r.fail('HplPredicateExpression.type_check_references', f'does not simply check the whole expression with the given types: {[str(o)[:100] for o in outs]} (occurrences may be skipped)', fi.where)


# ------------------------------------------------------------ abstract coverage
def S6(ctx: Ctx) -> RuleResult:
    r = RuleResult('S6', 'every NotImplementedError stub of an AST base class is overridden in every concrete subclass')
    n = 0
    for c in ctx.model.ast_classes():
        for name, fi in c.methods.items():
            if not _is_stub(fi):
                continue
            if name.startswith('_') and not name.startswith('__'):
                # a private stub may be partial by design (asked only of the kinds of node its callers have established);
                # the one private stub of the pinned tree, _get_next_token, is decided case by case in S10
                continue
            for sub in ctx.model.subclasses(c, strict=True):
                if not ctx.model.is_leaf(sub):
                    continue
                n += 1
                res = sub.resolve(name)
                if res is None or _is_stub(res):
                    r.fail(f'{sub.name}.{name}', f'abstract {c.name}.{name} is not implemented by concrete class {sub.name}', sub.where)
                else:
                    r.ok(f'{sub.name}.{name} implements {c.name}.{name}')
    r.floor('(stub, concrete subclass) pairs', n, 20)
    return r


def _is_stub(fi: FunctionInfo) -> bool:
    body = [s for s in fi.node.body if not (isinstance(s, ast.Expr) and isinstance(s.value, ast.Constant))]
    if len(body) != 1 or not isinstance(body[0], ast.Raise) or body[0].exc is None:
        return False
    return 'NotImplementedError' in ast.unparse(body[0].exc)


# --------------------------------------------------------------------- iterate
def _stack_walk_ok(lp: Loop, stack: Term, child_call: str) -> Optional[str]:
    """explicit-stack pre-order idiom: pop() from the end, extend(reversed(children)), yield once"""
    if len(lp.paths) != 1:
        return 'traversal loop body is conditional'
    pg, flow, binds, effs = lp.paths[0]
    pops = [c for c in method_calls([v for _, v in binds] + list(effs), 'pop') + method_calls([v for _, v in binds] + list(effs), 'popleft') if call_recv(c) == stack]
    if not pops:
        return 'no pop() from the work list'
    sides = set()
    for p in pops:
        if call_name(p) == 'popleft' or (p.args and p.args[0] == Const(0)):
            sides.add('left')
        elif not p.args or p.args[0] == Const(-1):
            sides.add('right')
        else:
            return f'pops from position {p.args[0]!r}: not parents-before-children left-to-right'
    if len(sides) != 1:
        return 'the work list is popped from both ends'
    side = sides.pop()
    node = pops[0]
    ext = [c for c in method_calls(effs, 'extend') + method_calls(effs, 'extendleft') if call_recv(c) == stack]
    if len(ext) != 1:
        return 'children are not pushed exactly once with extend()'
    # the next node to visit must be the first child: push on the side that is popped, first child outermost
    if (side == 'right') != (call_name(ext[0]) == 'extend'):
        return f'nodes are taken from the {side} end but children are pushed with {call_name(ext[0])}(): breadth-first, not parents-before-children'
    arg = ext[0].args[0] if ext[0].args else None
    if not (isinstance(arg, Call) and isinstance(arg.func, Ext) and arg.func.name == 'reversed'):
        return 'children are pushed without reversed(): siblings would be visited right-to-left'
    inner = arg.args[0] if arg.args else None
    if isinstance(inner, Call) and isinstance(inner.func, Ext) and inner.func.name in ('tuple', 'list'):
        inner = inner.args[0]
    if not (isinstance(inner, Call) and call_name(inner) == child_call and call_recv(inner) == node) and not (isinstance(inner, Attr) and inner.base == node and inner.name == child_call):
        return f'pushed items are not {child_call} of the popped node: {inner!r}'
    ys = [e for e in effs if isinstance(e, Op) and e.op == 'yield']
    if len(ys) != 1 or ys[0].args[0] != node:
        return 'the popped node is not yielded exactly once'
    return None


def _iter_stack_ok(lp: Loop, fi, child_call: str) -> Optional[str]:
    """stack-of-iterators pre-order idiom: the work list holds, for each node on the current path, the iterator over
    its remaining siblings; each round takes next() of the innermost iterator, drops it when exhausted, otherwise
    yields the node and pushes the iterator over its children"""
    stack = lp.iter
    top = stack.items[0]
    # the innermost iterator is the last entry: every subscript of the work list in the source is [-1]
    names = {n.test.id for n in ast.walk(fi.node) if isinstance(n, ast.While) and isinstance(n.test, ast.Name)} if fi is not None else set()
    if len(names) != 1:
        return 'the traversal loop does not run while the work list is non-empty'
    wl = next(iter(names))
    subs = [n for n in ast.walk(fi.node) if isinstance(n, ast.Subscript) and isinstance(n.value, ast.Name) and n.value.id == wl]
    if not subs or any(ast.unparse(n.slice) != '-1' for n in subs):
        return 'the node is not taken from the innermost (last) iterator of the work list'
    if len(lp.paths) != 2:
        return f'expected the exhausted / not exhausted cases, found {len(lp.paths)} paths'
    seen = set()
    for pg, flow, binds, effs in lp.paths:
        node = next((v for _, v in binds if isinstance(v, Call) and isinstance(v.func, Ext) and v.func.name == 'next' and len(v.args) == 2 and v.args[0] == top), None)
        if node is None:
            return 'the next node is not next(<innermost iterator>, <sentinel>)'
        sentinel = node.args[1]
        test = next((pol if g.op == 'is' else not pol for g, pol in norm_guards(pg) if isinstance(g, Op) and g.op in ('is', 'is not') and set(g.args) == {node, sentinel}), None)
        if test is None:
            return 'the exhausted iterator is not recognised by identity with the sentinel'
        pops = [c for c in method_calls(list(effs), 'pop') if call_recv(c) == stack]
        pushes = [c for c in method_calls(list(effs), 'append') if call_recv(c) == stack]
        ys = [e for e in effs if isinstance(e, Op) and e.op == 'yield']
        other = [c for c in effs if isinstance(c, Call) and c not in pops and c not in pushes]
        if other:
            return f'unrecognised effect {str(other[0])[:60]} in the traversal loop'
        if test:
            if len(pops) != 1 or pops[0].args or pushes or ys:
                return 'an exhausted iterator is not simply dropped from the end of the work list'
        else:
            if pops or len(pushes) != 1 or len(ys) != 1 or ys[0].args[0] != node:
                return 'a node is not yielded exactly once / its children are not pushed exactly once'
            arg = pushes[0].args[0] if pushes[0].args else None
            inner = arg.args[0] if isinstance(arg, Call) and isinstance(arg.func, Ext) and arg.func.name == 'iter' and len(arg.args) == 1 else None
            if not (isinstance(inner, Call) and call_name(inner) == child_call and call_recv(inner) == node):
                return f'pushed iterator is not iter(node.{child_call}()): {arg!r}'
        seen.add(test)
    return None if seen == {True, False} else 'exhausted / not exhausted cases are not both present'


def S7(ctx: Ctx) -> RuleResult:
    r = RuleResult('S7', 'iterate(): every node once, parents before children, left to right')
    root = ctx.model.ast_root()
    defs = [root.methods.get('iterate')] + ctx.model.overrides(root, 'iterate')
    if defs[0] is None:
        raise AnalysisError('S7', 'HplAstObject.iterate not found')
    for fi in defs:
        self_t = Sym('self', fi.cls.name)
        outs = ctx.ev.run(fi, {'self': self_t})
        key = f'{fi.cls.name}.iterate'
        why = _preorder_ok(outs, self_t, 'children', 'iterate', fi)
        if why:
            r.fail(key, why, fi.where)
        else:
            r.ok(f'{key}: pre-order, left-to-right')
    return r


def _preorder_ok(outs: List[Outcome], self_t: Term, child_call: str, rec: str, fi=None) -> Optional[str]:
    if len(outs) != 1 or outs[0].kind not in ('fall', 'return'):
        return f'unexpected control flow: {[str(o)[:80] for o in outs]}'
    effs = outs[0].effects
    loops = [e for e in effs if isinstance(e, Loop)]
    ys = [e for e in effs if isinstance(e, Op) and e.op in ('yield', 'yield from')]
    if len(loops) == 1 and not ys and loops[0].target == '<while>':
        lp = loops[0]
        start = lp.iter
        if isinstance(start, Call) and isinstance(start.func, Ext) and start.func.name.endswith('deque') and len(start.args) == 1 and not start.kwargs:
            start = start.args[0]
        if isinstance(start, TupleT) and len(start.items) == 1 and start.items[0] == Call(Ext('iter'), (TupleT((self_t,)),)):
            return _iter_stack_ok(lp, fi, child_call)
        if not (isinstance(start, TupleT) and start.items == (self_t,)):
            return f'work list does not start as [self]: {lp.iter!r}'
        return _stack_walk_ok(lp, lp.iter, child_call)
    # recursive idiom: yield self, then for c in self.children(): yield from c.iterate()
    if ys and ys[0].op == 'yield' and ys[0].args[0] == self_t and effs.index(ys[0]) == 0 and len(loops) == 1:
        lp = loops[0]
        it = lp.iter
        if not (isinstance(it, Call) and call_name(it) == child_call and call_recv(it) == self_t):
            return f'recursion does not iterate self.{child_call}() in order: {it!r}'
        if len(lp.paths) == 1 and any(isinstance(e, Op) and e.op == 'yield from' and isinstance(e.args[0], Call) and call_name(e.args[0]) == rec for e in lp.paths[0][3]):
            return None
        return 'recursive arm does not `yield from child.iterate()` unconditionally'
    return 'neither the explicit-stack nor the recursive pre-order idiom'


# ------------------------------------------------------- event level delegation
def S8(ctx: Ctx) -> RuleResult:
    r = RuleResult('S8', 'event disjunction: aliases / simple_events are event1 then event2; property.events() yields all four positions')
    m = ctx.model
    ed = m.cls('HplEventDisjunction', 'S8')
    self_t = Sym('self', 'HplEventDisjunction')
    # aliases
    fi = ed.resolve('aliases')
    outs = ctx.ev.run(fi, {'self': self_t}, self_cls=ed)
    ok = False
    if len(outs) == 1 and outs[0].kind == 'return':
        v = outs[0].value
        if isinstance(v, Op) and v.op == '+' and len(v.args) == 2:
            a, b = v.args
            ok = all(isinstance(x, Call) and call_name(x) == 'aliases' for x in (a, b)) and call_recv(a) == Attr(self_t, 'event1') and call_recv(b) == Attr(self_t, 'event2')
        # the aliases of the leaves in the order simple_events() yields them (that order is checked just below)
        inner = v.args[0] if isinstance(v, Call) and isinstance(v.func, Ext) and v.func.name in ('tuple', 'list') and len(v.args) == 1 else v
        if isinstance(inner, Comp) and len(inner.gens) == 2 and not inner.gens[0][2] and not inner.gens[1][2]:
            (t1, it1, _), (t2, it2, _) = inner.gens
            if isinstance(it1, Call) and call_name(it1) == 'simple_events' and call_recv(it1) == self_t and isinstance(it2, Call) and call_name(it2) == 'aliases' \
                    and call_recv(it2) == Sym(f'each:{t1}') and inner.elt == Sym(f'each:{t2}'):
                ok = True
    (r.ok('aliases() = event1.aliases() + event2.aliases()') if ok else r.fail('HplEventDisjunction.aliases', f'aliases are not event1 then event2: {[str(o) for o in outs]}', fi.where))
    # simple_events
    fi = ed.resolve('simple_events')
    outs = ctx.ev.run(fi, {'self': self_t}, self_cls=ed)
    outs = _follow_generator(ctx, outs, self_t, ed)
    why = _simple_events_ok(outs, self_t)
    (r.ok('simple_events(): event1 alternatives then event2 alternatives') if why is None else r.fail('HplEventDisjunction.simple_events', why, fi.where))
    se = m.cls('HplSimpleEvent', 'S8')
    fi = se.resolve('simple_events')
    self_s = Sym('self', 'HplSimpleEvent')
    outs = [o for o in _follow_generator(ctx, ctx.ev.run(fi, {'self': self_s}, self_cls=se), self_s, se) if o.kind != 'raise' or len(o.guards) == 0]
    ys = [e for o in outs for e in o.effects if isinstance(e, Op) and e.op == 'yield']
    ok = len(outs) == 1 and len(ys) == 1 and ys[0].args[0] == self_s
    if not ok and len(outs) == 1 and outs[0].kind == 'return':
        v = outs[0].value
        ok = isinstance(v, (TupleT,)) and v.items == (self_s,) or (isinstance(v, Call) and isinstance(v.func, Ext) and v.func.name == 'iter' and isinstance(v.args[0], TupleT) and v.args[0].items == (self_s,))
    (r.ok('HplSimpleEvent.simple_events() yields self once') if ok else r.fail('HplSimpleEvent.simple_events', f'does not yield exactly self: {[str(o) for o in outs]}', fi.where))
    fi = se.resolve('aliases')
    outs = ctx.ev.run(fi, {'self': self_s}, self_cls=se)
    good = True
    for o in outs:
        nt = [none_test(t) for t, _ in norm_guards(o.guards)]
        if o.kind != 'return':
            good = False
        elif isinstance(o.value, TupleT) and o.value.items == (Attr(self_s, 'alias'),):
            pass
        elif isinstance(o.value, TupleT) and not o.value.items:
            pass
        else:
            good = False
    if not any(isinstance(o.value, TupleT) and o.value.items == (Attr(self_s, 'alias'),) for o in outs):
        good = False
    (r.ok('HplSimpleEvent.aliases() = (alias,) or ()') if good else r.fail('HplSimpleEvent.aliases', f'unexpected: {[str(o) for o in outs]}', fi.where))
    # HplProperty.events
    pc = m.cls('HplProperty', 'S8')
    fi = pc.resolve('events')
    self_p = Sym('self', 'HplProperty')
    outs = ctx.ev.run(fi, {'self': self_p}, self_cls=pc)
    want = {('scope', 'activator'): 'opt', ('pattern', 'behaviour'): 'one', ('pattern', 'trigger'): 'opt', ('scope', 'terminator'): 'opt'}
    for o in outs:
        ys = [e.args[0] for e in o.effects if isinstance(e, Op) and e.op == 'yield']
        got = set()
        for y in ys:
            if isinstance(y, Attr) and isinstance(y.base, Attr) and y.base.base == self_p:
                got.add((y.base.name, y.name))
        facts = {}
        for t, pol in norm_guards(o.guards):
            nt = none_test(t)
            if nt and isinstance(nt[0], Attr) and isinstance(nt[0].base, Attr):
                facts[(nt[0].base.name, nt[0].name)] = nt[1] if pol else not nt[1]
        for pos, kind in want.items():
            is_none = facts.get(pos)
            if kind == 'one' or is_none is False:
                if pos not in got:
                    r.fail(f'HplProperty.events:{pos[1]}', f'event position {pos[0]}.{pos[1]} is not yielded on path [{guards_repr(o.guards)}]', fi.where)
                else:
                    r.ok(f'events() yields {pos[0]}.{pos[1]} [{guards_repr(norm_guards(o.guards))[:60]}]')
            elif is_none is None and pos not in got:
                r.fail(f'HplProperty.events:{pos[1]}', f'event position {pos[0]}.{pos[1]} is never tested/yielded on path [{guards_repr(o.guards)}]', fi.where)
    return r


def _follow_generator(ctx: Ctx, outs: List[Outcome], self_t: Term, cls: ClassInfo) -> List[Outcome]:
    """a method that (after an eager check) returns the generator made by another method of the same object: that
    method's paths, under the conditions established before the hand-over"""
    rets = [o for o in outs if o.kind == 'return']
    if len(rets) == 1 and isinstance(rets[0].value, Call) and isinstance(rets[0].value.func, BoundMethod) and rets[0].value.func.recv == self_t \
            and not rets[0].value.args and not rets[0].value.kwargs and all(o.kind == 'raise' for o in outs if o is not rets[0]):
        g = ctx.ev.callee(rets[0].value.func)
        if g is not None and any(isinstance(n, (ast.Yield, ast.YieldFrom)) for n in ast.walk(g.node)):
            return ctx.ev.run(g, {'self': self_t}, self_cls=cls)
    return outs


def _simple_events_ok(outs: List[Outcome], self_t: Term) -> Optional[str]:
    if len(outs) != 1:
        return f'unexpected control flow ({len(outs)} paths)'
    effs = list(outs[0].effects)
    order: List[str] = []
    for e in effs:
        if isinstance(e, Loop):
            it = e.iter
            if isinstance(it, Call) and call_name(it) == 'simple_events' and isinstance(call_recv(it), Attr) and call_recv(it).base == self_t:
                tgt = Sym(f'each:{e.target}')
                if len(e.paths) == 1 and any(isinstance(x, Op) and x.op == 'yield' and x.args[0] == tgt for x in e.paths[0][3]):
                    order.append(call_recv(it).name)
                else:
                    return 'a loop over alternatives does not yield every element'
            elif e.target == '<while>':
                # explicit stack: must be the reversed-push idiom over .events / children
                return _explicit_event_stack(e, self_t)
            else:
                return f'unrecognised loop over {it!r}'
        elif isinstance(e, Op) and e.op == 'yield from':
            it = e.args[0]
            if isinstance(it, Call) and call_name(it) == 'simple_events' and isinstance(call_recv(it), Attr) and call_recv(it).base == self_t:
                order.append(call_recv(it).name)
            else:
                return f'unrecognised yield from {it!r}'
    if order != ['event1', 'event2']:
        return f'alternatives are enumerated in order {order}, expected [event1, event2]'
    return None


def _explicit_event_stack(lp: Loop, self_t: Term) -> Optional[str]:
    stack = lp.iter
    exts = []
    for pg, flow, binds, effs in lp.paths:
        for c in method_calls(effs, 'extend') + method_calls(effs, 'append'):
            if call_recv(c) == stack:
                exts.append(c)
    for c in exts:
        arg = c.args[0] if c.args else None
        if call_name(c) == 'extend' and not (isinstance(arg, Call) and isinstance(arg.func, Ext) and arg.func.name == 'reversed'):
            return 'explicit-stack enumeration pushes nested alternatives without reversed(): with 3 or more alternatives the order is no longer source order'
    pops = [c for pg, flow, binds, effs in lp.paths for c in method_calls([v for _, v in binds] + list(effs), 'pop')]
    if any(p.args and p.args[0] == Const(0) for p in pops) and any(isinstance(c.args[0], Call) and isinstance(c.args[0].func, Ext) and c.args[0].func.name == 'reversed' for c in exts if c.args):
        return 'queue (pop(0)) combined with reversed pushes'
    if not exts:
        return 'explicit-stack enumeration never pushes nested alternatives'
    return None


RULES = {'S1': S1, 'S2': S2, 'S3': S3, 'S4': S4, 'S5': S5, 'S6': S6, 'S7': S7, 'S8': S8}


# ------------------------------------------------------------- own-field check
S9_NEED = {'is_accessor': True, 'is_indexed': False, 'is_value': True, 'is_this_msg': True}


def _s9_any_form(ctx: Ctx, r: RuleResult, fi: FunctionInfo, outs: List[Outcome], table: Term) -> bool:
    """the search written as `if not any(pred(group[0]) for group in table.values()): raise`"""
    from .terms import flat_guards, FuncRef
    raises = [o for o in outs if o.kind == 'raise' and 'HplSanityError' in repr(o.value)]
    if len(raises) != 1:
        return False
    gs = [(t, p) for t, p in norm_guards(raises[0].guards)]
    if len(gs) != 1:
        return False
    t, pol = gs[0]
    if not (isinstance(t, Call) and isinstance(t.func, Ext) and t.func.name == 'any' and not pol and t.args and isinstance(t.args[0], Comp) and len(t.args[0].gens) == 1):
        return False
    comp = t.args[0]
    tgt, it, ifs = comp.gens[0]
    each = Sym(f'each:{tgt}')
    if not (isinstance(it, Call) and call_name(it) in ('values',) and call_recv(it) == table):
        r.fail('_some_field_refs:groups', f'the search does not range over all reference groups of the table: {it!r}', fi.where)
        return True
    for c in ifs:
        if c != each:
            r.fail('_some_field_refs:groups', f'reference groups are filtered by {c!r} before the search', fi.where)
    # the tested element must be a member of the group (all members of a group print alike)
    elt = comp.elt
    member = None
    for x in walk(elt):
        if isinstance(x, Sub) and x.base == each:
            member = x
    if member is None:
        return False
    r.ok('HplSanityError after the search')
    r.ok('any() over every reference group: no early abort')
    # acceptance predicate
    accept_paths: List[Tuple] = []
    if isinstance(elt, Call) and isinstance(elt.func, FuncRef) and elt.args == (member,):
        pf = ctx.ev.callee(elt.func)
        ref = Sym('ref', 'HplExpression')
        for o in ctx.ev.run(pf, {pf.params()[0]: ref}):
            if o.kind != 'return':
                continue
            if o.value == Const(False):
                continue
            g2 = tuple(o.guards) + (() if o.value == Const(True) else ((o.value, True),))
            accept_paths.append(flat_guards(g2))
    else:
        accept_paths.append(flat_guards(((elt, True),)))
    ok = bool(accept_paths)
    for gs2 in accept_paths:
        got = {}
        for t2, p2 in gs2:
            if isinstance(t2, Attr) and t2.name in S9_NEED:
                got[t2.name] = p2
        if not all(got.get(k) == v for k, v in S9_NEED.items()):
            ok = False
            r.fail('_some_field_refs:accept', f'accepts under [{guards_repr(gs2)[:120]}]: not exactly "accessor, not indexed, object is the current message"', fi.where)
    if ok:
        r.ok('accepts exactly a direct field of the current message')
    elif not accept_paths:
        r.fail('_some_field_refs:no-accept', 'no accepting path for a direct field of the current message', fi.where)
    return True


def S9(ctx: Ctx) -> RuleResult:
    r = RuleResult('S9', 'own-field check: _some_field_refs searches EVERY reference group (no early abort of the outer search), accepts exactly a direct field of the current message, and raises HplSanityError after the search')
    c = ctx.model.cls('HplPredicateExpression', 'S9')
    fi = c.methods.get('_some_field_refs')
    if fi is None:
        raise AnalysisError('S9', '_some_field_refs not found')
    self_t = Sym('self', c.name)
    table = Sym('table')
    outs = ctx.ev.run(fi, {'self': self_t, 'table': table})
    if _s9_any_form(ctx, r, fi, outs, table):
        return r
    from .util import devirtualise_props
    rets = devirtualise_props(ctx, ctx.ev, [o for o in outs if o.kind in ('return', 'fall')], ('is_indexed', 'is_accessor'))   # the test may be a property of the accessor classes
    raises = [o for o in outs if o.kind == 'raise']
    if not raises or not all('HplSanityError' in repr(o.value) for o in raises):
        r.fail('_some_field_refs:raise', 'does not raise HplSanityError when no own field is referenced', fi.where)
    else:
        unconditional = any(not [g for g, p in o.guards if 'iterating' not in repr(g)] for o in raises)
        (r.ok('HplSanityError after the search') if unconditional else r.fail('_some_field_refs:raise-guard', f'the error is raised under extra conditions: {[guards_repr(o.guards)[:60] for o in raises]}', fi.where))
    outer = None
    for o in outs:
        for e in o.effects:
            if isinstance(e, Loop) and isinstance(e.iter, Call) and call_name(e.iter) in ('values', 'items') and call_recv(e.iter) == table:
                outer = e
    if outer is None:
        r.fail('_some_field_refs:groups', 'no loop over all reference groups of the table', fi.where)
        return r
    for pg, flow, binds, effs in outer.paths:
        if flow == 'break':
            r.fail('_some_field_refs:abort', f'the search over reference groups is aborted (break) under [{guards_repr(norm_guards(pg))[:100]}]: a predicate whose first reference is not an own field is rejected although a later one is', fi.where)
    for rg, exc in outer.raises:
        r.fail('_some_field_refs:abort', 'an error is raised inside the search over groups', fi.where)
    ok = False
    for o in rets:
        gs = norm_guards(o.guards)
        need = {'is_accessor': True, 'is_indexed': False, 'is_value': True, 'is_this_msg': True}
        got = {}
        for t, pol in gs:
            if isinstance(t, Attr) and t.name in need:
                got[t.name] = pol
        if all(got.get(k) == v for k, v in need.items()):
            ok = True
        elif o.kind == 'return' or (o.kind == 'fall' and any('iterating' in repr(g) for g, _ in o.guards)):
            r.fail('_some_field_refs:accept', f'accepts under [{guards_repr(gs)[:120]}]: not exactly "accessor, not indexed, object is the current message"', fi.where)
    (r.ok('accepts exactly a direct field of the current message') if ok else r.fail('_some_field_refs:no-accept', 'no accepting path for a direct field of the current message', fi.where))
    return r


RULES['S9'] = S9


# ------------------------------------------------------- access path resolution
def _flag_test(t: Term, base: Term, member: str) -> bool:
    """bool(<base>.type & DataType.<member>)  (what token.is_message / is_array inline to), or the property itself"""
    if isinstance(t, Attr) and t.base == base and t.name == {'MESSAGE': 'is_message', 'ARRAY': 'is_array'}.get(member):
        return True
    if isinstance(t, Call) and isinstance(t.func, Ext) and t.func.name == 'bool' and len(t.args) == 1:
        x = t.args[0]
        return isinstance(x, Op) and x.op == '&' and Attr(base, 'type') in x.args and EnumMember('DataType', member) in x.args
    return False


def S10(ctx: Ctx) -> RuleResult:
    r = RuleResult('S10', 'access-path resolution: HplDataAccess.type_check_references walks .object down to the root while it is an accessor (collecting every accessor, itself included), takes the type of the root from the current message for `this` and from the caller\'s alias map for an alias, raises HplSanityError exactly when there is none, and then resolves the accessors from the root outwards: t = accessor._get_next_token(t), accessor checked against t.type; _get_next_token picks fields before constants (the token of a constant is entry[0]), the element type of an array, and raises otherwise')
    from .terms import flat_guards, implied_literals, expand_outcomes, guards_consistent, eval_bool, NONE
    m = ctx.model
    da = m.cls('HplDataAccess', 'S10')
    fi = da.resolve('type_check_references')
    if fi is None:
        raise AnalysisError('S10', 'HplDataAccess.type_check_references not found')
    ps = fi.params()
    self_t, tm, vs = Sym('self', 'HplDataAccess'), Sym(ps[1]), Sym(ps[2]) if len(ps) > 2 else Sym('variables')
    base_pol = helper_inline((fi.module.name,), exclude=('_get_next_token', '_type_check'))

    def pol(f: FunctionInfo, depth: int) -> bool:
        if base_pol(f, depth):
            return True
        # private helpers of the accessor classes that hold one of the loops of the protocol
        if f.cls is not None and da in f.cls.mro() and f.name.startswith('_') and not f.name.startswith('__') and f.name not in ('_get_next_token', '_type_check') and depth <= 2:
            return not any(isinstance(x, (ast.Yield, ast.YieldFrom, ast.With, ast.Try)) for x in ast.walk(f.node)) and sum(1 for x in ast.walk(f.node) if isinstance(x, ast.stmt)) <= 30
        return False
    ev = ctx.memo('S10_ev', lambda: Evaluator(m, inline=pol))
    outs = ev.run(fi, {'self': self_t, ps[1]: tm, **({ps[2]: vs} if len(ps) > 2 else {})}, self_cls=da)
    where = fi.where
    n = 0

    def list_of(t: Term) -> Optional[Term]:
        """the list literal that collects the accessors ([self] or [])"""
        if isinstance(t, TupleT) and t.kind == 'list' and t.items in ((self_t,), ()):
            return t
        if isinstance(t, Call) and isinstance(t.func, Ext) and t.func.name.split('.')[-1] in ('deque', 'grown') and t.args:
            return list_of(t.args[0])
        return None
    for o in outs:
        if not guards_consistent(o.guards):
            continue
        loops = [e for e in o.effects if isinstance(e, Loop)]
        # 1. the walk to the root
        walk_loop = None
        for lp in loops:
            if lp.target == '<while>' and isinstance(lp.cond, Attr) and lp.cond.name == 'is_accessor' and isinstance(lp.cond.base, Opaque) and len(lp.paths) == 1 and not lp.paths[0][0]:
                pg, flow, binds, effs = lp.paths[0]
                stepped = [k for k, v in binds if isinstance(v, Attr) and v.name == 'object' and v.base == Opaque(f'loopvar:{k}') and lp.cond.base == Opaque(f'loopvar:{k}')]
                pushes = [c for c in effs if isinstance(c, Call) and call_name(c) in ('append', 'appendleft', 'insert') and list_of(call_recv(c)) is not None]
                if len(stepped) == 1 and len(pushes) == 1 and pushes[0].args[-1:] == (Opaque(f'loopvar:{stepped[0]}'),):
                    start = dict(lp.inits).get(stepped[0])
                    lst = call_recv(pushes[0])
                    init_list = list_of(lst)
                    front = call_name(pushes[0]) == 'appendleft' or (call_name(pushes[0]) == 'insert' and pushes[0].args[:1] == (Const(0),))
                    if (start == Attr(self_t, 'object') and init_list.items == (self_t,)) or (start == self_t and init_list.items == ()):
                        walk_loop = (lp, stepped[0], lst, 'I2O' if front else 'O2I')
        if walk_loop is None:
            r.fail('HplDataAccess.type_check_references:walk', 'no walk `while x.is_accessor: collect x; x = x.object` from self (or from self.object with self already collected) on a path: the access path is not followed to its root', where)
            continue
        n += 1
        lw, root_var, lst, orient = walk_loop
        root = Opaque(f'loop:{root_var}')
        def resolve_root(t: Term, want_: Optional[str]) -> Term:
            """a method of the root node that the kinds of root implement differently (the type token asked of the node
            itself): what the implementation for `this` / for an alias returns"""
            if not (isinstance(t, Call) and call_recv(t) == root and call_name(t) is not None and not t.kwargs):
                return t
            impls = {}
            for kind_, cname_ in (('this', 'HplThisMessage'), ('var', 'HplVarReference')):
                k_ = m.classes.get(cname_)
                f_ = k_.resolve(call_name(t)) if k_ is not None else None
                if f_ is None or f_.kind != 'method' or len(f_.params()) - 1 != len(t.args):
                    return t
                o_ = ev.run(f_, dict(zip(f_.params(), (root,) + tuple(t.args))), self_cls=k_)
                if len(o_) != 1 or o_[0].kind != 'return' or o_[0].guards:
                    return t
                impls[kind_] = o_[0].value
            if impls['this'] == impls['var']:
                return t
            return impls[want_] if want_ in impls else Ite(Attr(root, 'is_this_msg'), impls['this'], impls['var'])

        def root_token(t: Term, want_: Optional[str] = None) -> Optional[str]:
            t2 = resolve_root(t, want_)
            if t2 is not t:
                return root_token(t2) if want_ is not None else 'any'
            if t == tm:
                return 'this'
            if isinstance(t, Call) and call_name(t) == 'get' and t.args == (Attr(root, 'name'),) and (call_recv(t) == vs or type(call_recv(t)).__name__ == 'DictT'):
                return 'var'
            if isinstance(t, Sub) and t.index == Attr(root, 'name') and t.base == vs:
                return 'var'
            return None
        lits0 = dict(implied_literals(o.guards, 12))
        cases = [lits0.get(Attr(root, 'is_this_msg'))]
        if cases == [None]:
            cases = [True, False]    # both kinds of root take this path: each is judged on its own
        stop = False
        for is_this in cases:
            gs = tuple(o.guards) + ((Attr(root, 'is_this_msg'), is_this),)
            if not guards_consistent(gs):
                continue
            lits = dict(implied_literals(gs, 14))
            want = 'this' if is_this else 'var'
            none_tests = [((resolve_root(x, want), True), pol) for g, pol in lits.items() for x in [none_test(g)[0] if none_test(g) else None] if x is not None and root_token(x) is not None
                          for pol in [pol if none_test(g)[1] else not pol]]
            # the alias map is the one the caller gave (an empty one only when none was given)
            given = next(((none_test(g)[1] == pol) for g, pol in lits.items() if none_test(g) is not None and none_test(g)[0] == vs), None)
            want = 'this' if is_this else 'var'
            for (x, _), _pol in none_tests:
                if root_token(x) == 'var' and isinstance(x, Call) and want == 'var':
                    from_param = call_recv(x) == vs
                    if (given is True and from_param) or (given is False and not from_param):
                        r.fail('HplDataAccess.type_check_references:variables', f'aliases are looked up in {"the (absent) argument" if from_param else "an empty map"} although the caller {"gave no" if given else "gave an"} alias map: every alias reference of a valid predicate is then reported as unknown', where)
            missing = None
            for (x, _), pol in none_tests:
                if root_token(x) != want:
                    continue
                missing = pol
            wrong = [x for (x, _), pol in none_tests if root_token(x) != want and o.kind == 'raise' and pol and missing is not True]
            if wrong:
                r.fail('HplDataAccess.type_check_references:root', f'for {"`this`" if is_this else "an alias"} at the root the type is looked up as {str(wrong[0])[:50]}: {"the current message" if is_this else "the alias map"} gives the type of {"`this`" if is_this else "an alias"}', where, want)
            if o.kind == 'raise':
                if 'HplSanityError' not in repr(o.value) or missing is not True:
                    r.fail('HplDataAccess.type_check_references:missing', f'raises {str(o.value)[:40]} under [{guards_repr(norm_guards(gs))[-80:]}]: HplSanityError is for a root without a type token, and only for that', where)
                else:
                    r.ok(f'root {want}: HplSanityError when there is no type token')
                stop = True
                continue
            if missing is True:
                r.fail('HplDataAccess.type_check_references:missing', 'a root without a type token is resolved instead of reported', where)
                stop = True
                continue
            if want == 'var' and missing is None:
                r.fail('HplDataAccess.type_check_references:missing', 'an alias without a type token is not reported (HplSanityError)', where)
        if stop or o.kind == 'raise':
            continue
        is_this = cases[0] if len(cases) == 1 else None
        want = 'this' if is_this else 'var'
        # 2. the resolution loop: over the collected accessors, innermost first
        res = None
        for lp in loops:
            if lp is lw:
                continue
            it = lp.iter
            flip = False
            if lp.target == '<while>' and list_of(it) is not None:
                pops = [v for pth in lp.paths for _, v in pth[2] if isinstance(v, Call) and call_name(v) in ('pop', 'popleft') and list_of(call_recv(v)) is not None]
                if pops:
                    elem = pops[0]
                    flip = call_name(elem) == 'pop' and not elem.args
                    res = (lp, elem, flip)
            elif lp.target != '<while>':
                src = it
                if isinstance(src, Call) and isinstance(src.func, Ext) and src.func.name == 'reversed' and len(src.args) == 1:
                    src, flip = src.args[0], True
                if list_of(src) is not None:
                    res = (lp, Sym(f'each:{lp.target}'), flip)
        if res is None:
            r.fail('HplDataAccess.type_check_references:resolve', 'the collected accessors are never resolved (no loop over them after the walk)', where)
            continue
        l2, elem, flip = res
        n_rev = sum(1 for e in o.effects if isinstance(e, Call) and call_name(e) == 'reverse' and list_of(call_recv(e)) is not None and not e.args)
        final = (orient == 'I2O') ^ bool(n_rev % 2) ^ flip
        if not final:
            r.fail('HplDataAccess.type_check_references:order', 'the accessors are resolved from the outermost inwards: the type of `a.b.c` must be found by resolving b in the type of a, then c in the type of a.b', where)
        init_t = next((v for k, v in l2.inits if root_token(v) is not None or isinstance(v, Ite)), None)
        if init_t is not None and not isinstance(init_t, Ite):
            init_t = resolve_root(init_t, want if is_this is not None else None)
        if isinstance(init_t, Ite):
            if not (init_t.test == Attr(root, 'is_this_msg') and root_token(init_t.a) == 'this' and root_token(init_t.b) == 'var'):
                r.fail('HplDataAccess.type_check_references:root', f'the root type is {str(init_t)[:90]}, expected the current message for `this` and variables[name] for an alias', where)
        elif init_t is None or is_this is None or root_token(init_t) != want:
            r.fail('HplDataAccess.type_check_references:root', f'resolution starts from {str(init_t)[:60]} for {"`this`" if is_this else "an alias" if is_this is False else "either kind of root"}', where)
        for pg, flow, binds, effs in l2.paths:
            b = dict(binds)
            tvar = next((k for k, v in binds if isinstance(v, Call) and call_name(v) == '_get_next_token'), None)
            nxt = b.get(tvar) if tvar else None
            good_next = isinstance(nxt, Call) and call_recv(nxt) is not None and repr(call_recv(nxt)) == repr(elem) and nxt.args == (Opaque(f'loopvar:{tvar}'),)
            if not good_next:
                r.fail('HplDataAccess.type_check_references:resolve', f'a step is not t = accessor._get_next_token(t) on the accessor taken from the collected list: {str(nxt)[:80]}', where)
                continue
            tcs = [c for c in effs if isinstance(c, Call) and call_name(c) == '_type_check' and call_recv(c) == self_t]
            if not (len(tcs) == 1 and len(tcs[0].args) == 2 and repr(tcs[0].args[0]) == repr(elem) and tcs[0].args[1] == Attr(nxt, 'type')):
                r.fail('HplDataAccess.type_check_references:check', f'the accessor is not type-checked against the type of its own token: {[str(c)[:80] for c in tcs]}', where)
            # an explicit is_indexed test must have the right polarity (that the index IS checked is S5's part)
            indexed = next((pol for g, pol in flat_guards(pg) if isinstance(g, Attr) and g.name == 'is_indexed' and repr(g.base) == repr(elem)), None)
            idx = [c for c in effs if isinstance(c, Call) and call_name(c) == 'type_check_references' and isinstance(call_recv(c), Attr) and call_recv(c).name == 'index' and repr(call_recv(c).base) == repr(elem)]
            if indexed is False and idx:
                r.fail('HplDataAccess.type_check_references:index', 'the index expression is read on the path where the accessor is NOT indexed (and skipped where it is)', where)
            if indexed is True and not idx and not any(isinstance(c, Call) and repr(call_recv(c)) == repr(elem) and call_name(c) not in ('_get_next_token',) for c in effs):
                r.fail('HplDataAccess.type_check_references:index', 'the index of an indexed accessor is not checked', where)
        r.ok(f'root {"this/alias" if is_this is None else want}: accessors resolved from the root outwards')
    r.floor('paths through the access-path check', n, 4)
    # _get_next_token of the two accessor classes: the rejection of a token of the wrong kind (token untyped), then the
    # lookup as a decision list (token typed, so that methods of the type token classes are looked through)
    fa = m.cls('HplFieldAccess', 'S10')
    f1 = fa.resolve('_get_next_token')
    if f1 is None:
        raise AnalysisError('S10', 'HplFieldAccess._get_next_token not found')
    s1 = Sym('self', 'HplFieldAccess')
    tok = Sym('token')
    rej = False
    for o in ctx.ev.run(f1, {'self': s1, f1.params()[1]: tok}, self_cls=fa):
        lits = list(implied_literals(o.guards, 12))
        if next((pol for g, pol in lits if _flag_test(g, tok, 'MESSAGE')), None) is False:
            if o.kind == 'raise' and 'TypeError' in repr(o.value):
                rej = True
            else:
                r.fail('HplFieldAccess._get_next_token:reject', f'a token that is not a message is not rejected with TypeError: {o.kind} {str(o.value)[:50]}', f'{f1.module.relpath}:{o.lineno}')
    (r.ok('HplFieldAccess._get_next_token: not a message -> TypeError') if rej else r.fail('HplFieldAccess._get_next_token:reject', 'missing case: not a message -> TypeError', f1.where))
    tokm = Sym('token', 'MessageType')
    evt = ctx.memo('S10_ev_tok', lambda: Evaluator(m, inline=helper_inline(('hpl.types', f1.module.name), exclude=('_type_check',))))
    seen = {'field': False, 'const': False, 'missing': False}
    name_t, fields_t, consts_t = Attr(s1, 'field'), Attr(tokm, 'fields'), Attr(tokm, 'constants')

    def lookup_atoms(t: Term, in_f: bool, in_c: bool, known: Dict[Term, bool]):
        """truth of the membership / .get() tests on the two tables when the name is (not) a field / a constant; the
        tables hold type tokens and (token, value) pairs, never None"""
        for x in walk(t):
            if isinstance(x, Op) and x.op in ('in', 'not in') and len(x.args) == 2 and x.args[0] == name_t and x.args[1] in (fields_t, consts_t):
                v = in_f if x.args[1] == fields_t else in_c
                known[x] = v if x.op == 'in' else not v
            if isinstance(x, Op) and x.op in ('is', 'is not', '==', '!=') and len(x.args) == 2 and NONE in x.args:
                other = x.args[0] if x.args[1] == NONE else x.args[1]
                if isinstance(other, Call) and call_name(other) == 'get' and call_recv(other) in (fields_t, consts_t) and other.args and other.args[0] == name_t \
                        and (len(other.args) == 1 or other.args[1] == NONE):
                    present = in_f if call_recv(other) == fields_t else in_c
                    known[x] = (not present) if x.op in ('is', '==') else present
    outs1 = [o for o in expand_outcomes(evt.run(f1, {'self': s1, f1.params()[1]: tokm}, self_cls=fa)) if guards_consistent(o.guards)]
    for in_f, in_c in ((True, True), (True, False), (False, True), (False, False)):
        which = 'field' if in_f else 'const' if in_c else 'missing'
        applicable = 0
        for o in outs1:
            known: Dict[Term, bool] = {}
            for g, _ in o.guards:
                lookup_atoms(g, in_f, in_c, known)
            verdicts = [eval_bool(g, known) for g, _ in o.guards]
            rel = [(v, pol) for (g, pol), v in zip(o.guards, verdicts) if any(isinstance(x, Op) and x in known for x in walk(g))]
            if any(v is not None and v != pol for v, pol in rel):
                continue    # this path is not taken for such a name
            if any(_flag_test(g, tokm, 'MESSAGE') and pol is False for g, pol in implied_literals(o.guards, 12)):
                continue
            if any(v is None for v, pol in rel):
                r.fail('HplFieldAccess._get_next_token:case', f'a test on the lookup tables is not understood: [{guards_repr(norm_guards(o.guards))[-90:]}]', f'{f1.module.relpath}:{o.lineno}')
                continue
            applicable += 1
            desc = f'[{guards_repr(norm_guards(o.guards))[-90:]}] {o.kind} {str(o.value)[:50]}'
            val = o.value
            is_field_val = o.kind == 'return' and (val == Sub(fields_t, name_t) or (isinstance(val, Call) and call_name(val) == 'get' and call_recv(val) == fields_t and val.args[:1] == (name_t,)))
            is_const_val = o.kind == 'return' and isinstance(val, Sub) and val.index == Const(0) and (val.base == Sub(consts_t, name_t) or (isinstance(val.base, Call) and call_name(val.base) == 'get' and call_recv(val.base) == consts_t and val.base.args[:1] == (name_t,)))
            good = is_field_val if in_f else is_const_val if in_c else o.kind == 'raise'
            if good:
                seen[which] = True
            else:
                r.fail('HplFieldAccess._get_next_token:case', f'unexpected case {desc} for a name that is {"a field" if in_f else "a constant only" if in_c else "neither a field nor a constant"}: expected fields[name] if the name is a field, else constants[name][0] if it is a constant, else an error', f'{f1.module.relpath}:{o.lineno}')
        if not applicable:
            r.fail(f'HplFieldAccess._get_next_token:{which}:total', f'no path for a name that is {"a field" if in_f else "a constant only" if in_c else "neither a field nor a constant"}', f1.where)
    for k, label in (('field', 'name in fields -> fields[name]'), ('const', 'else name in constants -> constants[name][0]'), ('missing', 'else -> error')):
        (r.ok(f'HplFieldAccess._get_next_token: {label}') if seen[k] else r.fail(f'HplFieldAccess._get_next_token:{k}', f'missing case: {label}', f1.where))
    aa = m.cls('HplArrayAccess', 'S10')
    f2 = aa.resolve('_get_next_token')
    if f2 is None:
        raise AnalysisError('S10', 'HplArrayAccess._get_next_token not found')
    s2 = Sym('self', 'HplArrayAccess')
    seen2 = {'reject': False, 'range': False, 'elem': False}
    for o in expand_outcomes(evt.run(f2, {'self': s2, f2.params()[1]: tok}, self_cls=aa)):
        if not guards_consistent(o.guards):
            continue
        lits = list(implied_literals(o.guards, 12))
        is_arr = next((pol for g, pol in lits if _flag_test(g, tok, 'ARRAY')), None)
        ci = next((pol for g, pol in lits if isinstance(g, Call) and call_name(g) == 'contains_index' and call_recv(g) == tok and g.args == (Attr(Attr(s2, 'index'), 'value'),)), None)
        lit_idx = all(dict(lits).get(Attr(Attr(s2, 'index'), k)) is True for k in ('is_value', 'is_literal'))
        desc = f'[{guards_repr(norm_guards(o.guards))[-90:]}] {o.kind} {str(o.value)[:50]}'
        if is_arr is False and o.kind == 'raise' and 'TypeError' in repr(o.value):
            seen2['reject'] = True
        elif is_arr is True and o.kind == 'raise' and lit_idx and ci is False:
            seen2['range'] = True
        elif is_arr is True and o.kind == 'return' and o.value == Attr(tok, 'subtype') and not (lit_idx and ci is False):
            seen2['elem'] = True
        else:
            r.fail('HplArrayAccess._get_next_token:case', f'unexpected case {desc}: expected TypeError for a token that is not an array, an error for a literal index outside the array, the element type otherwise', f'{f2.module.relpath}:{o.lineno}')
    for k, label in (('reject', 'not an array -> TypeError'), ('range', 'literal index not contained -> error'), ('elem', 'otherwise -> token.subtype')):
        (r.ok(f'HplArrayAccess._get_next_token: {label}') if seen2[k] else r.fail(f'HplArrayAccess._get_next_token:{k}', f'missing case: {label}', f2.where))
    return r


RULES['S10'] = S10

"""E3 attrs contract rules A1-A6."""
from __future__ import annotations

import ast
from typing import Dict, List, Optional, Set, Tuple

from .ctx import Ctx
from .model import AnalysisError, ClassInfo, FieldInfo, FunctionInfo
from .report import RuleResult
from .rules_lattice import flagset
from .rules_slots import Slot, optional_facts, slot_table
from .rules_tables import binary_rows, unary_rows
from .terms import (Attr, BoundMethod, Call, ClassRef, Comp, Const, EnumMember, Evaluator, Ext, FuncRef, GlobalVal, Ite, Lam, Loop, New, Op,
                    Outcome, Sym, Term, TupleT, _State, alternatives, guards_repr, norm_guards, flat_guards, helper_inline, walk)
from .util import search_tests, all_terms, call_name, call_recv, method_calls, none_test, outcome_terms

TYPE_TOKEN_CLASSES = ('TypeToken', 'EnumeratedType', 'RangedType', 'MessageType', 'ArrayType')


def A1(ctx: Ctx) -> RuleResult:
    r = RuleResult('A1', 'every AST class and type-token class is @frozen with generated eq/hash; none defines __eq__/__hash__/__setattr__')
    classes = list(ctx.model.ast_classes()) + [ctx.model.cls(n, 'A1') for n in TYPE_TOKEN_CLASSES]
    classes += [ctx.model.cls(n, 'A1') for n in ('UnaryOperatorDefinition', 'BinaryOperatorDefinition', 'FunctionSignature', 'FunctionDefinition')]
    for c in classes:
        decs = c.decorators
        fro = [d for d in decs if d.split('(')[0] in ('frozen', 'attrs.frozen')]
        if not fro:
            r.fail(f'{c.name}:frozen', f'class {c.name} is not @frozen: instances are mutable / unhashable', c.where)
            continue
        bad = None
        for d in c.node.decorator_list:
            if isinstance(d, ast.Call):
                for kw in d.keywords:
                    if kw.arg in ('eq', 'hash', 'unsafe_hash', 'order', 'frozen', 'cache_hash') and not (isinstance(kw.value, ast.Constant) and kw.value.value is True and kw.arg in ('eq', 'frozen')):
                        bad = f'{kw.arg}={ast.unparse(kw.value)}'
        if bad:
            r.fail(f'{c.name}:frozen-args', f'@frozen({bad}) changes generated equality/hash', c.where)
            continue
        dunder = [m for m in ('__eq__', '__ne__', '__hash__', '__setattr__', '__delattr__') if m in c.methods]
        if dunder:
            r.fail(f'{c.name}:dunder', f'class {c.name} defines {dunder}: equality/hash/immutability no longer the generated field-wise ones', c.where)
        else:
            r.ok(f'{c.name}: @frozen, generated __eq__/__hash__')
    r.floor('frozen classes', len(classes), 36)
    return r


def A2(ctx: Ctx) -> RuleResult:
    r = RuleResult('A2', 'HplAstObject.metadata: factory=dict, init=False, eq=False (and no other AST field is excluded from equality)')
    root = ctx.model.ast_root()
    f = root.field('metadata')
    if f is None:
        raise AnalysisError('A2', 'HplAstObject.metadata not found')
    fac = f.factory
    if fac is not None and ast.unparse(fac) == 'dict':
        r.ok('metadata: factory=dict (a fresh dict per object)')
    else:
        r.fail('HplAstObject.metadata:factory', f'metadata default is {ast.unparse(fac) if fac is not None else ast.unparse(f.default) if f.default is not None else None}: not a fresh dict per object', f.where)
    if f.init:
        r.fail('HplAstObject.metadata:init', 'metadata is an __init__ parameter: evolve() would share the dict between copies', f.where)
    else:
        r.ok('metadata: init=False')
    if f.eq:
        r.fail('HplAstObject.metadata:eq', 'metadata takes part in equality and hashing (a dict: unhashable)', f.where)
    else:
        r.ok('metadata: eq=False')
    if f.kw_const('hash') is True:
        r.fail('HplAstObject.metadata:hash', 'metadata takes part in hashing', f.where)
    n = 0
    for c in ctx.model.concrete_ast_classes():
        for fl in c.fields():
            n += 1
            if fl.name == 'metadata':
                if fl.cls is not root:
                    r.fail(f'{c.name}.metadata', 'metadata field redefined in a subclass', fl.where)
                continue
            if not fl.eq or fl.kw_const('hash') is False:
                r.fail(f'{c.name}.{fl.name}:eq', f'field {fl.name} is excluded from equality/hash: two different ASTs compare equal', fl.where)
            elif 'eq' in fl.kwargs and not isinstance(fl.kwargs['eq'], ast.Constant):
                r.fail(f'{c.name}.{fl.name}:eq', f'field {fl.name} has a custom eq key {ast.unparse(fl.kwargs["eq"])}', fl.where)
            else:
                r.ok(f'{c.name}.{fl.name}: eq')
    r.floor('fields', n, 60)
    return r


# ------------------------------------------------------------------ A3
# expected constraint per child field: ('const', {types}) | ('opattr', 'parameter1') | ('overload',)
CHILD_CONSTRAINTS = {
    ('HplSet', 'values'): ('const', {'BOOL', 'NUMBER', 'STRING'}),
    ('HplRange', 'min_value'): ('const', {'NUMBER'}),
    ('HplRange', 'max_value'): ('const', {'NUMBER'}),
    ('HplQuantifier', 'domain'): ('const', {'ARRAY', 'RANGE', 'SET'}),
    ('HplQuantifier', 'condition'): ('const', {'BOOL'}),
    ('HplUnaryOperator', 'operand'): ('opattr', 'parameter'),
    ('HplBinaryOperator', 'operand1'): ('opattr', 'parameter1'),
    ('HplBinaryOperator', 'operand2'): ('opattr', 'parameter2'),
    ('HplFieldAccess', 'message'): ('const', {'MESSAGE'}),
    ('HplArrayAccess', 'array'): ('const', {'ARRAY'}),
    ('HplArrayAccess', 'index'): ('const', {'NUMBER'}),
    ('HplFunctionCall', 'arguments'): ('overload',),
    ('HplPredicateExpression', 'expression'): ('const', {'BOOL'}),
}


def _type_desc(ctx: Ctx, t: Term, self_t: Term) -> Optional[Tuple]:
    fs = flagset(ctx, t)
    if fs is not None:
        return ('const', set(fs))
    if isinstance(t, Attr) and t.base == Attr(self_t, 'operator'):
        return ('opattr', t.name)
    return None


def field_narrowings(ctx: Ctx, c: ClassInfo, f: FieldInfo) -> List[Tuple[str, Tuple, bool, str]]:
    """[(mechanism, type descriptor, narrows-the-stored-value?, where)] for one field"""
    out: List[Tuple[str, Tuple, bool, str]] = []
    self_t = Sym('self', c.name)
    # converter
    conv = f.kwargs.get('converter')
    if conv is not None:
        ct = ctx.ev.expr(conv, _State(), f.cls.module, None, 0)
        if isinstance(ct, GlobalVal):
            ct = ct.value
        fi = ctx.ev.callee(ct) if isinstance(ct, (FuncRef, BoundMethod)) else None
        outs_c: List[Outcome] = []
        val = Sym('value')
        where_c = f.where
        cname = ast.unparse(conv)
        if fi is not None:
            params = fi.params()
            outs_c = ctx.ev.run(fi, {params[0]: val})
            where_c, cname = fi.where, fi.name
        elif not isinstance(ct, (Ext, ClassRef)):
            # a converter that is not a plain function (operator.methodcaller, a lambda, a partial built by a factory):
            # its result on a symbolic value
            st0 = _State()
            res = ctx.ev.apply(ct, (val,), (), st0, 0)
            outs_c = [Outcome('return', res, (), st0.effects, st0.asserts, 0, None, st0.trace)]
        if outs_c:
            fi_name = cname
            outs = outs_c
            for o in outs:
                if o.kind != 'return':
                    continue
                v = o.value
                each = None
                if isinstance(v, Call) and isinstance(v.func, Ext) and v.func.name in ('tuple', 'list') and v.args and isinstance(v.args[0], Comp):
                    comp = v.args[0]
                    if len(comp.gens) == 1 and comp.gens[0][1] == val and not comp.gens[0][2]:
                        each = Sym(f'each:{comp.gens[0][0]}')
                        v = comp.elt
                if isinstance(v, Call) and call_name(v) == 'cast' and call_recv(v) in (val, each) and v.args:
                    td = _type_desc(ctx, v.args[0], self_t)
                    if td:
                        out.append(('converter ' + fi_name, td, True, where_c))
    # validators (decorated methods)
    for vfi in c.all_validators(f.name):
        params = vfi.params()
        if len(params) < 3:
            continue
        val = Sym('value')
        # one validator may serve several fields and ask its attribute argument which one it is checking
        attr_t = Sym('attribute')
        ctx.ev.assume[Attr(attr_t, 'name')] = Const(f.name)
        try:
            outs = ctx.ev.run(vfi, {params[0]: self_t, params[1]: attr_t, params[2]: val}, self_cls=c)
        finally:
            ctx.ev.assume.pop(Attr(attr_t, 'name'), None)
        for o in outs:
            # the primitives, wherever the helpers put them: the intersection test value.data_type & T (checked), and
            # object.__setattr__(value, 'data_type', ... value.data_type & T ...) (narrowed)
            prim: Dict[str, List] = {}
            vdt = Attr(val, 'data_type')
            for e in list(o.effects) + list(o.trace) + [g for g, _ in o.guards]:
                stores = [x for x in walk(e) if isinstance(x, Call) and isinstance(x.func, Ext) and x.func.name in ('object.__setattr__', 'setattr')
                          and len(x.args) == 3 and x.args[0] == val and x.args[1] == Const('data_type')]
                for x in walk(e):
                    tt = None
                    if isinstance(x, Op) and x.op == '&' and len(x.args) == 2 and vdt in x.args:
                        tt = x.args[1] if x.args[0] == vdt else x.args[0]
                    elif isinstance(x, Call) and call_name(x) in ('cast', 'can_be') and call_recv(x) == vdt and x.args:
                        tt = x.args[0]
                    if tt is None:
                        continue
                    td = _type_desc(ctx, tt, self_t)
                    if td:
                        narrowed = any(any(y == x for y in walk(st.args[2])) for st in stores)
                        ent = prim.setdefault(repr(td), [td, False])
                        ent[1] = ent[1] or narrowed
            for td, narrowed in prim.values():
                out.append((f'validator {vfi.name}' + (' force' if narrowed else ''), td, bool(narrowed), vfi.where))
            if not prim:
              for call in method_calls(list(o.effects) + list(o.trace), '_type_check'):
                if call_recv(call) == self_t and call.args and call.args[0] == val and len(call.args) >= 2:
                    td = _type_desc(ctx, call.args[1], self_t)
                    force = call.kw('force') == Const(True)
                    if td:
                        out.append((f'validator {vfi.name}' + (' force' if force else ''), td, force, vfi.where))
            for call in method_calls(list(o.effects) + list(o.trace), 'check_arguments'):
                if call.args and call.args[0] == val:
                    out.append((f'validator {vfi.name} check_arguments', ('overload',), False, vfi.where))
            if any(isinstance(x, Call) and call_name(x) == 'can_be_bool' for t in outcome_terms(o) for x in walk(t)):
                pass
    # validator=_type_checker(T, force=True)
    vkw = f.kwargs.get('validator')
    if vkw is not None:
        nodes = vkw.elts if isinstance(vkw, (ast.List, ast.Tuple)) else [vkw]
        for nd in nodes:
            # the validator object applied to (instance, attribute, value): what it does with the value
            if isinstance(nd, ast.Name):
                # a class-level name bound to a validator built in the class body
                for k_ in f.cls.mro():
                    if nd.id in k_.class_assigns:
                        nd = k_.class_assigns[nd.id]
                        break
            vt = ctx.ev.expr(nd, _State(), f.cls.module, None, 0)
            if isinstance(vt, GlobalVal):
                vt = vt.value
            if isinstance(vt, (Lam, New)):
                st1 = _State()
                ctx.ev.apply(vt, (self_t, Sym('attribute'), Sym('value')), (), st1, 0)
                found = False
                for call in method_calls(list(st1.effects) + list(st1.trace), '_type_check'):
                    if call_recv(call) == self_t and len(call.args) >= 2 and call.args[0] == Sym('value'):
                        td = _type_desc(ctx, call.args[1], self_t)
                        force = call.kw('force') == Const(True)
                        if td:
                            out.append((f'validator {ast.unparse(nd.func) if isinstance(nd, ast.Call) else ast.unparse(nd)}' + (' force' if force else ''), td, force, f.where))
                            found = True
                if found:
                    continue
            if isinstance(nd, ast.Call) and ctx.model.canon(ast.unparse(nd.func)) == '_type_checker' and nd.args:
                tt = ctx.ev.expr(nd.args[0], _State(), f.cls.module, None, 0)
                td = _type_desc(ctx, tt, self_t)
                force = any(kw.arg == 'force' and isinstance(kw.value, ast.Constant) and kw.value.value is True for kw in nd.keywords)
                if td:
                    out.append(('validator _type_checker' + (' force' if force else ''), td, force, f.where))
    return out


def A3(ctx: Ctx, mode: str = 'exact', rid: str = 'A3') -> RuleResult:
    title = {
        'exact': 'every expression-typed child field is narrowed on construction to exactly its parameter type (converter cast / forcing validator)',
        'present': 'every expression-typed child field has a type constraint that is not wider than its parameter type',
        'notnarrow': 'no child-field constraint is narrower than its parameter type',
    }[mode]
    r = RuleResult(rid, title)
    tab = slot_table(ctx)
    expr_root = ctx.model.cls('HplExpression', rid)
    n = 0
    for cname, slots in tab.items():
        c = ctx.model.cls(cname)
        for s in slots:
            tgt = ctx.model.cls(s.target)
            if expr_root not in tgt.mro() and s.target != 'HplExpression':
                continue
            n += 1
            key = f'{cname}.{s.name}'
            want = CHILD_CONSTRAINTS.get((cname, s.name))
            got = field_narrowings(ctx, c, s.f)
            if want is None:
                if not got:
                    r.fail(key, f'new expression-typed field {s.name} has no type constraint at all', s.f.where)
                else:
                    r.ok(f'{key}: (not in table) {got}')
                continue
            if want == ('overload',):
                if any(g[1] == ('overload',) for g in got):
                    r.ok(f'{key}: accepted by an overload (check_arguments)')
                else:
                    r.fail(key, 'arguments are not checked against the function overloads', s.f.where)
                if mode == 'exact' and not any(g[2] for g in got):
                    r.fail(key + ':narrow', 'arguments are accepted by can_be() but never narrowed to the parameter types of the accepting overload (abs(x) keeps x: ANY)', s.f.where)
                continue
            matching = [g for g in got if g[1][0] == want[0]]
            if not matching:
                r.fail(key, f'field {s.name} has no constraint of the expected kind {want}; found {got}', s.f.where, str(want), str(got))
                continue
            ok_any = False
            for mech, td, narrows, where in matching:
                if want[0] == 'const':
                    g, w = td[1], want[1]
                    if mode in ('exact', 'present') and g - w:
                        r.fail(key + ':wider', f'{mech} admits {sorted(g)}, wider than the parameter type {sorted(w)}', where, sorted(w), sorted(g))
                        continue
                    if mode in ('exact', 'notnarrow') and w - g:
                        r.fail(key + ':narrower', f'{mech} admits only {sorted(g)}, narrower than the parameter type {sorted(w)}', where, sorted(w), sorted(g))
                        continue
                else:
                    if td[1] != want[1]:
                        r.fail(key + ':param', f'{mech} checks {s.name} against operator.{td[1]} instead of operator.{want[1]}', where, want[1], td[1])
                        continue
                ok_any = True
            if mode == 'exact' and ok_any and not any(g[2] for g in matching):
                r.fail(key + ':narrow', f'field {s.name} is checked but the stored child is not narrowed (no cast converter / force=True): {[g[0] for g in matching]}', s.f.where)
            elif ok_any:
                r.ok(f'{key}: {[(g[0], sorted(g[1][1]) if g[1][0] == "const" else g[1][1]) for g in matching]}')
    r.floor('expression-typed child fields', n, 13)
    if mode == 'exact':
        _unification(ctx, r)
        _quantifier_var(ctx, r)
    return r


def A3u(ctx: Ctx) -> RuleResult:
    r = RuleResult('A3u', 'both sides of = and != are unified to a common type set and stored back; occurrences of a bound variable are checked against the element type of the domain')
    _unification(ctx, r)
    _quantifier_var(ctx, r)
    return r


def A3r(ctx: Ctx) -> RuleResult:
    r = RuleResult('A3r', 'predicate root: predicate_from_expression rejects a non-boolean root with TypeError before anything else; HplPredicateExpression casts its expression to BOOL')
    fi = ctx.model.func('hpl.ast.predicates', 'predicate_from_expression', 'A3r')
    e = Sym('expr', 'HplExpression')
    outs = ctx.ev.run(fi, {fi.params()[0]: e})
    rej = False
    for o in outs:
        gs = norm_guards(o.guards)
        boolish = [pol for t, pol in gs if any((isinstance(x, Attr) and x.name in ('can_be_bool',)) or (isinstance(x, Op) and x.op == '&' and 'BOOL' in repr(x)) for x in walk(t))]
        if o.kind == 'raise' and 'TypeError' in repr(o.value) and boolish == [False] and len(gs) == 1:
            rej = True
        if o.kind != 'raise' and (not boolish or boolish[0] is not True):
            r.fail('predicate_from_expression:root', f'a path builds a predicate without having established that the root can be boolean: [{guards_repr(gs)[:100]}] (a non-boolean literal would reach the literal fast path and its assertion)', fi.where)
    (r.ok('predicate_from_expression: not can_be_bool -> TypeError, first') if rej else r.fail('predicate_from_expression:reject', 'no leading path raises TypeError for a root that cannot be boolean', fi.where))
    c = ctx.model.cls('HplPredicateExpression', 'A3r')
    got = field_narrowings(ctx, c, c.field('expression'))
    if any(g[1] == ('const', {'BOOL'}) and g[2] for g in got):
        r.ok('HplPredicateExpression.expression: cast to BOOL on construction')
    else:
        r.fail('HplPredicateExpression.expression:root', f'the stored expression is not narrowed to BOOL: {got}', c.where)
    return r


def A3p(ctx): return A3(ctx, 'present', 'A3p')
def A3n(ctx): return A3(ctx, 'notnarrow', 'A3n')


def _unification(ctx: Ctx, r: RuleResult):
    """both sides of = / != (every operator whose parameter types overlap) are unified"""
    c = ctx.model.cls('HplBinaryOperator', 'A3')
    fi = c.resolve('__attrs_post_init__')
    if fi is None:
        r.fail('HplBinaryOperator.__attrs_post_init__', 'missing: result type and operand unification are never applied', c.where)
        return
    self_t = Sym('self', 'HplBinaryOperator')
    for m, row in binary_rows(ctx).items():
        tok = row['token']
        if tok not in ('=', '!='):
            continue
        ev = Evaluator(ctx.model, assume={Attr(self_t, 'operator'): row['term']})
        outs = ev.run(fi, {'self': self_t})
        live = [o for o in outs if not any((isinstance(t, Const) and bool(t.value) != pol) for t, pol in o.guards)]
        live = [o for o in live if all(isinstance(t, Const) for t, _ in o.guards)] or live
        if len(live) != 1:
            r.fail(f'HplBinaryOperator.__attrs_post_init__[{tok}]', f'cannot decide which path {tok!r} takes: {[guards_repr(o.guards) for o in live]}', fi.where)
            continue
        o = live[0]
        stores = {}
        for e in o.effects:
            if isinstance(e, Call) and isinstance(e.func, Ext) and e.func.name == 'object.__setattr__' and len(e.args) == 3 and e.args[0] == self_t and isinstance(e.args[1], Const):
                stores[e.args[1].value] = e.args[2]
        a, b = stores.get('operand1'), stores.get('operand2')
        op1, op2 = Attr(self_t, 'operand1'), Attr(self_t, 'operand2')

        def is_cast_to(x, recv, other_dt_of):
            return isinstance(x, Call) and call_name(x) == 'cast' and call_recv(x) == recv and x.args and isinstance(x.args[0], Attr) and x.args[0].name == 'data_type' and (x.args[0].base == other_dt_of or (isinstance(x.args[0].base, Call) and call_name(x.args[0].base) == 'cast'))
        if a is not None and b is not None and is_cast_to(a, op1, op2) and is_cast_to(b, op2, op1):
            r.ok(f'operator {tok!r}: operand1.cast(operand2.data_type), operand2.cast(that) stored back')
        else:
            r.fail(f'HplBinaryOperator.__attrs_post_init__[{tok}]:unify', f'both sides of {tok!r} are not unified to a common type set (operand1={a!r}, operand2={b!r})', fi.where)


def _quantifier_var(ctx: Ctx, r: RuleResult):
    c = ctx.model.cls('HplQuantifier', 'A3')
    self_t = Sym('self', 'HplQuantifier')
    found = False
    for vfi in c.all_validators('condition'):
        params = vfi.params()
        outs = ctx.ev.run(vfi, {params[0]: self_t, params[2]: Sym('value')}, self_cls=c)
        for t in all_terms(outs):
            for x in walk(t):
                if isinstance(x, Loop):
                    for pg, flow, binds, effs in x.paths:
                        for call in method_calls(list(effs), '_type_check'):
                            if call.args and isinstance(call.args[0], Sym) and call.args[0].name.startswith('each:'):
                                gs = flat_guards(pg)
                                if any(isinstance(g, Op) and g.op == '==' and Attr(self_t, 'variable') in g.args and pol for g, pol in gs):
                                    found = True
    if found:
        r.ok('HplQuantifier: occurrences of the bound variable in the body are type-checked against the element type of the domain')
    else:
        r.fail('HplQuantifier.condition:var-type', 'occurrences of the bound variable are not checked against the element type of the domain', c.where)
    # the element type is taken from the domain for set AND range literals
    dom = Attr(self_t, 'domain')
    kinds_using_subtypes = set()

    def uses_subtypes(t) -> bool:
        return any(isinstance(x, Attr) and x.base == dom and x.name == 'subtypes' for x in walk(t))

    def kinds_in(test, pol: bool):
        """the kinds of literal domain (is_set / is_range; a domain is one or the other, never both) for which `test`
        evaluates to `pol`"""
        from .terms import eval_bool
        for k, other in (('is_set', 'is_range'), ('is_range', 'is_set')):
            if not any(isinstance(x, Attr) and x.base == dom and x.name == k for x in walk(test)):
                continue
            known = {Attr(dom, k): True, Attr(dom, other): False, Attr(dom, 'is_value'): True}
            if eval_bool(test, known) is pol:
                yield k
    for vfi in c.all_validators('condition'):
        params = vfi.params()
        outs = ctx.ev.run(vfi, {params[0]: self_t, params[2]: Sym('value')}, self_cls=c)
        for o in outs:
            terms = all_terms([o])
            # the choice is a conditional expression (possibly from an inlined helper)
            for t in terms:
                for x in walk(t):
                    if isinstance(x, Ite):
                        if uses_subtypes(x.a) and not uses_subtypes(x.test):
                            kinds_using_subtypes.update(kinds_in(x.test, True))
                        if uses_subtypes(x.b) and not uses_subtypes(x.test):
                            kinds_using_subtypes.update(kinds_in(x.test, False))
            # ... or a branch
            if not any(uses_subtypes(t) and not any(isinstance(x, Ite) and (uses_subtypes(x.a) or uses_subtypes(x.b)) for x in walk(t)) for t in terms):
                continue
            for t, pol in o.guards:
                kinds_using_subtypes.update(kinds_in(t, pol))
    for k, label in (('is_set', 'set'), ('is_range', 'range')):
        if k in kinds_using_subtypes:
            r.ok(f'HplQuantifier: bound variable typed by the element type of a {label} literal domain')
        else:
            r.fail(f'HplQuantifier.condition:var-type:{label}', f'for a {label} literal domain the bound variable is not typed by the element type of the domain (falls back to PRIMITIVE): "forall i in [0 to 3]: @i" would be accepted', c.where)


# ------------------------------------------------------------------ A4
DEFAULT_TYPES = {
    'HplSet': {'SET'}, 'HplRange': {'RANGE'}, 'HplQuantifier': {'BOOL'}, 'HplThisMessage': {'MESSAGE'},
    'HplVarReference': {'BOOL', 'NUMBER', 'STRING', 'MESSAGE'}, 'HplLiteral': {'BOOL', 'NUMBER', 'STRING'},
    'HplFieldAccess': {'BOOL', 'NUMBER', 'STRING', 'MESSAGE', 'ARRAY'}, 'HplArrayAccess': {'BOOL', 'NUMBER', 'STRING', 'MESSAGE', 'ARRAY'},
}


def A4(ctx: Ctx) -> RuleResult:
    r = RuleResult('A4', 'result types: operator/function nodes take data_type from the definition; default_data_type per class; literal type by value; own-type validator attached')
    m = ctx.model
    for cname, src in (('HplUnaryOperator', ('operator', 'result')), ('HplBinaryOperator', ('operator', 'result')), ('HplFunctionCall', ('function', 'result'))):
        c = m.cls(cname, 'A4')
        fi = c.resolve('__attrs_post_init__')
        self_t = Sym('self', cname)
        if fi is None:
            r.fail(f'{cname}.__attrs_post_init__', 'missing: data_type never set to the declared result type', c.where)
            continue
        outs = ctx.ev.run(fi, {'self': self_t}, self_cls=c)
        want = ctx.ev.attr(Attr(self_t, src[0]), src[1], _State(), 0)
        for o in outs:
            if o.kind == 'raise':
                continue
            vals = [e.args[2] for e in o.effects if isinstance(e, Call) and isinstance(e.func, Ext) and e.func.name == 'object.__setattr__' and len(e.args) == 3 and e.args[0] == self_t and e.args[1] == Const('data_type')]
            if vals and vals[-1] == want:
                r.ok(f'{cname}: data_type := {src[0]}.{src[1]} [{guards_repr(o.guards)[:50]}]')
            else:
                r.fail(f'{cname}.__attrs_post_init__:data_type', f'on path [{guards_repr(o.guards)[:80]}] data_type is set to {vals[-1] if vals else None!r} instead of {src[0]}.{src[1]}', fi.where)
    # FunctionDefinition.result = union of overload results
    fd = m.cls('FunctionDefinition', 'A4')
    fi = fd.resolve('result')
    # DataType.union itself is rule L4's business: keep it as a call here
    outs = Evaluator(ctx.model, inline=lambda f, d: not (f.cls is not None and f.cls.name == 'DataType') and ctx.ev.inline(f, d)).run(fi, {'self': Sym('self', 'FunctionDefinition')})
    ok = False
    if len(outs) == 1 and outs[0].kind == 'return':
        v = outs[0].value
        src_it = None
        if isinstance(v, Call) and call_name(v) == 'union' and v.args:
            src_it = v.args[0]
        elif isinstance(v, Call) and isinstance(v.func, Ext) and v.func.name in ('functools.reduce', 'reduce') and len(v.args) == 3 \
                and isinstance(v.args[0], Ext) and v.args[0].name in ('operator.or_', 'or_') and flagset(ctx, v.args[2]) == frozenset():
            src_it = v.args[1]  # DataType.union looked through (rule L4 checks it)
        if isinstance(src_it, Comp):
            comp = src_it
            ok = isinstance(comp.elt, Attr) and comp.elt.name == 'result' and comp.gens[0][1] == Attr(Sym('self', 'FunctionDefinition'), 'overloads') and not comp.gens[0][2]
    (r.ok('FunctionDefinition.result = union of overload results') if ok else r.fail('FunctionDefinition.result', f'not the union of the overload results: {[str(o) for o in outs]}', fi.where))
    # default_data_type table
    for c in m.concrete_ast_classes():
        if m.cls('HplExpression') not in c.mro():
            continue
        fi = c.resolve('default_data_type')
        outs = ctx.ev.run(fi, {'self': Sym('self', c.name)}, self_cls=c)
        fs = flagset(ctx, outs[0].value) if len(outs) == 1 and outs[0].kind == 'return' else None
        want = DEFAULT_TYPES.get(c.name)
        if fs is None:
            r.fail(f'{c.name}.default_data_type', 'does not fold to a constant type set', fi.where)
        elif want is not None and set(fs) != want:
            r.fail(f'{c.name}.default_data_type', f'kind type set is {sorted(fs)}, expected {sorted(want)}', fi.where, sorted(want), sorted(fs))
        else:
            r.ok(f'{c.name}.default_data_type = {sorted(fs)}')
    # literal dispatch
    lit = m.cls('HplLiteral', 'A4')
    fi = lit.resolve('__attrs_post_init__')
    self_l = Sym('self', 'HplLiteral')
    # (a helper that picks the type from a table of (python type, data type) rows is looked through)
    outs = Evaluator(ctx.model, inline=helper_inline((fi.module.name,))).run(fi, {'self': self_l}, self_cls=lit)
    seen = {}
    cases = []
    for o in outs:
        vals = [e.args[2] for e in o.effects if isinstance(e, Call) and isinstance(e.func, Ext) and e.func.name == 'object.__setattr__' and len(e.args) == 3 and e.args[1] == Const('data_type')]
        if not vals:
            cases.append((o.guards, None))
            continue
        for g2, leaf in alternatives(vals[-1]):
            cases.append((tuple(o.guards) + tuple(g2), leaf))
    for guards_, leaf in cases:
        fs = flagset(ctx, leaf) if leaf is not None else None
        gs = norm_guards(guards_)
        pos = ' '.join(repr(t) for t, pol in gs if pol)
        if fs is None:
            r.fail('HplLiteral.__attrs_post_init__', f'path [{guards_repr(gs)}] does not set a constant data_type', fi.where)
            continue
        kind = sorted(fs)[0] if len(fs) == 1 else None
        if kind == 'BOOL' and ('is True' in pos and 'is False' in pos or 'bool' in pos):
            seen['BOOL'] = True
        elif kind == 'STRING' and 'str' in pos:
            seen['STRING'] = True
        elif kind == 'NUMBER' and not pos:
            seen['NUMBER'] = True
        elif kind == 'NUMBER' and ('int' in pos or 'float' in pos):
            seen['NUMBER'] = True
        else:
            r.fail('HplLiteral.__attrs_post_init__:dispatch', f'value kind -> type mismatch on path [{guards_repr(gs)}] -> {sorted(fs)}', fi.where)
    for k in ('BOOL', 'STRING', 'NUMBER'):
        (r.ok(f'HplLiteral: {k} by value kind') if seen.get(k) else r.fail(f'HplLiteral.__attrs_post_init__:{k}', f'no path types {k} literals', fi.where))
    # own-type validator
    ex = m.cls('HplExpression')
    vs = ex.all_validators('data_type')
    ok = False
    for v in vs:
        params = v.params()
        # (the kind type set stays visible as self.default_data_type: the per-class table above decides its values)
        ev_v = Evaluator(ctx.model, inline=lambda f, d: f.name != 'default_data_type' and ctx.ev.inline(f, d))
        outs = ev_v.run(v, {params[0]: Sym('self', 'HplExpression'), params[2]: Sym('value')})
        sv, vv = Attr(Sym('self', 'HplExpression'), 'default_data_type'), Sym('value')
        for t in all_terms(outs):
            for x in walk(t):
                if isinstance(x, Op) and x.op == '&' and sv in x.args and vv in x.args:
                    ok = True
                if isinstance(x, Call) and call_name(x) in ('can_be', 'cast') and {call_recv(x)} | set(x.args) >= {sv, vv}:
                    ok = True
    (r.ok('HplExpression.data_type validator: non-empty intersection with the kind type set') if ok else r.fail('HplExpression.data_type:validator', 'no validator relates data_type to default_data_type', ex.where))
    return r


# ------------------------------------------------------------------ A5
def A5(ctx: Ctx) -> RuleResult:
    r = RuleResult('A5', 'type-token validators: max>=min, length>=-1, enumerated value kinds, base type membership, contains_index')
    m = ctx.model
    # RangedType.max_value validator raises when value < min_value
    rt = m.cls('RangedType', 'A5')
    self_t = Sym('self', 'RangedType')
    ok = False
    for v in rt.all_validators('max_value'):
        params = v.params()
        val = Sym('value')
        for o in ctx.ev.run(v, {params[0]: self_t, params[2]: val}):
            if o.kind == 'raise':
                for t, pol in norm_guards(o.guards):
                    if isinstance(t, Op) and pol and ((t.op == '<' and t.args == (val, Attr(self_t, 'min_value'))) or (t.op == '>' and t.args == (Attr(self_t, 'min_value'), val))):
                        ok = True
                    if isinstance(t, Op) and not pol and ((t.op == '>=' and t.args == (val, Attr(self_t, 'min_value'))) or (t.op == '<=' and t.args == (Attr(self_t, 'min_value'), val))):
                        ok = True
                    if isinstance(t, Op) and pol and t.op in ('<=',) and t.args == (val, Attr(self_t, 'min_value')):
                        r.fail('RangedType.max_value:validator', 'rejects max == min (a one-value range is well-formed)', v.where)
    (r.ok('RangedType: raises iff max_value < min_value') if ok else r.fail('RangedType.max_value:validator', 'no validator rejects max_value < min_value', rt.where))
    # ArrayType.length ge(-1)
    at = m.cls('ArrayType', 'A5')
    f = at.field('length')
    vsrc = ast.unparse(f.kwargs['validator']) if f is not None and 'validator' in f.kwargs else ''
    if 'ge(-1)' in vsrc.replace(' ', ''):
        r.ok('ArrayType.length: ge(-1)')
    else:
        r.fail('ArrayType.length:validator', f'length validator is {vsrc!r}, expected ge(-1) (-1 = variable length)', f.where if f else at.where)
    if f is not None and not (isinstance(f.default, ast.UnaryOp) and ast.unparse(f.default) == '-1'):
        r.fail('ArrayType.length:default', f'default length is {ast.unparse(f.default) if f.default is not None else None}, expected -1 (variable length)', f.where)
    # contains_index: length < 0 or index < length ; is_fixed_length: length >= 0
    self_a = Sym('self', 'ArrayType')
    idx = Sym('index')
    fi = at.resolve('contains_index')
    outs = ctx.ev.run(fi, {'self': self_a, 'index': idx})
    good = False
    if len(outs) == 1 and outs[0].kind == 'return':
        good = _contains_index_ok(outs[0].value, Attr(self_a, 'length'), idx)
    (r.ok('ArrayType.contains_index = length < 0 or index < length') if good else r.fail('ArrayType.contains_index', f'not (variable length or index < length): {[str(o) for o in outs]}', fi.where))
    fi = at.resolve('is_fixed_length')
    outs = ctx.ev.run(fi, {'self': self_a})
    good = len(outs) == 1 and outs[0].kind == 'return' and _cmp_norm(outs[0].value) in ((Attr(self_a, 'length'), '>=', Const(0)), (Attr(self_a, 'length'), '>', Const(-1)))
    (r.ok('ArrayType.is_fixed_length = length >= 0') if good else r.fail('ArrayType.is_fixed_length', f'not length >= 0: {[str(o) for o in outs]}', fi.where))
    # TypeToken.type in_(BASE_TYPES) ; BASE_TYPES are single base members
    tt = m.cls('TypeToken', 'A5')
    f = tt.field('type')
    vsrc = ast.unparse(f.kwargs['validator']) if f is not None and 'validator' in f.kwargs else ''
    if vsrc.replace(' ', '') == 'in_(BASE_TYPES)':
        bt = ctx.ev.global_term(m.module('hpl.types'), 'BASE_TYPES')
        sets = [flagset(ctx, x) for x in bt.items] if isinstance(bt, TupleT) else []
        if sets and all(s is not None and len(s) == 1 for s in sets):
            r.ok(f'TypeToken.type in BASE_TYPES = {sorted(next(iter(s)) for s in sets)}')
        else:
            r.fail('hpl.types.BASE_TYPES', f'BASE_TYPES are not single base types: {bt!r}', tt.where)
    else:
        r.fail('TypeToken.type:validator', f'type validator is {vsrc!r}, expected in_(BASE_TYPES)', f.where if f else tt.where)
    # EnumeratedType._check_values
    et = m.cls('EnumeratedType', 'A5')
    self_e = Sym('self', 'EnumeratedType')
    kinds = {}
    raises = False

    def isinstance_tests(gs):
        """second arguments of `not isinstance(<value>, X)` among the (flattened) tests"""
        return [t.args[1] for t, pol in flat_guards(tuple(gs)) if isinstance(t, Call) and isinstance(t.func, Ext) and t.func.name == 'isinstance' and not pol and len(t.args) == 2]
    for v in et.all_validators('values'):
        params = v.params()
        for k in ('BOOL', 'NUMBER', 'STRING'):
            # the validator specialised to one kind of enumeration (helpers and tables of hpl.types looked through)
            ev_k = Evaluator(ctx.model, inline=helper_inline(('hpl.types',)), assume={Attr(self_e, 'type'): EnumMember('DataType', k)})
            for o in ev_k.run(v, {params[0]: self_e, params[2]: Sym('values')}):
                found = []
                for e in o.effects:
                    if isinstance(e, Loop):
                        for rg, exc in e.raises:
                            found += isinstance_tests(rg)
                if o.kind == 'raise':
                    found += isinstance_tests(o.guards)
                    for it, each, cond in search_tests(ev_k, o.guards):
                        found += isinstance_tests(((cond, True),))
                if found:
                    raises = True
                    kinds.setdefault(k, found[0])
    want = {'BOOL': 'bool', 'NUMBER': 'int', 'STRING': 'str'}
    for k, w in want.items():
        got = kinds.get(k)
        txt = repr(got)
        if got is None:
            r.fail(f'EnumeratedType._check_values:{k}', f'no kind check for {k} enumerations', et.where)
        elif f'ext:{w}' not in txt or (k == 'BOOL' and 'ext:int' in txt) or (k == 'STRING' and ('ext:int' in txt or 'ext:bool' in txt)) or (k == 'NUMBER' and 'ext:str' in txt):
            r.fail(f'EnumeratedType._check_values:{k}', f'{k} enumerations expect values of {txt}', et.where, w, txt)
        else:
            r.ok(f'EnumeratedType: {k} values must be {txt}')
    (r.ok('EnumeratedType: raises on a value of the wrong kind') if raises else r.fail('EnumeratedType._check_values:raise', 'no path raises for a value of the wrong kind', et.where))
    return r


def _cmp_norm(t: Term):
    if isinstance(t, Op) and t.op in ('<', '<=', '>', '>=') and len(t.args) == 2:
        a, b = t.args
        if isinstance(a, Const) and not isinstance(b, Const):
            flip = {'<': '>', '<=': '>=', '>': '<', '>=': '<='}[t.op]
            return (b, flip, a)
        return (a, t.op, b)
    return None


def _contains_index_ok(v: Term, length: Term, idx: Term) -> bool:
    if not (isinstance(v, Op) and v.op == 'or' and len(v.args) == 2):
        return False
    var = bounded = False
    for a in v.args:
        n = _cmp_norm(a)
        if n in ((length, '<', Const(0)), (length, '<=', Const(-1))):
            var = True
        if isinstance(a, Op) and ((a.op == '<' and a.args == (idx, length)) or (a.op == '>' and a.args == (length, idx))):
            bounded = True
        if isinstance(a, Op) and a.op == 'not':
            inner = a.args[0]
            if isinstance(inner, Attr) and inner.name == 'is_fixed_length':
                var = True
            n2 = _cmp_norm(inner)
            if n2 in ((length, '>=', Const(0)), (length, '>', Const(-1))):
                var = True
    return var and bounded


# ------------------------------------------------------------------ A6
A6_TABLE = {
    'HplScope': {
        'GLOBAL': {'activator': True, 'terminator': True},
        'AFTER': {'activator': False, 'terminator': True},
        'UNTIL': {'activator': True, 'terminator': False},
        'AFTER_UNTIL': {'activator': False, 'terminator': False},
    },
    'HplPattern': {
        'ABSENCE': {'trigger': True}, 'EXISTENCE': {'trigger': True},
        'REQUIREMENT': {'trigger': False}, 'RESPONSE': {'trigger': False}, 'PREVENTION': {'trigger': False},
    },
}


def A6(ctx: Ctx) -> RuleResult:
    r = RuleResult('A6', 'scope/pattern validators: activator iff after*, terminator iff *until, trigger iff requirement/response/prevention (read from the raise paths of the attrs validators)')
    for cname, table in A6_TABLE.items():
        c = ctx.model.cls(cname, 'A6')
        facts = optional_facts(ctx, c)
        enum_field = [f.name for f in c.fields() if ctx.ev.ann_class(f.annotation, f.cls.module) is not None and ctx.ev.ann_class(f.annotation, f.cls.module).is_enum][0]
        by_member: Dict[str, List[Dict]] = {}
        for d in facts:
            by_member.setdefault(d[enum_field].name, []).append(d)
        for member, want in table.items():
            combos = by_member.get(member, [])
            for slot, must_be_none in want.items():
                allowed = {d[slot] for d in combos}
                if allowed == {must_be_none}:
                    r.ok(f'{cname}[{member}].{slot} must be {"None" if must_be_none else "present"}')
                else:
                    r.fail(f'{cname}[{member}].{slot}', f'validators allow {slot} to be {["present" if not a else "None" for a in sorted(allowed)]} for {member}; expected only {"None" if must_be_none else "present"}', c.where)
        for member in by_member:
            if member not in table:
                r.notes.append(f'{cname}: new member {member} not in table')
    # time bounds of a pattern: max_time is rejected exactly when it is below min_time (equal bounds are a valid window)
    pc = ctx.model.cls('HplPattern', 'A6')
    self_p = Sym('self', 'HplPattern')
    seen_max = False
    for v in pc.all_validators('max_time'):
        ps = v.params()
        val = Sym('value')
        for o in ctx.ev.run(v, {ps[0]: self_p, ps[2]: val}):
            if o.kind != 'raise':
                continue
            for t, pol in norm_guards(o.guards):
                lt = isinstance(t, Op) and ((t.op == '<' and t.args == (val, Attr(self_p, 'min_time'))) or (t.op == '>' and t.args == (Attr(self_p, 'min_time'), val)))
                ge_ = isinstance(t, Op) and ((t.op == '>=' and t.args == (val, Attr(self_p, 'min_time'))) or (t.op == '<=' and t.args == (Attr(self_p, 'min_time'), val)))
                le = isinstance(t, Op) and ((t.op == '<=' and t.args == (val, Attr(self_p, 'min_time'))) or (t.op == '>=' and t.args == (Attr(self_p, 'min_time'), val)))
                if (lt and pol) or (ge_ and not pol):
                    seen_max = True
                if le and pol:
                    r.fail('HplPattern.max_time:validator', 'rejects max_time == min_time (e.g. `within 0 s` with the default minimum 0): a well-formed pattern is refused', v.where)
                    seen_max = True
    if not seen_max:
        r.fail('HplPattern.max_time:validator', 'no validator rejects max_time < min_time', pc.where)
    else:
        r.ok('HplPattern: max_time rejected iff below min_time')
    return r


# the class every child slot must accept (instance_of / annotation): narrower classes reject well-formed trees
A7_EXPECTED = {'HplExpression'}


def A7(ctx: Ctx) -> RuleResult:
    r = RuleResult('A7', 'expression-typed child slots accept every expression: the instance_of / deep_iterable(instance_of) validator and the annotation of such a field name HplExpression itself, not a subclass')
    tab = slot_table(ctx)
    expr_root = ctx.model.cls('HplExpression', 'A7')
    n = 0
    for cname, slots in tab.items():
        c = ctx.model.cls(cname)
        if expr_root not in c.mro():
            continue
        for s_ in slots:
            f = s_.f
            val = f.kwargs.get('validator')
            names = []
            for nd in ([val] if val is not None and not isinstance(val, (ast.List, ast.Tuple)) else (val.elts if val is not None else [])):
                for x in ast.walk(nd):
                    if isinstance(x, ast.Call) and ast.unparse(x.func).split('.')[-1] == 'instance_of' and x.args:
                        names.extend(ast.unparse(a) for a in (x.args[0].elts if isinstance(x.args[0], ast.Tuple) else [x.args[0]]))
            for nm in names:
                n += 1
                k = ctx.model.classes.get(nm)
                if k is not None and expr_root in k.mro() and k is not expr_root:
                    r.fail(f'{cname}.{f.name}:instance_of', f'{cname}.{f.name} only accepts {nm}: expressions of the other classes (operators, calls, accesses) are rejected with a TypeError although the grammar puts them there', f.where, 'HplExpression', nm)
                else:
                    r.ok(f'{cname}.{f.name}: instance_of({nm})')
    r.floor('instance_of validators on expression slots', n, 5)
    return r


RULES = {'A7': A7, 'A1': A1, 'A2': A2, 'A3': A3, 'A3u': A3u, 'A3r': A3r, 'A3p': A3p, 'A3n': A3n, 'A4': A4, 'A5': A5, 'A6': A6}

"""E10 rewrite-rule schemas R1-R5.

For every syntactic path of the loop-free rewrite helpers the engine extracts
`guards -> returned constructor term`, reads the *shape* of the input from the
guards (is_not / is_or / is_implies / quantifier kind / contains_reference
flags), converts input and output to small first-order formulas over opaque
atoms, and checks the schema `input == output` with its own finite-model
routine (all valuations, domains of size 0..3; monadic formulas with <= 2
predicates have the small-model property).  Recursive calls of the helpers
themselves are taken as equivalences (induction hypothesis).  Nothing of the
repository is executed; the schemas are tables `shape -> term`.
"""
from __future__ import annotations

import ast
import itertools
from typing import Dict, List, Optional, Set, Tuple

from .ctx import Ctx
from .model import AnalysisError, FunctionInfo
from .report import RuleResult
from .terms import (Attr, BoundMethod, Call, ClassRef, Const, EnumMember, Evaluator, Ext, FuncRef, Ite, Loop, New, Op,
                    Opaque, Outcome, Sub, Sym, Term, TupleT, alternatives, default_inline, expand_outcomes, reduce_guards, flat_guards, implied_literals, unglobal, guards_repr, norm_guards, walk)
from .util import call_name, call_recv, devirtualise, method_calls

ALIAS = {'a': 'operand1', 'b': 'operand2', 'p': 'condition', 'phi': 'condition', 'd': 'domain', 'x': 'variable', 'op': 'operator', 'operand': 'operand1'}
IH_FUNCS = ('_and_presplit_transform', '_split_and_not', '_split_and_quantifier')


def canon(t: Term) -> Term:
    """normalise property aliases (.a/.operand -> .operand1, .p -> .condition, ...)"""
    if isinstance(t, Attr):
        return Attr(canon(t.base), ALIAS.get(t.name, t.name))
    if isinstance(t, Call) and isinstance(t.func, FuncRef):
        return Call(t.func, tuple(canon(a) for a in t.args), t.kwargs)
    return t


def _fname(t: Term) -> Optional[str]:
    if isinstance(t, Call) and isinstance(t.func, FuncRef):
        return t.func.key.split(':')[1]
    return None


def _unop(t: New) -> Optional[str]:
    op = t.get('operator')
    if isinstance(op, EnumMember) and op.cls == 'BuiltinUnaryOperator':
        return {'NOT': 'not', 'MINUS': 'neg'}.get(op.name)
    return None


def _binop(t: New) -> Optional[str]:
    op = t.get('operator')
    if isinstance(op, EnumMember) and op.cls == 'BuiltinBinaryOperator':
        return {'AND': 'and', 'OR': 'or', 'IMP': 'implies', 'IFF': 'iff'}.get(op.name)
    if isinstance(op, Const):
        return {'and': 'and', 'or': 'or', 'implies': 'implies', 'iff': 'iff', '=': 'eq'}.get(op.value)
    return None


class Shapes:
    """shape facts read from guards: term -> ('not'|'or'|'and'|'implies'|'iff'|'forall'|'exists'|'quant'), dependence flags"""

    def __init__(self):
        self.kind: Dict[Term, str] = {}
        self.notkind: Dict[Term, Set[str]] = {}
        self.dep: Dict[Tuple[Term, Term], bool] = {}   # (atom, variable/alias term) -> contains_reference
        self.other: List[Tuple[Term, bool]] = []
        self.options: Dict[Term, List[Set[str]]] = {}

    def _settle(self):
        for base, opts in self.options.items():
            for o in opts:
                left = o - self.notkind.get(base, set())
                if len(left) == 1 and base not in self.kind:
                    self.kind[base] = next(iter(left))

    def read(self, g: Term, pol: bool):
        self._read(g, pol)
        if self.options:
            self._settle()

    def _read(self, g: Term, pol: bool):
        # conjunctions under positive polarity / disjunctions under negative polarity split
        if isinstance(g, Op) and g.op == 'and' and pol:
            k = self._kind_test(g)
            if k:
                self.kind[canon(k[0])] = k[1]
                return
            for a in g.args:
                self.read(a, True)
            return
        if isinstance(g, Op) and g.op == 'and' and not pol:
            k = self._kind_test(g)
            if k:
                self.notkind.setdefault(canon(k[0]), set()).add(k[1])
                return
            self.other.append((g, pol))
            return
        if isinstance(g, Op) and g.op == 'not':
            self.read(g.args[0], not pol)
            return
        if isinstance(g, Attr) and g.name in ('is_quantifier',):
            if pol:
                self.kind.setdefault(canon(g.base), 'quant')
            else:
                self.notkind.setdefault(canon(g.base), set()).update({'quant', 'forall', 'exists'})
            return
        if isinstance(g, Attr) and g.name in ('is_existential', 'is_universal'):
            k = 'exists' if (g.name == 'is_existential') == pol else 'forall'
            self.kind[canon(g.base)] = k
            return
        if isinstance(g, Op) and g.op == 'is' and len(g.args) == 2 and isinstance(g.args[1], EnumMember) and g.args[1].cls == 'QuantifierType' and isinstance(g.args[0], Attr) and g.args[0].name == 'quantifier':
            k = 'forall' if g.args[1].name == 'ALL' else 'exists'
            if pol:
                self.kind[canon(g.args[0].base)] = k
            else:
                self.notkind.setdefault(canon(g.args[0].base), set()).add(k)
            return
        if isinstance(g, Call) and call_name(g) == 'contains_reference' and len(g.args) == 1:
            self.dep[self._dep_key(g)] = pol
            self._propagate()
            return
        if isinstance(g, Op) and g.op == 'or' and not pol:
            for a in g.args:
                self.read(a, False)
            return
        if isinstance(g, Op) and g.op == 'or' and pol:
            kts = [self._kind_test(a) if isinstance(a, Op) and a.op == 'and' else None for a in g.args]
            if all(kts) and len({canon(k[0]) for k in kts}) == 1:
                # one of several kinds: decided once the others are excluded
                self.options.setdefault(canon(kts[0][0]), []).append({k[1] for k in kts})
                self._settle()
                return
        self.other.append((g, pol))
        self._propagate()

    def _dep_key(self, t: Term):
        if isinstance(t, Call) and call_name(t) == 'contains_reference' and len(t.args) == 1:
            rc = call_recv(t)
            # a freshly built unary operator mentions exactly what its operand mentions (rule S3: the query covers every child slot)
            while isinstance(rc, New) and rc.cls == 'HplUnaryOperator' and rc.get('operand') is not None:
                rc = rc.get('operand')
            return (canon(rc), canon(t.args[0]))
        return None

    def _propagate(self):
        """guards that are boolean combinations of dependence tests (x != y, (x and not y) or (y and not x), ...): an
        atom that has one value in every truth assignment consistent with them and with the known facts is a fact"""
        import itertools as _it
        forms = []
        atoms: List = []

        def collect(t: Term) -> bool:
            k = self._dep_key(t)
            if k is not None:
                if k not in atoms:
                    atoms.append(k)
                return True
            if isinstance(t, Op) and t.op in ('and', 'or', 'not', '!=', '==', '^', 'is', 'is not'):
                return all(collect(a) for a in t.args)
            return isinstance(t, Const) and isinstance(t.value, bool)

        def val(t: Term, m) -> bool:
            k = self._dep_key(t)
            if k is not None:
                return m[k]
            if isinstance(t, Const):
                return bool(t.value)
            vs = [val(a, m) for a in t.args]
            if t.op == 'and':
                return all(vs)
            if t.op == 'or':
                return any(vs)
            if t.op == 'not':
                return not vs[0]
            if t.op in ('!=', '^', 'is not'):
                return vs[0] != vs[1]
            return vs[0] == vs[1]
        for g, pol in self.other:
            if isinstance(g, Op) and g.op in ('and', 'or', '!=', '==', '^', 'is', 'is not') and all(isinstance(a, Term) for a in g.args):
                before = list(atoms)
                if collect(g) and (g.op in ('and', 'or') or len(g.args) == 2):
                    forms.append((g, pol))
                else:
                    atoms[:] = before
        if not forms or len(atoms) > 8:
            return
        free = [k for k in atoms if k not in self.dep]
        if not free:
            return
        models = []
        for choice in _it.product((False, True), repeat=len(free)):
            m = {k: self.dep[k] for k in atoms if k in self.dep}
            m.update(dict(zip(free, choice)))
            if all(val(g, m) == pol for g, pol in forms):
                models.append(m)
        if not models:
            return
        for k in free:
            vs = {m[k] for m in models}
            if len(vs) == 1:
                self.dep[k] = vs.pop()

    @staticmethod
    def _kind_test(g: Op) -> Optional[Tuple[Term, str]]:
        """is_operator and arity == n and operator.is_K  ->  (term, K)"""
        base = None
        kind = None
        arity = None
        for a in g.args:
            if isinstance(a, Attr) and a.name == 'is_operator':
                base = a.base
            elif isinstance(a, Op) and a.op == '==' and isinstance(a.args[0], Attr) and a.args[0].name == 'arity' and isinstance(a.args[1], Const):
                arity = a.args[1].value
            elif isinstance(a, Attr) and isinstance(a.base, Attr) and a.base.name == 'operator' and a.name.startswith('is_'):
                kind = a.name[3:]
        if base is not None and kind is not None:
            if arity == 1 and kind == 'not':
                return (base, 'not')
            if arity == 2 and kind in ('and', 'or', 'implies', 'iff'):
                return (base, kind)
        return None


class FormulaBuilder:
    def __init__(self, shapes: Shapes, ctx: Optional[Ctx] = None):
        self.sh = shapes
        self.ctx = ctx
        self.atoms: List[Term] = []
        self.problems: List[str] = []

    def atom(self, t: Term):
        t = canon(t)
        if t not in self.atoms:
            self.atoms.append(t)
        return ('atom', self.atoms.index(t))

    def build(self, t: Term, unfold: bool = True):
        t0 = t
        if isinstance(t, Const) and isinstance(t.value, bool):
            return ('true',) if t.value else ('false',)
        if isinstance(t, New):
            if t.cls == 'HplLiteral' and t.get('value') in (Const(True), Const(False)):
                return ('true',) if t.get('value') == Const(True) else ('false',)
            if t.cls == 'HplUnaryOperator' and _unop(t) == 'not':
                return ('not', self.build(t.get('operand')))
            if t.cls == 'HplBinaryOperator' and _binop(t) in ('and', 'or', 'implies', 'iff'):
                return (_binop(t), self.build(t.get('operand1')), self.build(t.get('operand2')))
            if t.cls == 'HplQuantifier':
                q = t.get('quantifier')
                k = 'forall' if q == EnumMember('QuantifierType', 'ALL') else 'exists' if q == EnumMember('QuantifierType', 'SOME') else None
                if k:
                    return (k, canon(t.get('variable')), canon(t.get('domain')), self.build(t.get('condition')))
            if t.cls == 'HplBinaryOperator' and self.ctx is not None:
                dd = _is_len_eq_zero(self.ctx, t)
                if dd is not None:
                    return ('empty', canon(dd))   # the empty-domain guard, spelled out
            self.problems.append(f'unrecognised constructor term {str(t)[:80]}')
            return self.atom(t)
        fn = _fname(t)
        if fn in IH_FUNCS and len(t.args) == 1:
            k = self.sh.kind.get(canon(t))
            if k in ('not', 'and', 'or', 'implies', 'iff', 'forall', 'exists') and unfold:
                c = canon(t)
                if k == 'not':
                    return ('not', self.build(Attr(c, 'operand1')))
                if k in ('and', 'or', 'implies', 'iff'):
                    return (k, self.build(Attr(c, 'operand1')), self.build(Attr(c, 'operand2')))
                return (k, Attr(c, 'variable'), Attr(c, 'domain'), self.build(Attr(c, 'condition')))
            return self.build(t.args[0])
        if fn == 'empty_test' and len(t.args) == 1:
            return ('empty', canon(t.args[0]))
        if isinstance(t, New) and t.cls == 'HplBinaryOperator' and self.ctx is not None:
            dd = _is_len_eq_zero(self.ctx, t)
            if dd is not None:
                return ('empty', canon(dd))   # the empty-domain guard, spelled out
        if fn == 'true':
            return ('true',)
        if fn == 'false':
            return ('false',)
        c = canon(t)
        k = self.sh.kind.get(c) if unfold else None
        if k is None and unfold:
            # induction hypothesis: X == helper(X); a shape established for helper(X) is a shape of X
            for key, kk in self.sh.kind.items():
                if _fname(key) in IH_FUNCS and isinstance(key, Call) and len(key.args) == 1 and canon(key.args[0]) == c:
                    return self.build(key)
        if k == 'not':
            return ('not', self.build(Attr(c, 'operand1')))
        if k in ('and', 'or', 'implies', 'iff'):
            return (k, self.build(Attr(c, 'operand1')), self.build(Attr(c, 'operand2')))
        if k in ('forall', 'exists'):
            return (k, Attr(c, 'variable'), Attr(c, 'domain'), self.build(Attr(c, 'condition')))
        return self.atom(c)


def _free_dep(atom: Term, var: Term, shapes: Shapes) -> Optional[bool]:
    """does `atom` depend on the bound variable `var`? (from contains_reference guards; sub-terms inherit 'no')"""
    if (atom, var) in shapes.dep:
        return shapes.dep[(atom, var)]
    # a part of something that does not mention var does not mention var
    for (a, v), pol in shapes.dep.items():
        if v == var and not pol and any(x == a for x in walk(atom)) and atom != a:
            return False
    return None


def equivalent(f1, f2, atoms: List[Term], shapes: Shapes, assume_used: bool = True) -> Optional[str]:
    """None if f1 == f2 in every model with domain size 0..3; else a description of a counter-model"""
    # the bound variable / domain (one quantifier nest level is enough for these schemas)
    qs = []

    def collect(f):
        if f[0] in ('forall', 'exists'):
            qs.append((f[1], f[2]))
            collect(f[3])
        elif f[0] in ('not',):
            collect(f[1])
        elif f[0] in ('and', 'or', 'implies', 'iff'):
            collect(f[1])
            collect(f[2])
    collect(f1)
    collect(f2)
    vars_ = []
    for v, d in qs:
        if v not in vars_:
            vars_.append(v)
    doms = []
    for v, d in qs:
        if d not in doms:
            doms.append(d)

    def collect_empty(f):
        if f[0] == 'empty' and f[1] not in doms:
            doms.append(f[1])
        elif f[0] == 'not':
            collect_empty(f[1])
        elif f[0] in ('and', 'or', 'implies', 'iff'):
            collect_empty(f[1])
            collect_empty(f[2])
        elif f[0] in ('forall', 'exists'):
            collect_empty(f[3])
    collect_empty(f1)
    collect_empty(f2)
    if len(vars_) > 1 or len(doms) > 1:
        return f'schema uses several bound variables / domains ({vars_}, {doms}): not interpretable'
    var = vars_[0] if vars_ else None
    dep: List[bool] = []
    for a in atoms:
        if var is None:
            dep.append(False)
        else:
            d = _free_dep(a, var, shapes)
            dep.append(True if d is None else d)
    for n in (range(0, 4) if (var is not None or doms) else [0]):
        elems = list(range(n))
        choices = []
        for i, a in enumerate(atoms):
            if dep[i]:
                choices.append(list(itertools.product([False, True], repeat=n)))
            else:
                choices.append([False, True])
        for val in itertools.product(*choices):
            def ev(f, x):
                k = f[0]
                if k == 'true':
                    return True
                if k == 'false':
                    return False
                if k == 'atom':
                    i = f[1]
                    if dep[i]:
                        if x is None:
                            raise _Escape(atoms[i])
                        return val[i][x]
                    return val[i]
                if k == 'not':
                    return not ev(f[1], x)
                if k == 'and':
                    return ev(f[1], x) and ev(f[2], x)
                if k == 'or':
                    return ev(f[1], x) or ev(f[2], x)
                if k == 'implies':
                    return (not ev(f[1], x)) or ev(f[2], x)
                if k == 'iff':
                    return ev(f[1], x) == ev(f[2], x)
                if k == 'empty':
                    return n == 0
                if k == 'forall':
                    return all(ev(f[3], e) for e in elems)
                if k == 'exists':
                    return any(ev(f[3], e) for e in elems)
                raise AnalysisError('R', f'unknown formula node {k}')
            try:
                a_, b_ = ev(f1, None), ev(f2, None)
            except _Escape as e:
                return f'the sub-formula {e.atom!r} mentions the bound variable but is used outside its quantifier'
            if a_ != b_:
                desc = ', '.join(f'{atoms[i]!r}={val[i]}' for i in range(len(atoms)))
                return f'counter-model: domain size {n}; {desc}: input is {a_}, output is {b_}'
    return None


class _Escape(Exception):
    def __init__(self, atom):
        self.atom = atom


def show(f, atoms) -> str:
    k = f[0]
    if k == 'atom':
        return repr(atoms[f[1]]).replace('$', '')
    if k in ('true', 'false'):
        return k
    if k == 'not':
        return f'~{show(f[1], atoms)}'
    if k in ('and', 'or', 'implies', 'iff'):
        s = {'and': '&', 'or': '|', 'implies': '->', 'iff': '<->'}[k]
        return f'({show(f[1], atoms)} {s} {show(f[2], atoms)})'
    if k == 'empty':
        return f'empty({f[1]!r})'.replace('$', '')
    if k in ('forall', 'exists'):
        return f'{"A" if k == "forall" else "E"}x.{show(f[3], atoms)}'
    return str(f)


REWRITE_UNITS = ('_refactor_ref_pred', '_refactor_ref_expr', '_split_ref_quantifier', '_split_ref_operator', '_split_ref_negation',
                 '_canonical_form_safety', '_canonical_form_liveness', '_canonical_form_scopes',
                 '_split_and_expr', '_and_presplit_transform', '_split_and_not', '_split_and_quantifier')


def rewrite_eval(ctx: Ctx) -> Evaluator:
    def build():
        mod = ctx.model.module('hpl.rewrite', 'rewrite_eval')
        calls = {f.name: {mod.functions[x.id].name for x in ast.walk(f.node) if isinstance(x, ast.Name) and x.id in mod.functions} for f in mod.functions.values()}

        def recursive(name: str) -> bool:
            seen, todo = set(), list(calls.get(name, ()))
            while todo:
                x = todo.pop()
                if x == name:
                    return True
                if x not in seen:
                    seen.add(x)
                    todo.extend(calls.get(x, ()))
            return False

        def pol(fi: FunctionInfo, depth: int) -> bool:
            if fi.cls is not None and fi.name in ('contains_reference', 'contains_self_reference', 'contains_definition') and not ctx.model.is_leaf(fi.cls):
                # the generic implementation of a reference query is an atom of the rewrite schemas, however it is written
                # (S3's business); the overrides of the leaf classes (not x -> x, ...) are still looked through
                return False
            if fi.module.name == 'hpl.rewrite' and (fi.name.startswith(('_simplify', 'get_', '_obvious')) or fi.name in ('split_and', 'simplify', 'empty_test', 'refactor_reference', 'canonical_form', 'true', 'false')):
                return False
            if fi.module.name == 'hpl.rewrite' and fi.name.startswith(('_split', '_and_pre', '_refactor', '_canonical')):
                # the units the rules analyse one by one stay calls; a helper carved out of one of them is looked through
                if fi.name in REWRITE_UNITS or recursive(fi.name):
                    return False
            if default_inline(fi, depth):
                return True
            # a small private helper that scans a (constant) rule table is looked through as well
            if fi.module.name == 'hpl.rewrite' and fi.cls is None and fi.name.startswith('_') and depth <= 3 and not recursive(fi.name) \
                    and not any(isinstance(x, (ast.While, ast.With, ast.Try, ast.Yield, ast.YieldFrom)) for x in ast.walk(fi.node)) \
                    and sum(1 for x in ast.walk(fi.node) if isinstance(x, ast.stmt)) <= 24:
                return True
            return False
        return Evaluator(ctx.model, inline=pol)
    return ctx.memo('rewrite_eval', build)


def _input_formula(fi_name: str, param: Term, sh: Shapes):
    """precondition shape of the helper's parameter (from its dispatcher / annotation)"""
    if fi_name == '_split_and_not':
        sh.kind.setdefault(canon(param), 'not')
    if fi_name == '_split_ref_negation':
        sh.kind.setdefault(canon(param), 'not')
    if fi_name in ('_split_and_quantifier', '_split_ref_quantifier'):
        sh.kind.setdefault(canon(param), 'quant')


def _is_len_eq_zero(ctx: Ctx, v: Term) -> Optional[Term]:
    """d when v is the node `len(d) = 0` (operator / function given by token, name or built-in enum member)"""
    if not (isinstance(v, New) and v.cls == 'HplBinaryOperator'):
        return None
    from .rules_tables import binary_rows, function_rows
    op = v.get('operator')
    tok = op.value if isinstance(op, Const) else binary_rows(ctx).get(op.name, {}).get('token') if isinstance(op, EnumMember) and op.cls == 'BuiltinBinaryOperator' else None
    a, b = v.get('operand1'), v.get('operand2')
    if tok != '=' or not (isinstance(a, New) and a.cls == 'HplFunctionCall' and isinstance(b, New) and b.cls == 'HplLiteral' and b.get('value') == Const(0)):
        return None
    fn = a.get('function')
    fname = fn.value if isinstance(fn, Const) else function_rows(ctx).get(fn.name, {}).get('name') if isinstance(fn, EnumMember) and fn.cls == 'BuiltinFunction' else None
    args = a.get('arguments')
    if fname == 'len' and isinstance(args, TupleT) and len(args.items) == 1:
        return args.items[0]
    return None


def _empty_test_body(ctx: Ctx, r: RuleResult, ev: Evaluator):
    """the empty-domain guard itself: len(domain) = 0, unconditionally"""
    rw = ctx.model.module('hpl.rewrite', r.rule)
    et = rw.functions.get('empty_test')
    if et is None:
        res = ctx.model.resolve_name(rw, 'empty_test')   # defined elsewhere in the package and imported
        if res and res[0] == 'func':
            et = res[1]
    if et is None:
        raise AnalysisError(r.rule, 'empty_test not found in (or imported into) hpl.rewrite (anchor vanished)')
    d = Sym('expr', 'HplExpression')
    eo = ev.run(et, {et.params()[0]: d})
    ok = False
    if len(eo) == 1 and eo[0].kind == 'return' and not eo[0].guards:
        ok = _is_len_eq_zero(ctx, eo[0].value) == d
    (r.ok('empty_test(d) = (len(d) = 0) for every domain') if ok else r.fail('empty_test', f'the empty-domain guard is not unconditionally "len(domain) = 0": {[str(o)[:120] for o in eo]} (literal ranges can be empty)', et.where))


R1_FUNCS = ('_split_and_not', '_split_and_quantifier', '_and_presplit_transform')
DIVISIBLE = {'not not': False, 'not or': False, 'not implies': False, 'not exists': False, 'forall and': False}


def R1(ctx: Ctx) -> RuleResult:
    r = RuleResult('R1', 'split_and transformations: every path of _split_and_not / _split_and_quantifier / _and_presplit_transform returns a formula equivalent to its input (finite-model check of the extracted schema); every divisible shape has a transforming branch')
    ev = rewrite_eval(ctx)
    seen_shapes = dict(DIVISIBLE)
    n = 0
    for name in R1_FUNCS:
        fi = ctx.model.func('hpl.rewrite', name, 'R1')
        p = fi.params()[0]
        param = Sym(p, ctx.ev.ann_class(fi.node.args.args[0].annotation, fi.module).name if ctx.ev.ann_class(fi.node.args.args[0].annotation, fi.module) else None)
        outs = expand_outcomes(ev.run(fi, {p: param}))
        for o in outs:
            n += 1
            key = f'{name}[{guards_repr(norm_guards(o.guards))[-100:]}]'
            if o.kind != 'return':
                r.fail(f'{name}:path', f'path ends with {o.kind} {str(o.value)[:60]}: split_and would not return', fi.where)
                continue
            sh = Shapes()
            for g, pol in o.guards:
                sh.read(g, pol)
            for a in o.asserts:
                sh.read(a, True)
            _input_formula(name, param, sh)
            # a quantifier of unknown kind stays an atom on both sides
            fb = FormulaBuilder(sh, ctx)
            if sh.kind.get(canon(param)) == 'quant':
                sh.kind.pop(canon(param))
            fin = fb.build(param)
            fout = fb.build(o.value)
            if fb.problems:
                raise AnalysisError('R1', f'{name}: {fb.problems[0]}')
            why = equivalent(fin, fout, fb.atoms, sh)
            desc = f'{show(fin, fb.atoms)}  ==>  {show(fout, fb.atoms)}'
            if why:
                r.fail(f'{name}: {show(fin, fb.atoms)}', f'rewrite {desc} is not an equivalence: {why}', f'{fi.module.relpath}:{o.lineno}', 'equivalent', desc)
            else:
                r.ok(f'{name}: {desc}')
            # a part of the input handed back as it is may itself need a transformation step (it is of any shape): it must
            # go through the pre-split transformation again, the work list only re-processes conjunctions
            cv = canon(o.value)
            if isinstance(cv, Attr) and cv != canon(param) and any(x == canon(param) for x in walk(cv)):
                r.fail(f'{name}:resubmit', f'{desc}: the sub-formula {show(fout, fb.atoms)} is returned without another pass of _and_presplit_transform: when it is itself a negated disjunction / implication / quantifier over a conjunction it is emitted unsplit', f'{fi.module.relpath}:{o.lineno}')
            # which divisible shape did this path transform?
            if fin != fout or isinstance(o.value, Call):
                if fin[0] == 'not' and fin[1][0] in ('not', 'or', 'implies', 'exists'):
                    seen_shapes['not ' + fin[1][0]] = True
                if fin[0] == 'forall' and (fout[0] == 'and'):
                    seen_shapes['forall and'] = True
            if name == '_and_presplit_transform':
                # dispatcher: negations and quantifiers must be delegated
                pass
    for shape, ok in seen_shapes.items():
        if ok:
            r.ok(f'divisible shape "{shape}" has a transforming branch')
        else:
            r.fail(f'shape:{shape}', f'no branch transforms the divisible shape "{shape}": such conjuncts would be returned unsplit', 'src/hpl/rewrite.py')
    _empty_test_body(ctx, r, ev)
    # dispatcher coverage
    fi = ctx.model.func('hpl.rewrite', '_and_presplit_transform')
    outs = ev.run(fi, {fi.params()[0]: Sym('phi', 'HplExpression')})
    targets = {_fname(o.value) for o in outs if o.kind == 'return'}
    if not {'_split_and_not', '_split_and_quantifier'} <= targets:
        r.fail('_and_presplit_transform:dispatch', f'negations / quantifiers are not both delegated: {targets}', fi.where)
    r.floor('schema paths', n, 12)
    return r


# ------------------------------------------------------------------------ R2
R2_FUNCS = ('_refactor_ref_expr', '_split_ref_quantifier', '_split_ref_operator', '_split_ref_negation')
R2_IH = ('_refactor_ref_expr', '_split_ref_quantifier', '_split_ref_operator', '_split_ref_negation')


def R2(ctx: Ctx) -> RuleResult:
    r = RuleResult('R2', 'refactor_reference: every returned pair (f1, f2) satisfies f1 & f2 == input (finite-model check), f1 never contains a part that mentions the alias, conjuncts leave a quantifier only under the empty-domain guard, unchanged when the alias is absent')
    ev = rewrite_eval(ctx)
    alias = Sym('alias')
    n = 0
    for name in R2_FUNCS:
        fi = ctx.model.func('hpl.rewrite', name, 'R2')
        p = fi.params()[0]
        c = ctx.ev.ann_class(fi.node.args.args[0].annotation, fi.module)
        param = Sym(p, c.name if c else None)
        outs = expand_outcomes(ev.run(fi, {p: param, 'alias': alias}))
        for o in outs:
            if o.kind == 'raise':
                continue
            n += 1
            gtxt = guards_repr(norm_guards(o.guards))[-90:]
            if o.kind != 'return':
                r.fail(f'{name}:path', f'path falls off the end [{gtxt}]', fi.where)
                continue
            sh = Shapes()
            for g, pol in o.guards:
                sh.read(g, pol)
            for a in o.asserts:
                sh.read(a, True)
            _input_formula(name, param, sh)
            for g, leaf in alternatives(o.value):
                fb = FormulaBuilder(sh, ctx)
                if sh.kind.get(canon(param)) == 'quant':
                    sh.kind.pop(canon(param))
                fin = fb.build(param)
                # delegated to a sibling with an equivalent argument: IH
                fn = _fname(leaf)
                if fn in ('_split_ref_quantifier', '_split_ref_operator') and name == '_refactor_ref_expr':
                    boolean = any(pol and any((isinstance(x, Attr) and x.name == 'can_be_bool') or (isinstance(x, Op) and x.op == '&' and 'BOOL' in repr(x)) for x in walk(g)) for g, pol in tuple(flat_guards(o.guards)) + tuple(implied_literals(o.guards, 12)))
                    if not boolean:
                        r.fail(f'{name}:boolean-guard', f'{fn} is entered without having established that the expression can be boolean: the split helpers treat their argument as a formula (and assert a unary operator to be "not"), a numeric expression such as -@B.x reaches them', f'{fi.module.relpath}:{o.lineno}')
                if fn in R2_IH and leaf.args and leaf.args[-1] == alias:
                    farg = fb.build(leaf.args[0])
                    why = equivalent(fin, farg, fb.atoms, sh)
                    desc = f'{show(fin, fb.atoms)}  ==>  {fn}({show(farg, fb.atoms)})'
                    if why:
                        r.fail(f'{name}: {show(fin, fb.atoms)}', f'{desc}: the delegated formula is not equivalent to the input: {why}', f'{fi.module.relpath}:{o.lineno}')
                    else:
                        r.ok(f'{name}: {desc}')
                    continue
                if not (isinstance(leaf, TupleT) and len(leaf.items) == 2):
                    r.fail(f'{name}:result', f'does not return a pair: {str(leaf)[:80]}', fi.where)
                    continue
                t1, t2 = leaf.items
                f1, f2 = fb.build(t1), fb.build(t2)
                if fb.problems:
                    raise AnalysisError('R2', f'{name}: {fb.problems[0]}')
                why = equivalent(fin, ('and', f1, f2), fb.atoms, sh)
                desc = f'{show(fin, fb.atoms)}  ==>  ({show(f1, fb.atoms)} , {show(f2, fb.atoms)})'
                key = f'{name}: {show(fin, fb.atoms)} [{gtxt[-50:]}]'
                if why:
                    r.fail(key, f'{desc}: f1 & f2 is not equivalent to the input: {why}', f'{fi.module.relpath}:{o.lineno}')
                    continue
                # f1 must not mention the alias
                bad = _mentions_alias(f1, fb.atoms, sh, alias, param)
                if bad:
                    r.fail(key + ':alias', f'{desc}: the first half may mention the alias ({bad})', f'{fi.module.relpath}:{o.lineno}')
                    continue
                # unchanged when absent
                absent = sh.dep.get((canon(param), alias)) is False
                if absent and not (t1 == param and f2 == ('true',)):
                    r.fail(key + ':absent', f'alias absent but the result is not (input itself, True): {desc}', f'{fi.module.relpath}:{o.lineno}')
                    continue
                r.ok(f'{name}: {desc}')
    _empty_test_body(ctx, r, ev)
    # first branch of _refactor_ref_expr: alias absent -> (expr, true())
    fi = ctx.model.func('hpl.rewrite', '_refactor_ref_expr')
    outs = ev.run(fi, {fi.params()[0]: Sym('expr', 'HplExpression'), 'alias': alias})
    ok = False
    for o in outs:
        sh = Shapes()
        for g, pol in o.guards:
            sh.read(g, pol)
        if sh.dep.get((Sym('expr', 'HplExpression'), alias)) is False and not sh.other and o.kind == 'return':
            v = o.value
            ok = isinstance(v, TupleT) and len(v.items) == 2 and v.items[0] == Sym('expr', 'HplExpression') and FormulaBuilder(Shapes(), ctx).build(v.items[1]) == ('true',)
    (r.ok('_refactor_ref_expr: alias absent -> (expr, True) before anything else') if ok else r.fail('_refactor_ref_expr:absent', 'no leading branch returns (expr, True) when the alias does not occur', fi.where))
    r.floor('pair paths', n, 15)
    return r


def _mentions_alias(f, atoms, sh: Shapes, alias: Term, param: Term) -> Optional[str]:
    k = f[0]
    if k in ('true', 'false', 'empty'):
        return None
    if k == 'atom':
        a = atoms[f[1]]
        d = sh.dep.get((a, alias))
        if d is False:
            return None
        for (x, v), pol in sh.dep.items():
            if v == alias and not pol and any(y == x for y in walk(a)):
                return None
        return f'{a!r} is not known to be free of the alias'
    if k == 'not':
        return _mentions_alias(f[1], atoms, sh, alias, param)
    if k in ('and', 'or', 'implies', 'iff'):
        return _mentions_alias(f[1], atoms, sh, alias, param) or _mentions_alias(f[2], atoms, sh, alias, param)
    if k in ('forall', 'exists'):
        dom = f[2]
        d = sh.dep.get((dom, alias))
        if d is True:
            return f'domain {dom!r} mentions the alias'
        if d is None:
            for (x, v), pol in sh.dep.items():
                if v == alias and not pol and any(y == x for y in walk(dom)):
                    d = False
        if d is None:
            return f'domain {dom!r} is not known to be free of the alias (no path condition rules it out)'
        return _mentions_alias(f[3], atoms, sh, alias, param)
    return None


# ------------------------------------------------------------------------ R3
def R3(ctx: Ctx) -> RuleResult:
    r = RuleResult('R3', 'predicate combinators: negate() and join() of the three predicate classes implement negation / conjunction with the vacuous truth as identity and the contradiction as annihilator')
    m = ctx.model
    VT, CT, PE = 'HplVacuousTruth', 'HplContradiction', 'HplPredicateExpression'

    def ev_m(cls: str, meth: str, args=None):
        c = m.cls(cls, 'R3')
        fi = c.resolve(meth)
        if fi is None:
            raise AnalysisError('R3', f'{cls}.{meth} not found')
        a = {'self': Sym('self', cls)}
        a.update(args or {})
        return fi, ctx.ev.run(fi, a, self_cls=c)
    # negate
    fi, outs = ev_m(VT, 'negate')
    ok = len(outs) == 1 and isinstance(outs[0].value, New) and outs[0].value.cls == CT
    (r.ok('~True = False') if ok else r.fail(f'{VT}.negate', f'expected HplContradiction(), got {[str(o)[:60] for o in outs]}', fi.where))
    fi, outs = ev_m(CT, 'negate')
    ok = len(outs) == 1 and isinstance(outs[0].value, New) and outs[0].value.cls == VT
    (r.ok('~False = True') if ok else r.fail(f'{CT}.negate', f'expected HplVacuousTruth(), got {[str(o)[:60] for o in outs]}', fi.where))
    fi, outs = ev_m(PE, 'negate')
    self_p = Sym('self', PE)
    e = Attr(self_p, 'expression')
    outs = devirtualise(ctx, ctx.ev, outs, {e: 'HplExpression'})     # the expression may be asked to negate itself
    saw_dn = saw_not = False
    for o in outs:
        v = o.value
        if not (o.kind == 'return' and isinstance(v, New) and v.cls == PE):
            r.fail(f'{PE}.negate', f'unexpected result {str(v)[:60]}', fi.where)
            continue
        x = v.get('expression')
        gs = norm_guards(o.guards)
        is_neg = False
        for g, pol in gs:
            if pol and isinstance(g, Op) and g.op in ('==', 'is') and Attr(e, 'operator') in g.args:
                other_ = [a for a in g.args if a != Attr(e, 'operator')][0]
                if isinstance(other_, New) and other_.cls == 'UnaryOperatorDefinition' and other_.get('token') == Const('not'):
                    is_neg = True
            if pol and isinstance(g, Attr) and g.name == 'is_not' and g.base == Attr(e, 'operator'):
                is_neg = True
        if x == Attr(e, 'operand'):
            if is_neg:
                saw_dn = True
            else:
                r.fail(f'{PE}.negate:double', f'strips the operand of an operator that is not known to be "not": [{guards_repr(gs)[:80]}]', fi.where)
        elif isinstance(x, New) and x.cls == 'HplUnaryOperator' and _unop(x) == 'not' and x.get('operand') == e:
            saw_not = True
        else:
            r.fail(f'{PE}.negate', f'negation builds {str(x)[:80]}', fi.where)
    if saw_not:
        r.ok('~p = Not(p)' + ('; ~~p = p' if saw_dn else ''))
    else:
        r.fail(f'{PE}.negate:not', 'no path wraps the condition in Not()', fi.where)
    # join
    other = Sym('other', 'HplPredicate')
    fi, outs = ev_m(VT, 'join', {'other': other})
    ok = len(outs) == 1 and outs[0].value == other
    (r.ok('True & q = q') if ok else r.fail(f'{VT}.join', f'expected other, got {[str(o)[:60] for o in outs]}', fi.where))
    fi, outs = ev_m(CT, 'join', {'other': other})
    ok = len(outs) == 1 and outs[0].value == Sym('self', CT)
    (r.ok('False & q = False') if ok else r.fail(f'{CT}.join', f'expected self, got {[str(o)[:60] for o in outs]}', fi.where))
    fi, outs = ev_m(PE, 'join', {'other': other})
    outs = devirtualise(ctx, ctx.ev, outs, {other: 'HplPredicate'}, ('is_vacuous', 'is_true'))     # double dispatch on the kind of `other`
    cases = {}
    all_cases = []
    for o in outs:
        gs = norm_guards(o.guards)
        for g2, leaf in alternatives(o.value):
            gg = gs + norm_guards(g2)
            vac = next((pol for g, pol in gg if isinstance(g, Attr) and g.base == other and g.name == 'is_vacuous'), None)
            tru = next((pol for g, pol in gg if isinstance(g, Attr) and g.base == other and g.name == 'is_true'), None)
            cases[(vac, tru)] = leaf
            all_cases.append(((vac, tru), leaf, gg))
    want_and = lambda v: isinstance(v, New) and v.cls == PE and isinstance(v.get('expression'), New) and _binop(v.get('expression')) == 'and' and {v.get('expression').get('operand1'), v.get('expression').get('operand2')} in ({e, Attr(other, 'condition')}, {e, Attr(other, 'expression')})
    checks = [((True, True), lambda v: v == self_p, 'p & True = p'), ((True, False), lambda v: v == other, 'p & False = False'), ((False, None), want_and, 'p & q = And(p, q)')]
    for k, pred, label in checks:
        v = cases.get(k)
        if v is None:
            v = next((val for kk, val in cases.items() if kk[0] is k[0] and (kk[1] is None or k[1] is None)), None)
        if v is not None and pred(v):
            r.ok(label)
        else:
            r.fail(f'{PE}.join:{label}', f'{label} violated: join returns {str(v)[:80]} for (other.is_vacuous, other.is_true) = {k}; cases: {[(kk, str(vv)[:30]) for kk, vv in cases.items()]}', fi.where)
    # every path for a non-vacuous `other` builds the conjunction: a shortcut that returns one side under some other
    # condition drops a conjunct
    for (vac, tru), leaf, gg in all_cases:
        if vac is False and not want_and(leaf):
            extra = [g for g, pol in gg if not (isinstance(g, Attr) and g.base == other and g.name in ('is_vacuous', 'is_true'))]
            # p & p = p: returning one side when both conditions are structurally equal is an identity, not a loss
            same = any(pol and isinstance(g, Op) and g.op == '==' and {g.args[0], g.args[1]} in ({e, Attr(other, 'condition')}, {self_p, other}, {Attr(self_p, 'condition'), Attr(other, 'condition')}) for g, pol in gg)
            if same and leaf in (self_p, other):
                r.ok('p & p = p (structural equality)')
                continue
            r.fail(f'{PE}.join:shortcut', f'for a non-vacuous other, join returns {str(leaf)[:60]} under [{guards_repr(tuple((g, True) for g in extra))[:100]}] instead of And(self, other): a conjunct is dropped', fi.where)
    # predicate_from_expression: literal True/False -> vacuous predicates
    fi = m.func('hpl.ast.predicates', 'predicate_from_expression', 'R3')
    outs = ctx.ev.run(fi, {'expr': Sym('expr', 'HplExpression')})
    lit = None
    for o in outs:
        for g2, leaf in alternatives(o.value) if o.kind == 'return' else []:
            if isinstance(leaf, New) and leaf.cls in (VT, CT):
                val = [pol for g, pol in norm_guards(o.guards + g2) if g == Attr(Sym('expr', 'HplExpression'), 'value')]
                if val:
                    if (leaf.cls == VT) != val[0]:
                        r.fail('predicate_from_expression', 'literal True/False are mapped to the wrong vacuous predicate', fi.where)
                    lit = True
    (r.ok('predicate_from_expression: literal True -> HplVacuousTruth, False -> HplContradiction') if lit else r.fail('predicate_from_expression:literals', 'literal conditions are not mapped to the vacuous predicates', fi.where))
    return r


# ------------------------------------------------------------------------ R4
def _lit_test(g: Term) -> Optional[str]:
    """'true' / 'false' when g is the (inlined or called) literal-true / literal-false test"""
    fn = _fname(g)
    if fn in ('is_true', 'is_false'):
        return fn[3:]
    if isinstance(g, Op) and g.op == 'and':
        names = {a.name for a in g.args if isinstance(a, Attr)}
        for a in g.args:
            if isinstance(a, Op) and a.op == 'is' and isinstance(a.args[0], Attr) and a.args[0].name == 'value' and a.args[1] in (Const(True), Const(False)) and {'is_value', 'is_literal'} <= names:
                return 'true' if a.args[1] == Const(True) else 'false'
    return None


def R4(ctx: Ctx) -> RuleResult:
    r = RuleResult('R4', 'split_and work list: literal true skipped, literal false raises ValueError, conjunctions push both operands, everything else is emitted once after the pre-split transformation')
    ev = rewrite_eval(ctx)
    if ctx.model.module('hpl.rewrite', 'R4').functions.get('_split_and_expr') is None:
        # the splitter is written out in the public entry point: one work list per kind of argument
        efi = ctx.model.func('hpl.rewrite', 'split_and', 'R4')
        x = Sym('x')
        n = 0
        for o in ev.run(efi, {efi.params()[0]: x}):
            if o.kind != 'return':
                continue
            pred = next((pol for t, pol in norm_guards(o.guards) if isinstance(t, Attr) and t.base == x and t.name == 'is_predicate'), None)
            for lp in [e for e in o.effects if isinstance(e, Loop)]:
                n += 1
                _r4_loop(r, efi, lp, Attr(x, 'condition') if pred else x, False)
        if not n:
            raise AnalysisError('R4', 'function hpl.rewrite._split_and_expr not found (anchor vanished) and split_and has no work-list loop of its own')
        return r
    fi = ctx.model.func('hpl.rewrite', '_split_and_expr', 'R4')
    phi = Sym('phi', 'HplExpression')
    outs = ev.run(fi, {'phi': phi})
    loops = [e for o in outs for e in o.effects if isinstance(e, Loop)]
    gen_mode = False
    if not loops and len(outs) == 1 and outs[0].kind == 'return':
        v = outs[0].value
        if isinstance(v, Call) and isinstance(v.func, Ext) and v.func.name in ('list', 'tuple') and len(v.args) == 1 and isinstance(v.args[0], Call) \
                and isinstance(v.args[0].func, FuncRef) and v.args[0].args == (phi,):
            # list(<generator>(phi)): the work list lives in a generator that yields the conjuncts
            gfi = ev.callee(v.args[0].func)
            if gfi is not None:
                fi = gfi
                outs = ev.run(gfi, {gfi.params()[0]: phi})
                loops = [e for o in outs for e in o.effects if isinstance(e, Loop)]
                gen_mode = True
    if not loops and len(outs) == 1 and outs[0].kind == 'return':
        # the work list is the call stack: a recursive collector appends the conjuncts to a list handed down
        calls = [e for e in outs[0].effects if isinstance(e, Call) and isinstance(e.func, FuncRef)]
        if len(calls) == 1 and calls[0].args and calls[0].args[0] == phi and outs[0].value in calls[0].args[1:] and isinstance(outs[0].value, TupleT) and not outs[0].value.items:
            hfi = ev.callee(calls[0].func)
            if hfi is not None and not calls[0].kwargs:
                _r4_recursive(r, ev, hfi, calls[0].args.index(outs[0].value, 1))
                return r
    if not loops:
        raise AnalysisError('R4', '_split_and_expr: no work-list loop found')
    inner = [e for pg, flow, binds, effs in loops[0].paths for e in effs if isinstance(e, Loop) and e.target == '<while>'] if len(loops[0].paths) == 1 else []
    if inner and not gen_mode:
        _r4_descent(r, fi, loops[0], inner[0], phi)
        return r
    _r4_loop(r, fi, loops[0], phi, gen_mode)
    return r


def _r4_descent(r: RuleResult, fi, outer: Loop, inner: Loop, phi: Term) -> None:
    """the work list holds only the operands that wait: each round takes one and walks down the RIGHT operands of nested
    conjunctions in an inner loop - `while not is_true(x)`: false raises; x = transform(x); a conjunction pushes its left
    operand and goes on with the right one; anything else is emitted once and ends the walk"""
    if not (isinstance(outer.iter, TupleT) and outer.iter.items == (phi,)):
        r.fail('_split_and_expr:start', f'work list does not start with the input: {outer.iter!r}', fi.where)
    seen = {'true': False, 'false': False, 'and': False, 'emit': False}
    # the walk starts from the element taken off the work list and runs while it is not literally true
    var = next((n for n, v in inner.inits if isinstance(v, Call) and call_name(v) == 'pop' and call_recv(v) == outer.iter and not v.args), None)
    cond = inner.cond
    if var is not None and isinstance(cond, Op) and cond.op == 'not' and _lit_test(cond.args[0]) == 'true' and any(x == Opaque(f'loopvar:{var}') for x in walk(cond)):
        seen['true'] = True
    cur = Opaque(f'loopvar:{var}') if var else None
    for rg, exc in inner.raises:
        gs = reduce_guards(rg)
        if any(_lit_test(g) == 'false' and pol for g, pol in gs) and 'ValueError' in repr(exc):
            seen['false'] = True
        else:
            r.fail('_split_and_expr:raise', f'raises {str(exc)[:40]} under [{guards_repr(gs)}]', fi.where)
    for pg, flow, binds, effs in inner.paths:
        gs = reduce_guards(pg)
        expr = next((x for g, _ in pg for x in walk(g) if _fname(x) == '_and_presplit_transform' and getattr(x, 'args', None) == (cur,)), None)
        if expr is None:
            r.fail('_split_and_expr:transform', 'the conjunct is tested without the pre-split transformation', fi.where)
            continue
        sh = Shapes()
        for g, pol in gs:
            if _lit_test(g) is None:
                sh.read(g, pol)
        is_and = sh.kind.get(canon(expr)) == 'and'
        not_and = 'and' in sh.notkind.get(canon(expr), set())
        pushes = [c for c in method_calls(list(effs), 'append') if call_recv(c) == outer.iter]
        emits = [c for c in method_calls(list(effs), 'append') if call_recv(c) != outer.iter]
        nxt = dict(binds).get(var)
        if is_and:
            pushed = {canon(c.args[0]) for c in pushes}
            ops = {Attr(canon(expr), 'operand1'), Attr(canon(expr), 'operand2')}
            if len(pushes) == 1 and pushed < ops and nxt is not None and {canon(nxt)} == ops - pushed and not emits and flow in ('end', 'continue'):
                seen['and'] = True
            else:
                r.fail('_split_and_expr:and', f'a conjunction pushes {sorted(map(repr, pushed))}, goes on with {nxt!r} and emits {len(emits)}: one operand must wait on the work list, the walk must go on with the other, nothing is emitted', fi.where)
        elif not_and:
            if len(emits) == 1 and emits[0].args[0] == expr and not pushes and flow == 'break':
                seen['emit'] = True
            else:
                r.fail('_split_and_expr:emit', 'an indivisible conjunct is not emitted exactly once, ending the walk', fi.where)
        else:
            r.fail('_split_and_expr:path', f'unrecognised path [{guards_repr(gs)}]', fi.where)
    for k, label in (('true', 'literal true skipped'), ('false', 'literal false -> ValueError'), ('and', 'conjunction: one operand waits, the walk goes on with the other'), ('emit', 'other: emitted once')):
        (r.ok(label) if seen[k] else r.fail(f'_split_and_expr:{k}', f'missing case: {label}', fi.where))


def _r4_recursive(r: RuleResult, ev: Evaluator, hfi, out_index: int) -> None:
    """the same four cases for a recursive collector h(expr, ..., out): true returns, false raises ValueError, a conjunction
    (after the pre-split transformation) recurses into both operands with the same list, anything else is appended once"""
    params = hfi.params()
    expr_p, out_p = Sym(params[0], 'HplExpression'), Sym(params[out_index])
    seen = {'true': False, 'false': False, 'and': False, 'emit': False}
    for o in ev.run(hfi, {params[0]: expr_p, params[out_index]: out_p}):
        gs = reduce_guards(o.guards)
        t = next((pol for g, pol in gs if _lit_test(g) == 'true'), None)
        if o.kind == 'raise':
            if any(_lit_test(g) == 'false' and pol for g, pol in gs) and 'ValueError' in repr(o.value):
                seen['false'] = True
            else:
                r.fail('_split_and_expr:raise', f'raises {str(o.value)[:40]} under [{guards_repr(gs)}]', hfi.where)
            continue
        if t is True:
            if o.effects:
                r.fail('_split_and_expr:true', 'a literal true conjunct has effects', hfi.where)
            seen['true'] = True
            continue
        expr = next((x for g, _ in o.guards for x in walk(g) if _fname(x) == '_and_presplit_transform' and getattr(x, 'args', None) == (expr_p,)), None) or \
            next((x for e in o.effects for x in walk(e) if _fname(x) == '_and_presplit_transform' and getattr(x, 'args', None) == (expr_p,)), None)
        if expr is None:
            r.fail('_split_and_expr:transform', 'the conjunct is tested without the pre-split transformation', hfi.where)
            continue
        sh = Shapes()
        for g, pol in gs:
            if _lit_test(g) is None:
                sh.read(g, pol)
        is_and = sh.kind.get(canon(expr)) == 'and'
        not_and = 'and' in sh.notkind.get(canon(expr), set())
        rec = [e for e in o.effects if isinstance(e, Call) and isinstance(e.func, FuncRef) and ev.callee(e.func) is hfi]
        emits = [c for c in method_calls(list(o.effects), 'append') if call_recv(c) == out_p]
        other = [e for e in o.effects if e not in rec and e not in emits and isinstance(e, Call)]
        if other:
            r.fail('_split_and_expr:effects', f'unrecognised effect {str(other[0])[:60]} in the collector', hfi.where)
        if is_and:
            pushed = {canon(c.args[0]) for c in rec if len(c.args) > out_index and c.args[out_index] == out_p}
            if pushed == {Attr(canon(expr), 'operand1'), Attr(canon(expr), 'operand2')} and len(rec) == 2 and not emits:
                seen['and'] = True
            else:
                r.fail('_split_and_expr:and', f'a conjunction recurses into {sorted(map(repr, pushed))} and emits {len(emits)}: both operands must be visited with the same list, nothing emitted', hfi.where)
        elif not_and:
            if len(emits) == 1 and emits[0].args[0] == expr and not rec:
                seen['emit'] = True
            else:
                r.fail('_split_and_expr:emit', 'an indivisible conjunct is not emitted exactly once', hfi.where)
        else:
            r.fail('_split_and_expr:path', f'unrecognised path [{guards_repr(gs)}]', hfi.where)
    for k, label in (('true', 'literal true skipped'), ('false', 'literal false -> ValueError'), ('and', 'conjunction: both operands visited'), ('emit', 'other: emitted once')):
        (r.ok(label) if seen[k] else r.fail(f'_split_and_expr:{k}', f'missing case: {label}', hfi.where))


def _r4_loop(r: RuleResult, fi, lp: Loop, phi: Term, gen_mode: bool) -> None:
    if not (isinstance(lp.iter, TupleT) and lp.iter.items == (phi,)):
        r.fail('_split_and_expr:start', f'work list does not start with the input: {lp.iter!r}', fi.where)
    seen = {'true': False, 'false': False, 'and': False, 'emit': False}
    for rg, exc in lp.raises:
        gs = reduce_guards(rg)
        if any(_lit_test(g) == 'false' and pol for g, pol in gs) and 'ValueError' in repr(exc):
            seen['false'] = True
        else:
            r.fail('_split_and_expr:raise', f'raises {str(exc)[:40]} under [{guards_repr(gs)}]', fi.where)
    for pg, flow, binds, effs in lp.paths:
        gs = reduce_guards(pg)
        t = next((pol for g, pol in gs if _lit_test(g) == 'true'), None)
        if t is True:
            if [e for e in effs if isinstance(e, Call) and call_name(e) in ('append', 'extend', 'insert', 'add') and not (e.args and isinstance(e.args[0], TupleT) and not e.args[0].items)] or flow not in ('continue', 'end'):
                r.fail('_split_and_expr:true', 'a literal true conjunct has effects', fi.where)
            seen['true'] = True
            continue
        expr = next((v for _, v in binds if _fname(v) == '_and_presplit_transform'), None)
        if expr is None:
            # the transformed conjunct may live inside a record / tuple bound on this path, or only in the guards
            expr = next((x for _, v in binds for x in walk(v) if _fname(x) == '_and_presplit_transform'), None) or \
                next((x for g, _ in pg for x in walk(g) if _fname(x) == '_and_presplit_transform'), None)
        transformed = expr is not None
        sh = Shapes()
        for g, pol in gs:
            if _lit_test(g) is None:
                sh.read(g, pol)
        is_and = sh.kind.get(canon(expr)) == 'and' if expr is not None else False
        not_and = 'and' in sh.notkind.get(canon(expr), set()) if expr is not None else False
        pushes = [c for c in method_calls(list(effs), 'append') if call_recv(c) == lp.iter]
        for c in method_calls(list(effs), 'extend'):
            if call_recv(c) == lp.iter and c.args and isinstance(c.args[0], TupleT):
                pushes.extend(Call(c.func, (x,)) for x in c.args[0].items)  # extend((a, b)) == append(a); append(b)
        emits = [c for c in method_calls(list(effs), 'append') if call_recv(c) != lp.iter]
        if gen_mode:
            emits = [Call(Ext('yield'), (e.args[0],)) for e in effs if isinstance(e, Op) and e.op == 'yield' and e.args]
        if not transformed:
            r.fail('_split_and_expr:transform', f'the conjunct is tested without the pre-split transformation: {expr!r}', fi.where)
            continue
        if is_and:
            pushed = {canon(c.args[0]) for c in pushes}
            if pushed == {Attr(canon(expr), 'operand1'), Attr(canon(expr), 'operand2')} and not emits:
                seen['and'] = True
            else:
                r.fail('_split_and_expr:and', f'a conjunction pushes {sorted(map(repr, pushed))} and emits {len(emits)}: both operands must be pushed, nothing emitted', fi.where)
        elif not_and:
            if len(emits) == 1 and emits[0].args[0] == expr and not pushes:
                seen['emit'] = True
            else:
                r.fail('_split_and_expr:emit', 'an indivisible conjunct is not emitted exactly once', fi.where)
        else:
            r.fail('_split_and_expr:path', f'unrecognised path [{guards_repr(gs)}]', fi.where)
    for k, label in (('true', 'literal true skipped'), ('false', 'literal false -> ValueError'), ('and', 'conjunction: both operands pushed'), ('emit', 'other: emitted once')):
        (r.ok(label) if seen[k] else r.fail(f'_split_and_expr:{k}', f'missing case: {label}', fi.where))


# ----------------------------------------------------------------------- R5b
SUBST_CONTAINERS = [
    # (class, method, the child fields the substitution must be carried into)
    ('HplPredicateExpression', 'replace_var_reference', ('expression',)),
    ('HplPredicateExpression', 'replace_self_reference', ('expression',)),
    ('HplSimpleEvent', 'replace_var_reference', ('predicate',)),
    ('HplEventDisjunction', 'replace_var_reference', ('event1', 'event2')),
]
SUBST_CONSTANTS = [('HplVacuousTruth', 'replace_var_reference'), ('HplVacuousTruth', 'replace_self_reference'),
                   ('HplContradiction', 'replace_var_reference'), ('HplContradiction', 'replace_self_reference')]


def _kind_test_table(ctx: Ctx, fi, want: str) -> Optional[str]:
    """The helper `fi(expr[, alias])` read as a boolean function of the tests it makes, compared on every assignment with
    is_value and <want> [and (alias is None or expr.name == alias)]. Any other test on its arguments is reported."""
    import itertools
    ps = fi.params()
    if not ps or len(ps) > 2:
        return f'unexpected parameters {ps}'
    e = Sym(ps[0])
    al = Sym(ps[1]) if len(ps) > 1 else None
    base = {Attr(e, 'is_value'): 'v', Attr(e, want): 'k'}

    def atom(t):
        if t in base:
            return base[t], True
        if al is not None and isinstance(t, Op) and len(t.args) == 2:
            a, b = t.args
            if t.op in ('is', 'is not', '==', '!=') and {a, b} == {al, Const(None)}:
                return 'n', t.op in ('is', '==')
            if t.op in ('==', '!=') and {a, b} == {Attr(e, 'name'), al}:
                return 'e', t.op == '=='
        return None

    def val(t, asg):
        if isinstance(t, Const) and isinstance(t.value, bool):
            return t.value
        a = atom(t)
        if a is not None:
            return asg[a[0]] == a[1]
        if isinstance(t, Op) and t.op == 'not' and len(t.args) == 1:
            return not val(t.args[0], asg)
        if isinstance(t, Op) and t.op == 'and':
            return all(val(x, asg) for x in t.args)
        if isinstance(t, Op) and t.op == 'or':
            return any(val(x, asg) for x in t.args)
        if isinstance(t, Ite):
            return val(t.a, asg) if val(t.test, asg) else val(t.b, asg)
        if isinstance(t, Call) and isinstance(t.func, Ext) and t.func.name == 'bool' and len(t.args) == 1:
            return val(t.args[0], asg)
        raise _Escape(f'a test the reference does not make: {t!r}')
    outs = expand_outcomes(ctx.ev.run(fi, {p: Sym(p) for p in ps}))
    names = ['v', 'k'] + (['n', 'e'] if al is not None else [])
    try:
        for bits in itertools.product((False, True), repeat=len(names)):
            asg = dict(zip(names, bits))
            if al is not None and asg['n'] and asg['e']:
                continue        # alias is None and name == alias: names are strings
            got = []
            for o in outs:
                if all(val(g, asg) == pol for g, pol in o.guards):
                    if o.kind != 'return' or o.value is None:
                        return f'{o.kind} under {asg}'
                    got.append(val(o.value, asg))
            exp = asg['v'] and asg['k'] and (al is None or asg['n'] or asg['e'])
            if len(set(got)) != 1:
                return f'{len(got)} paths under {asg}'
            if got[0] != exp:
                return f'answers {got[0]} where is_value={asg["v"]}, {want}={asg["k"]}' + (f', alias is None={asg["n"]}, name == alias={asg["e"]}' if al is not None else '')
    except _Escape as x:
        return str(x)
    return None


def _subst_eval(ctx: Ctx) -> Evaluator:
    """the default evaluator, except that calls of the substitution methods themselves stay visible as calls (a
    non-virtual base-class implementation would otherwise be looked through at the delegation site)"""
    def build():
        def pol(f: FunctionInfo, d: int) -> bool:
            return f.name not in ('replace_var_reference', 'replace_self_reference') and default_inline(f, d)
        return Evaluator(ctx.model, inline=pol)
    return ctx.memo('subst_eval', build)


def R5b(ctx: Ctx) -> RuleResult:
    r = RuleResult('R5b', 'substitutions are carried through the containers of an expression: a predicate / simple event / event disjunction answers replace_var_reference (replace_self_reference) with self.but(<child>=<child>.<same method>(<the same arguments, in order>)) for every child that can hold references, returning itself only when every child came back unchanged; the vacuous predicates return themselves')
    n = 0
    for cname, meth, fields in SUBST_CONTAINERS:
        c = ctx.model.cls(cname, 'R5b')
        fi = c.resolve(meth)
        if fi is None:
            raise AnalysisError('R5b', f'{cname}.{meth} not found')
        ps = fi.params()
        self_t = Sym('self', cname)
        params = tuple(Sym(p_) for p_ in ps[1:])
        outs = expand_outcomes(_subst_eval(ctx).run(fi, dict([('self', self_t)] + [(p_, Sym(p_)) for p_ in ps[1:]]), self_cls=c))
        key = f'{cname}.{meth}'
        rebuilt = False
        for o in outs:
            n += 1
            if o.kind != 'return':
                r.fail(key + ':path', f'a path does not return a node: {o.kind} {str(o.value)[:60]}', fi.where)
                continue
            v = o.value

            def is_subst(t: Term, f: str) -> bool:
                return isinstance(t, Call) and call_name(t) == meth and call_recv(t) == Attr(self_t, f) and tuple(t.args) == params and not t.kwargs
            if v == self_t:
                lits = dict(implied_literals(o.guards, 12))
                unchanged = {f for f in fields for g, pol in lits.items() if pol and isinstance(g, Op) and g.op == 'is' and len(g.args) == 2
                             and Attr(self_t, f) in g.args and any(is_subst(x, f) for x in g.args)}
                if unchanged != set(fields):
                    r.fail(key + ':identity', f'returns itself without having established that {sorted(set(fields) - unchanged)} came back unchanged: the substitution is lost', f'{fi.module.relpath}:{o.lineno}')
                continue
            if isinstance(v, Call) and call_name(v) == 'but' and call_recv(v) == self_t and not v.args:
                kw = dict(v.kwargs)
                extra = sorted(set(kw) - set(fields))
                if extra:
                    r.fail(key + ':rebuild', f'the copy also changes {extra}', f'{fi.module.relpath}:{o.lineno}')
                lits = dict(implied_literals(o.guards, 12))
                for f in fields:
                    if f in kw:
                        if not is_subst(kw[f], f):
                            r.fail(f'{key}:{f}', f'{f} becomes {str(kw[f])[:80]}, expected self.{f}.{meth}({", ".join(ps[1:])}) with the arguments as received', f'{fi.module.relpath}:{o.lineno}')
                    else:
                        same = any(pol and isinstance(g, Op) and g.op == 'is' and Attr(self_t, f) in g.args and any(is_subst(x, f) for x in g.args) for g, pol in lits.items())
                        if not same:
                            r.fail(f'{key}:{f}', f'the substitution is not carried into {f}', f'{fi.module.relpath}:{o.lineno}')
                rebuilt = True
                continue
            r.fail(key + ':result', f'returns {str(v)[:80]}: neither the node itself nor a but() copy of it', f'{fi.module.relpath}:{o.lineno}')
        if rebuilt:
            r.ok(f'{key}: carried into {list(fields)}')
        else:
            r.fail(key + ':rebuild', 'no path rebuilds the node with the substituted children', fi.where)
    for cname, meth in SUBST_CONSTANTS:
        c = ctx.model.cls(cname, 'R5b')
        fi = c.resolve(meth)
        self_t = Sym('self', cname)
        outs = _subst_eval(ctx).run(fi, {'self': self_t}, self_cls=c)
        n += 1
        if len(outs) == 1 and outs[0].kind == 'return' and outs[0].value == self_t:
            r.ok(f'{cname}.{meth} -> self')
        else:
            r.fail(f'{cname}.{meth}', f'a constant predicate does not answer a substitution with itself: {[str(o)[:60] for o in outs]}', fi.where)
    r.floor('substitution paths', n, 8)
    return r


# ------------------------------------------------------------------------ R5
def R5(ctx: Ctx) -> RuleResult:
    r = RuleResult('R5', "replace_this_with_var builds '@' + alias (the token whose name strips the '@'); both wrappers call the matching replace_* method; leaf overrides substitute exactly the matching node")
    ev = rewrite_eval(ctx)
    alias = Sym('alias')
    x = Sym('x')
    fi = ctx.model.func('hpl.rewrite', 'replace_this_with_var', 'R5')
    outs = ev.run(fi, {fi.params()[0]: x, 'alias': alias})
    ok_tok = ok_call = False
    for o in outs:
        for t in [o.value] + list(o.effects):
            for y in walk(t):
                if isinstance(y, New) and y.cls == 'HplVarReference':
                    tok = y.get('token')
                    if repr(tok) == 'f"@{$alias}"':
                        ok_tok = True
                    else:
                        r.fail('replace_this_with_var:token', f'variable token is {tok!r}, expected "@" + alias (HplVarReference.name strips the first character)', fi.where)
                if isinstance(y, Call) and call_name(y) == 'replace_self_reference' and call_recv(y) == x:
                    ok_call = True
    (r.ok('replace_this_with_var: HplVarReference("@" + alias), x.replace_self_reference(var)') if ok_tok and ok_call else r.fail('replace_this_with_var', 'does not build the variable and call replace_self_reference on the input', fi.where))
    fi = ctx.model.func('hpl.rewrite', 'replace_var_with_this', 'R5')
    outs = ev.run(fi, {fi.params()[0]: x, 'alias': alias})
    ok = False
    for o in outs:
        for y in walk(o.value) if o.value is not None else []:
            if isinstance(y, Call) and call_name(y) == 'replace_var_reference' and call_recv(y) == x and y.args and y.args[0] == alias and isinstance(y.args[1], New) and y.args[1].cls == 'HplThisMessage':
                ok = True
    (r.ok('replace_var_with_this: x.replace_var_reference(alias, HplThisMessage())') if ok else r.fail('replace_var_with_this', 'does not call replace_var_reference(alias, HplThisMessage()) on the input', fi.where))
    # leaf overrides
    m = ctx.model
    other = Sym('other')
    tm = m.cls('HplThisMessage', 'R5')
    f2 = tm.resolve('replace_self_reference')
    o2 = ctx.ev.run(f2, {'self': Sym('self', 'HplThisMessage'), f2.params()[1]: other}, self_cls=tm)
    (r.ok('HplThisMessage.replace_self_reference -> other') if len(o2) == 1 and o2[0].value == other else r.fail('HplThisMessage.replace_self_reference', 'does not return the replacement', f2.where))
    vr = m.cls('HplVarReference', 'R5')
    f2 = vr.resolve('replace_var_reference')
    sv = Sym('self', 'HplVarReference')
    ps = f2.params()
    o2 = ctx.ev.run(f2, {'self': sv, ps[1]: alias, ps[2]: other}, self_cls=vr)
    good = False
    for o in o2:
        for g, leaf in alternatives(o.value):
            gs = norm_guards(o.guards + g)
            eq = next((pol for t, pol in gs if isinstance(t, Op) and t.op == '==' and alias in t.args), None)
            if eq is True and leaf == other:
                good = True
            if eq is False and leaf != sv:
                good = False
            if eq is True and leaf != other:
                r.fail('HplVarReference.replace_var_reference', 'a matching variable is not replaced', f2.where)
    (r.ok('HplVarReference.replace_var_reference: other iff alias == name else self') if good else r.fail('HplVarReference.replace_var_reference:shape', 'not "other if alias == self.name else self"', f2.where))
    for cname, meths in (('HplLiteral', ('replace_self_reference', 'replace_var_reference')), ('HplThisMessage', ('replace_var_reference',)), ('HplVarReference', ('replace_self_reference',))):
        c = m.cls(cname)
        for meth in meths:
            f2 = c.resolve(meth)
            o2 = ctx.ev.run(f2, {'self': Sym('self', cname)}, self_cls=c)
            (r.ok(f'{cname}.{meth} -> self') if len(o2) == 1 and o2[0].value == Sym('self', cname) else r.fail(f'{cname}.{meth}', 'a leaf that cannot match does not return itself', f2.where))
    # kind tests used by the generic replace
    for fn, want in (('is_self_reference', 'is_this_msg'), ('is_var_reference', 'is_variable')):
        f2 = m.func('hpl.ast.expressions', fn, 'R5')
        why = _kind_test_table(ctx, f2, want)
        if why is None:
            r.ok(f'{fn}: is_value and {want}' + (' and (alias is None or name == alias)' if len(f2.params()) > 1 else '') + ' (truth table over the tests the helper makes)')
        else:
            r.fail(fn, f'{fn} is not "is_value and {want}' + (' and (alias is None or expr.name == alias)' if len(f2.params()) > 1 else '') + f'": {why}', f2.where)
    # event normalisation: alias -> this message at construction
    se = m.cls('HplSimpleEvent', 'R5')
    pi = se.resolve('__attrs_post_init__')
    ss = Sym('self', 'HplSimpleEvent')
    good = False
    if pi is not None:
        for o in _subst_eval(ctx).run(pi, {'self': ss}, self_cls=se):
            for e in o.effects:
                if isinstance(e, Call) and isinstance(e.func, Ext) and e.func.name == 'object.__setattr__' and len(e.args) == 3 and e.args[0] == ss and e.args[1] == Const('predicate'):
                    # the new predicate, possibly chosen by a helper: the substitution, or the old predicate where there is no alias
                    leaves_ok = True
                    for g2, v in alternatives(e.args[2]):
                        if isinstance(v, Call) and call_name(v) == 'replace_var_reference' and call_recv(v) == Attr(ss, 'predicate') and v.args[0] == Attr(ss, 'alias') and isinstance(v.args[1], New) and v.args[1].cls == 'HplThisMessage':
                            good = True
                        elif v == Attr(ss, 'predicate') and any(t == Attr(ss, 'alias') and pol is False for t, pol in norm_guards(tuple(o.guards) + tuple(g2))):
                            pass
                        else:
                            leaves_ok = False
                    good = good and leaves_ok
    (r.ok('HplSimpleEvent: predicate := predicate.replace_var_reference(alias, HplThisMessage())') if good else r.fail('HplSimpleEvent.__attrs_post_init__:normalise', "the event's own alias is not rewritten to the message itself at construction", se.where))
    # predicate-level replace_* delegate and rebuild with but
    pe = m.cls('HplPredicateExpression', 'R5')
    sp = Sym('self', 'HplPredicateExpression')
    for meth, inner in (('replace_var_reference', 'replace_var_reference'), ('replace_self_reference', 'replace_self_reference')):
        f2 = pe.resolve(meth)
        o2 = ctx.ev.run(f2, {'self': sp}, self_cls=pe)
        ok = False
        for o in o2:
            v = o.value
            if isinstance(v, Call) and call_name(v) == 'but' and call_recv(v) == sp and len(v.kwargs) == 1 and v.kwargs[0][0] == 'expression':
                x2 = v.kwargs[0][1]
                if isinstance(x2, Call) and call_name(x2) == inner and call_recv(x2) == Attr(sp, 'expression'):
                    ok = True
        (r.ok(f'HplPredicateExpression.{meth}: but(expression=expression.{inner}(...))') if ok else r.fail(f'HplPredicateExpression.{meth}', 'does not delegate to the expression and rebuild with but()', f2.where))
    return r


def R4b(ctx: Ctx) -> RuleResult:
    r = RuleResult('R4b', 'public entry points delegate without shortcuts: split_and(p) = _split_and_expr(condition of p | p); get_conjuncts/get_disjuncts flatten exactly and/or')
    ev = rewrite_eval(ctx)
    x = Sym('x')
    fi = ctx.model.func('hpl.rewrite', 'split_and', 'R4b')
    outs = ev.run(fi, {fi.params()[0]: x})
    for o in outs:
        gs = norm_guards(o.guards)
        pred = next((pol for t, pol in gs if isinstance(t, Attr) and t.base == x and t.name == 'is_predicate'), None)
        desc = f'[{guards_repr(gs)[:80]}] {o.kind} {str(o.value)[:60]}'
        if o.kind == 'raise' and any(isinstance(t, Op) and t.op == 'iterating' for t, _ in o.guards):
            continue    # raised from inside the work-list loop written out here: R4 decides which raises are right
        if o.kind != 'return':
            r.fail('split_and:path', f'entry point does not return: {desc}', fi.where)
            continue
        extra = [(t, pol) for t, pol in gs if not (isinstance(t, Attr) and t.base == x and t.name in ('is_predicate', 'is_expression'))]
        v = o.value
        want = Attr(x, 'condition') if pred else x
        if extra:
            r.fail('split_and:shortcut', f'split_and takes a shortcut under {guards_repr(tuple(extra))[:80]} and returns {str(v)[:50]}: vacuous predicates (the contradiction included) must go through the splitter, which raises ValueError for a false conjunct', fi.where)
        elif _fname(v) == '_split_and_expr' and v.args == (want,):
            r.ok(f'split_and[{"predicate" if pred else "expression"}] -> _split_and_expr({want!r})')
        elif [e for e in o.effects if isinstance(e, Loop)] and all(isinstance(e.iter, TupleT) and e.iter.items == (want,) for e in o.effects if isinstance(e, Loop)):
            r.ok(f'split_and[{"predicate" if pred else "expression"}]: work list over [{want!r}] (checked by R4)')
        else:
            r.fail('split_and:delegate', f'unexpected result {desc}', fi.where)
    for name, kind in (('get_conjuncts', 'and'), ('get_disjuncts', 'or')):
        fi = ctx.model.func('hpl.rewrite', name, 'R4b')
        outs = ev.run(fi, {fi.params()[0]: x})
        if not any(isinstance(e, Loop) for o in outs for e in o.effects) and any(isinstance(o.value, Call) and isinstance(o.value.func, FuncRef) for o in outs):
            # both flatteners share one private helper (parameterised by the operator test): looked through
            helpers = {o.value.func.key for o in outs if isinstance(o.value, Call) and isinstance(o.value.func, FuncRef)}

            def pol_h(f, d, helpers=helpers, base=ev.inline):
                return f.key in helpers or base(f, d)
            outs = Evaluator(ctx.model, inline=pol_h).run(fi, {fi.params()[0]: x})
        good = False
        for o in outs:
            for e in o.effects:
                if isinstance(e, Loop):
                    pushed = emitted = False
                    for pg, flow, binds, effs in e.paths:
                        is_k = any(pol and any(isinstance(y, Attr) and y.name == f'is_{kind}' for y in walk(t)) for t, pol in pg)
                        not_k = any((not pol) and any(isinstance(y, Attr) and y.name == f'is_{kind}' for y in walk(t)) for t, pol in pg)
                        apps = method_calls(list(effs), 'append')
                        for c_ in method_calls(list(effs), 'extend'):
                            if c_.args and isinstance(c_.args[0], TupleT):
                                apps = apps + [Call(c_.func, (x_,)) for x_ in c_.args[0].items]   # extend((a, b)) == append(a); append(b)
                        if is_k and len(apps) == 2 and {getattr(canon(a.args[0]), 'name', None) for a in apps} == {'operand1', 'operand2'}:
                            pushed = True
                        if not_k and len(apps) == 1:
                            emitted = True
                    good = good or (pushed and emitted)
        (r.ok(f'{name}: flattens nested "{kind}" nodes, emits everything else') if good else r.fail(name, f'{name} does not push both operands of every "{kind}" node and emit the rest', fi.where))
    return r


def _leaves(t: Term, op: Term) -> Optional[List[Term]]:
    """operands of nested HplBinaryOperator(op, ..) constructions / re-simplifications of them"""
    if isinstance(t, New) and t.cls == 'HplBinaryOperator' and t.get('operator') == op:
        a, b = _leaves(t.get('operand1'), op), _leaves(t.get('operand2'), op)
        return None if a is None or b is None else a + b
    if _fname(t) in ('_simplify_binary_operator', '_simplify') and len(t.args) == 1 and isinstance(t.args[0], New):
        return _leaves(t.args[0], op)
    return [t]


def R6(ctx: Ctx) -> RuleResult:
    r = RuleResult('R6', '_pre_simplify_binop: every rebuilt node keeps the operator (or its mirror with swapped operands) and exactly the multiset of operands of the input; re-association only under the associative flag, swapping only under the commutative flag / inverse table')
    fi = ctx.model.func('hpl.rewrite', '_pre_simplify_binop', 'R6')
    ev = rewrite_eval(ctx)
    expr = Sym('expr', 'HplBinaryOperator')
    outs = ev.run(fi, {'expr': expr})
    op = Attr(expr, 'operator')
    A = Call(FuncRef('hpl.rewrite:_simplify'), (Attr(expr, 'operand1'),))
    B = Call(FuncRef('hpl.rewrite:_simplify'), (Attr(expr, 'operand2'),))
    n = 0
    for o in outs:
        if o.kind != 'return':
            r.fail('_pre_simplify_binop:path', f'path does not return: {str(o)[:80]}', fi.where)
            continue
        n += 1
        v = o.value
        gs = norm_guards(o.guards)
        gtxt = guards_repr(gs)
        if v == expr:
            r.ok('unchanged')
            continue
        if isinstance(v, Call) and call_name(v) == 'but' and call_recv(v) == expr:
            kw = dict(v.kwargs)
            if kw == {'operand1': B, 'operand2': A}:
                if any(pol and t == Attr(op, 'commutative') for t, pol in gs):
                    r.ok('swap under the commutative flag')
                else:
                    r.fail('_pre_simplify_binop:swap', 'operands are swapped without the commutative flag being tested', f'{fi.module.relpath}:{o.lineno}')
            else:
                r.fail('_pre_simplify_binop:but', f'copy changes {sorted(kw)} to {str(kw)[:80]}', f'{fi.module.relpath}:{o.lineno}')
            continue
        if not (isinstance(v, New) and v.cls == 'HplBinaryOperator'):
            r.fail('_pre_simplify_binop:result', f'returns {str(v)[:80]}', f'{fi.module.relpath}:{o.lineno}')
            continue
        vop = v.get('operator')
        if vop != op:
            # mirrored operator from the inverse table with swapped operands
            inv_tab = ctx.ev.global_term(fi.module, 'INVERSE_OPERATORS')

            def is_tab(t):
                return 'INVERSE_OPERATORS' in repr(t) or t == inv_tab or unglobal(t) == unglobal(inv_tab)
            inv_ok = (isinstance(vop, Call) and call_name(vop) == 'get' and vop.args and vop.args[0] == op and is_tab(call_recv(vop))) or \
                (isinstance(vop, Sub) and vop.index == op and is_tab(vop.base))
            if inv_ok and v.get('operand1') == B and v.get('operand2') == A:
                r.ok('mirror operator from INVERSE_OPERATORS with swapped operands')
            else:
                r.fail('_pre_simplify_binop:operator', f'rebuilds with operator {str(vop)[:60]} and operands ({str(v.get("operand1"))[:30]}, {str(v.get("operand2"))[:30]})', f'{fi.module.relpath}:{o.lineno}')
            continue
        got = _leaves(v, op)
        # the input's operands, with nested same-operator nodes opened where the path established `x.operator == op`
        opened = set()
        for t, pol in gs:
            for y in walk(t):
                if isinstance(y, Op) and y.op == '==' and op in y.args:
                    other = [a for a in y.args if a != op][0]
                    if isinstance(other, Attr) and other.name == 'operator':
                        opened.add(other.base)
        opened_pos = {x_ for x_ in opened if any(pol and any(z == Op('==', (Attr(x_, 'operator'), op)) for z in walk(t)) for t, pol in gs)}
        want: List[Term] = []
        for side in (A, B):
            if side in opened_pos and any(Attr(side, k) in (got or []) for k in ('operand1', 'operand2')):
                want += [Attr(side, 'operand1'), Attr(side, 'operand2')]
            else:
                want.append(side)
        reassoc = len(want) > 2
        if got is None or sorted(map(repr, got)) != sorted(map(repr, want)):
            r.fail('_pre_simplify_binop:operands', f'on path [...{gtxt[-90:]}] the rebuilt node has operands {[str(g)[-40:] for g in (got or [])]}, the input has {[str(w)[-40:] for w in want]}: an operand is dropped or duplicated', f'{fi.module.relpath}:{o.lineno}', [repr(w) for w in want], [repr(g) for g in (got or [])])
            continue
        if reassoc and not any(pol and t == Attr(op, 'associative') for t, pol in gs):
            r.fail('_pre_simplify_binop:assoc', 're-association without the associative flag being tested', f'{fi.module.relpath}:{o.lineno}')
            continue
        if not reassoc and got != want:
            r.fail('_pre_simplify_binop:order', f'operands reordered without a flag: {[str(g)[-30:] for g in got]}', f'{fi.module.relpath}:{o.lineno}')
            continue
        r.ok(f'{"re-association" if reassoc else "rebuild"}: {len(want)} operands preserved')
    r.floor('paths', n, 10)
    return r


# ------------------------------------------------------------------- R13
_R13_CONTROL = """
def _control_bad(expr):
    lb = _simplify(expr.min_value)
    ub = _simplify(expr.max_value)
    return HplRange(lb, ub)

def _control_good(expr):
    lb = _simplify(expr.min_value)
    return HplRange(lb, expr.max_value, exclude_min=expr.exclude_min, exclude_max=expr.exclude_max)

def _control_factory(scope):
    return [HplScope.after(e) for e in scope.activator.simple_events()]
"""


def _r13_scan(m, mod, fn: ast.AST, by_name: bool = False) -> Tuple[int, List[Tuple[str, str, List[str], str, int]]]:
    """(constructor / factory calls of AST classes seen, [(class, how, omitted fields, source field, line)]) for one
    function of `mod`: a call that builds a node of class K from the fields of a node (`x.f` with f a field of K reaches
    an argument, directly or through local names) while leaving semantic fields of K at their defaults."""
    root = m.ast_root()
    defs: Dict[str, List[ast.AST]] = {}

    def resolve(name: str):
        res = m.resolve_name(mod, name)
        if res is None and by_name and name in m.classes:      # the control examples name classes hpl.rewrite may not import
            return ('class', m.classes[name])
        return res

    def bind(tgt, val):
        for n in ast.walk(tgt):
            if isinstance(n, ast.Name):
                defs.setdefault(n.id, []).append(val)
    for n in ast.walk(fn):
        if isinstance(n, ast.Assign):
            for t in n.targets:
                bind(t, n.value)
        elif isinstance(n, (ast.AnnAssign, ast.AugAssign, ast.NamedExpr)) and n.value is not None:
            bind(n.target, n.value)
        elif isinstance(n, (ast.For, ast.comprehension)):
            bind(n.target, n.iter)
        elif isinstance(n, ast.withitem) and n.optional_vars is not None:
            bind(n.optional_vars, n.context_expr)

    def reach(exprs) -> Dict[str, str]:
        seen_names, out, work = set(), {}, list(exprs)
        while work:
            e = work.pop()
            for n in ast.walk(e):
                if isinstance(n, ast.Attribute) and isinstance(n.value, ast.Name):
                    out.setdefault(n.attr, n.value.id)
                if isinstance(n, ast.Name) and n.id not in seen_names:
                    seen_names.add(n.id)
                    work.extend(defs.get(n.id, []))
        return out

    def given_by_call(ci, call: ast.Call, skip_first: int = 0) -> Optional[set]:
        if any(isinstance(a, ast.Starred) for a in call.args) or any(k.arg is None for k in call.keywords):
            return None
        pos, _ = ci.init_params()
        given = {f.name for f in pos[:len(call.args)]} | {k.arg for k in call.keywords}
        return given
    calls, hits = 0, []
    tests = [n.test for n in ast.walk(fn) if isinstance(n, (ast.If, ast.IfExp, ast.Assert, ast.While))]
    for c in ast.walk(fn):
        if not isinstance(c, ast.Call):
            continue
        ci, how, given = None, '', None
        if isinstance(c.func, ast.Name):
            res = resolve(c.func.id)
            if res and res[0] == 'class' and root in res[1].mro():
                ci, how = res[1], f'{c.func.id}(...)'
                given = given_by_call(ci, c)
        elif isinstance(c.func, ast.Attribute) and isinstance(c.func.value, ast.Name):
            res = resolve(c.func.value.id)
            if res and res[0] == 'class' and root in res[1].mro():
                fac = res[1].resolve(c.func.attr)
                if fac is not None and fac.kind == 'classmethod':
                    rets = [x for x in ast.walk(fac.node) if isinstance(x, ast.Return)]
                    if len(rets) == 1 and isinstance(rets[0].value, ast.Call) and isinstance(rets[0].value.func, ast.Name) and rets[0].value.func.id == fac.params()[0]:
                        ci, how = res[1], f'{c.func.value.id}.{c.func.attr}(...)'
                        inner = rets[0].value
                        pos, _ = ci.init_params()
                        fparams = set(fac.params()[1:])
                        pairs = [(f.name, a) for f, a in zip(pos, inner.args)] + [(k.arg, k.value) for k in inner.keywords if k.arg]
                        # a field the factory fills from one of its parameters is given; a constant is a default
                        given = {n for n, v in pairs if any(isinstance(x, ast.Name) and x.id in fparams for x in ast.walk(v))}
        if ci is None or given is None:
            continue
        calls += 1
        fields = [f for f in ci.fields() if f.init and f.name not in ('metadata', 'data_type')]   # the type is re-derived on construction (A3, A4)
        names = {f.name for f in fields}
        omitted = sorted(f.name for f in fields if f.name not in given and f.has_default)
        if not omitted:
            continue
        src = reach(list(c.args) + [k.value for k in c.keywords])
        carried = sorted(f for f in src if f in names)
        if carried and not any(f in src for f in omitted):
            x = src[carried[0]]
            # a case split on the dropped field of the same node (`if x.terminator is None: ...`) is not read flow-sensitively
            # here: such a site is left undecided (noted), never reported
            tested = {n.attr for t in tests for n in ast.walk(t) if isinstance(n, ast.Attribute) and isinstance(n.value, ast.Name) and n.value.id == x}
            hits.append((ci.name, how, omitted, f'{x}.{carried[0]}', c.lineno, all(f in tested for f in omitted)))
    return calls, hits


def R13(ctx: Ctx) -> RuleResult:
    r = RuleResult('R13', 'a rewriting function that rebuilds a node from the fields of a node of the same class carries every semantic field over (but(), or all defaulted fields passed): no flag, bound or terminator silently returns to its default')
    m = ctx.model
    # positive / negative control on every run (the expected count on the tree is zero)
    mod = m.module('hpl.rewrite', 'R13')
    ctl = ast.parse(_R13_CONTROL)
    got = {fn.name: _r13_scan(m, mod, fn, by_name=True)[1] for fn in ctl.body}
    # the controls speak about HplRange's flags and HplScope.after as they are today; where a change of those classes makes a
    # control meaningless it is skipped (noted), not failed
    rc, sc = m.classes.get('HplRange'), m.classes.get('HplScope')
    range_ok = rc is not None and all(rc.field(f) is not None and rc.field(f).has_default for f in ('exclude_min', 'exclude_max')) and all(rc.field(f) is not None for f in ('min_value', 'max_value'))
    fac = sc.resolve('after') if sc is not None else None
    scope_ok = fac is not None and fac.kind == 'classmethod' and sc.field('terminator') is not None and sc.field('terminator').has_default and sc.field('activator') is not None
    if range_ok and not (got['_control_bad'] and got['_control_bad'][0][2] == ['exclude_max', 'exclude_min'] and not got['_control_good']):
        raise AnalysisError('R13', f'control examples are not recognised any more: {got}')
    if scope_ok and len([x for x in ast.walk(fac.node) if isinstance(x, ast.Return)]) == 1 and not (got['_control_factory'] and 'terminator' in got['_control_factory'][0][2]):
        r.notes.append('control: HplScope.after is no longer a `return cls(...)` factory the rule reads; factory calls of that shape are not decided')
    if not range_ok:
        r.notes.append('control skipped: HplRange no longer has defaulted exclude_min / exclude_max fields')
    total = 0
    nfun = 0
    for mname in ('hpl.rewrite',):
        mod = m.module(mname, 'R13')
        for fi in list(mod.functions.values()):
            nfun += 1
            calls, hits = _r13_scan(m, mod, fi.node)
            total += calls
            for cname, how, omitted, srcf, line, split in hits:
                if split:
                    r.notes.append(f'undecided: {fi.name}: {how} from {srcf} drops {omitted}, which the function tests elsewhere ({mod.relpath}:{line})')
                    continue
                r.fail(f'{fi.name}:{cname}:{",".join(omitted)}', f'{how} is built from {srcf} but leaves {omitted} of {cname} at the default: the rebuilt node loses them (use but(), or pass them on)', f'{mod.relpath}:{line}')
            if not [h for h in hits if not h[5]] and calls:
                r.ok(f'{fi.name}: {calls} construction site(s), none rebuilds a node with dropped fields')
    r.counts['functions scanned'] = nfun
    r.floor('constructor / factory calls of AST classes in hpl.rewrite', total, 20)
    r.ok('controls: HplRange(lb, ub) from expr.min_value reported; with both flags passed silent; HplScope.after(e) from scope.activator reported')
    return r


# ------------------------------------------------------------------- R14
_R14_CONTROL = """
def _control_bad(call):
    expr = HplLiteral.number(n)
    for v in variables:
        expr = HplBinaryOperator.addition(v.cast(NUMBER), expr)
    return expr

def _control_good(call):
    expr = HplLiteral.number(n)
    if n == 0:
        return expr
    for v in variables:
        expr = HplBinaryOperator.multiplication(v.cast(NUMBER), expr)
    return _simplify(expr)
"""


def _r14_scan(fn: ast.AST, family: set, op_classes=('HplBinaryOperator', 'HplUnaryOperator'), lit_classes=('HplLiteral',)) -> Tuple[int, List[Tuple[str, int]]]:
    """(returns seen, [(what, line)]): a return whose value (through the definitions that reach it) is an operator node
    built in this function over a literal made in this function, and that does not go back through the simplifier."""
    loops = [n for n in ast.walk(fn) if isinstance(n, (ast.For, ast.While))]

    def span(n):
        return n.lineno, getattr(n, 'end_lineno', n.lineno)
    defs: Dict[str, List[Tuple[int, ast.AST]]] = {}
    for n in ast.walk(fn):
        if isinstance(n, ast.Assign):
            for tg in n.targets:
                for x in ast.walk(tg):
                    if isinstance(x, ast.Name):
                        defs.setdefault(x.id, []).append((n.lineno, n.value))
        elif isinstance(n, (ast.AnnAssign, ast.AugAssign)) and n.value is not None and isinstance(n.target, ast.Name):
            defs.setdefault(n.target.id, []).append((n.lineno, n.value))

    def reaching(name: str, line: int):
        for dl, val in defs.get(name, []):
            if dl < line or any(span(lp)[0] <= dl <= span(lp)[1] and span(lp)[0] <= line <= span(lp)[1] for lp in loops):
                yield dl, val

    def is_ctor(c: ast.Call, classes) -> bool:
        f = c.func
        return (isinstance(f, ast.Attribute) and isinstance(f.value, ast.Name) and f.value.id in classes) or (isinstance(f, ast.Name) and f.id in classes)

    def closure_has(e: ast.AST, line: int, pred, seen: set) -> Optional[ast.Call]:
        for n in ast.walk(e):
            if isinstance(n, ast.Call) and pred(n, line):
                return n
            if isinstance(n, ast.Name) and (n.id, line) not in seen:
                seen.add((n.id, line))
                for dl, val in reaching(n.id, line):
                    hit = closure_has(val, dl if not any(span(lp)[0] <= dl <= span(lp)[1] for lp in loops) else max(dl, line), pred, seen)
                    if hit is not None:
                        return hit
        return None

    def fresh_literal(c: ast.Call, line: int) -> bool:
        return is_ctor(c, lit_classes)

    def op_over_literal(c: ast.Call, line: int) -> bool:
        return is_ctor(c, op_classes) and any(closure_has(a, max(line, c.lineno), fresh_literal, set()) is not None for a in list(c.args) + [k.value for k in c.keywords])
    nret, bad = 0, []
    for n in ast.walk(fn):
        if isinstance(n, ast.Return) and n.value is not None:
            nret += 1
            v = n.value
            if isinstance(v, ast.Call) and isinstance(v.func, ast.Name) and v.func.id in family:
                continue
            hit = closure_has(v, n.lineno, op_over_literal, set())
            if hit is not None:
                bad.append((ast.unparse(hit)[:80], n.lineno))
    return nret, bad


def R14(ctx: Ctx) -> RuleResult:
    r = RuleResult('R14', 'normal form: an operator node that a simplifier function builds over a literal it has just made (a folded constant, possibly the neutral element) is returned through the simplifier, never as it is - later shape assertions ("due to simplification") and R7 assume that no x + 0 / x * 1 survives')
    m = ctx.model
    mod = m.module('hpl.rewrite', 'R14')
    if '_simplify' not in mod.functions:
        raise AnalysisError('R14', '_simplify not found in hpl.rewrite (anchor vanished)')
    # the simplifier family: functions of hpl.rewrite reachable from _simplify by direct calls
    family, work = {'_simplify'}, ['_simplify']
    while work:
        f = mod.functions[work.pop()]
        for n in ast.walk(f.node):
            if isinstance(n, ast.Call) and isinstance(n.func, ast.Name) and n.func.id in mod.functions and n.func.id not in family:
                family.add(n.func.id)
                work.append(n.func.id)
    ctl = {f.name: _r14_scan(f, {'_simplify'})[1] for f in ast.parse(_R14_CONTROL).body}
    if not (len(ctl['_control_bad']) == 1 and not ctl['_control_good']):
        raise AnalysisError('R14', f'control examples are not recognised any more: {ctl}')
    nret = 0
    for name in sorted(family):
        fi = mod.functions[name]
        k, bad = _r14_scan(fi.node, family)
        nret += k
        for what, line in bad:
            r.fail(f'{name}:return', f'{name} returns {what}, built over a literal made in the same function, without passing it back through the simplifier: a neutral constant (x + 0, x * 1) survives and breaks the normal form that _obviously_different asserts', f'{mod.relpath}:{line}')
        if not bad:
            r.ok(f'{name}: {k} return(s)')
    r.counts['simplifier family'] = len(family)
    r.floor('returns of the simplifier family', nret, 100)
    r.ok('controls: accumulated sum returned as it is reported; early literal return and return through _simplify silent')
    return r


RULES = {'R13': R13, 'R14': R14, 'R1': R1, 'R2': R2, 'R3': R3, 'R4': R4, 'R4b': R4b, 'R5': R5, 'R5b': R5b, 'R6': R6}

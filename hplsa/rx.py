"""Small regex toolkit over `re._parser` ASTs: finite-language enumeration and
trailing-boundary detection for terminal patterns."""
from __future__ import annotations

import re
from typing import List, Optional, Set

try:
    import re._parser as sre_parse  # py3.11+
    import re._constants as sre_constants
except ImportError:  # pragma: no cover
    import sre_parse
    import sre_constants

_LIMIT = 512


def enumerate_language(pattern: str) -> Optional[Set[str]]:
    """the finite set of strings a pattern matches, ignoring zero-width assertions; None if not finite/too big"""
    try:
        tree = sre_parse.parse(pattern)
    except re.error:
        return None
    res = _enum(list(tree))
    return set(res) if res is not None else None


def _enum(items) -> Optional[List[str]]:
    outs = ['']
    for op, arg in items:
        name = str(op)
        if name == 'LITERAL':
            subs = [chr(arg)]
        elif name == 'AT':
            subs = ['']
        elif name in ('ASSERT', 'ASSERT_NOT'):
            subs = ['']
        elif name == 'SUBPATTERN':
            sub = _enum(list(arg[-1]))
            if sub is None:
                return None
            subs = sub
        elif name == 'BRANCH':
            subs = []
            for alt in arg[1]:
                sub = _enum(list(alt))
                if sub is None:
                    return None
                subs.extend(sub)
        elif name == 'IN':
            subs = []
            for k, v in arg:
                if str(k) == 'LITERAL':
                    subs.append(chr(v))
                elif str(k) == 'RANGE' and v[1] - v[0] < 8:
                    subs.extend(chr(c) for c in range(v[0], v[1] + 1))
                else:
                    return None
        elif name in ('MAX_REPEAT', 'MIN_REPEAT'):
            lo, hi, sub = arg
            if hi is sre_constants.MAXREPEAT or hi > 3:
                return None
            base = _enum(list(sub))
            if base is None:
                return None
            subs = []
            for n in range(lo, hi + 1):
                cur = ['']
                for _ in range(n):
                    cur = [a + b for a in cur for b in base]
                subs.extend(cur)
        else:
            return None
        outs = [a + b for a in outs for b in subs]
        if len(outs) > _LIMIT:
            return None
    return outs


def is_word(s: str) -> bool:
    return bool(re.fullmatch(r'[A-Za-z_][A-Za-z0-9_]*', s))


IDENT_TAILS = ('x', '_', '1', 'Z')

"""E4 table rules T1-T7: operator / function signature tables, algebra flags,
inverse table, integer type tokens, is_* predicates, enum partitions."""
from __future__ import annotations

import ast
import json
from typing import Any, Dict, FrozenSet, List, Optional, Tuple

from .ctx import Ctx
from .model import AnalysisError, ClassInfo
from .report import RuleResult, VERIF
from .rules_lattice import flagset
from .terms import (Attr, Call, ClassRef, Const, Default, DictT, EnumMember, Ext, FuncRef, GlobalVal, New, Op, Outcome, Sym,
                    Term, TupleT, _State, guards_repr, norm_guards, unglobal, walk)


def oracle(name: str) -> Dict[str, Any]:
    return json.loads((VERIF / 'oracle' / name).read_text(encoding='utf8'))


def field_default(ctx: Ctx, cls: str, field: str) -> Optional[Term]:
    c = ctx.model.cls(cls)
    f = c.field(field)
    if f is None or f.default is None:
        return None
    return ctx.ev.expr(f.default, _State(), f.cls.module, None, 0)


def new_field(ctx: Ctx, n: New, name: str) -> Optional[Term]:
    v = n.get(name)
    if isinstance(v, Default):
        return field_default(ctx, v.cls, v.field)
    return v


def _types(ctx: Ctx, t: Optional[Term]) -> Optional[List[str]]:
    if t is None:
        return None
    fs = flagset(ctx, t)
    return sorted(fs) if fs is not None else None


def binary_rows(ctx: Ctx) -> Dict[str, Dict[str, Any]]:
    def build():
        ci = ctx.model.cls('BuiltinBinaryOperator', 'T1')
        rows = {}
        for m in ci.enum_members:
            v = ctx.ev.enum_value(EnumMember(ci.name, m), 0)
            if not isinstance(v, New) or v.cls != 'BinaryOperatorDefinition':
                raise AnalysisError('T1', f'BuiltinBinaryOperator.{m} does not fold to a BinaryOperatorDefinition: {v!r}')
            tok = new_field(ctx, v, 'token')
            if not isinstance(tok, Const):
                raise AnalysisError('T1', f'BuiltinBinaryOperator.{m}: token is not a constant')
            def b(name):
                x = new_field(ctx, v, name)
                return x.value if isinstance(x, Const) else None
            rows[m] = {
                'token': tok.value, 'p1': _types(ctx, new_field(ctx, v, 'parameter1')), 'p2': _types(ctx, new_field(ctx, v, 'parameter2')),
                'result': _types(ctx, new_field(ctx, v, 'result')), 'infix': b('infix'), 'commutative': b('commutative'), 'associative': b('associative'),
                'term': v,
            }
        return rows
    return ctx.memo('binary_rows', build)


def unary_rows(ctx: Ctx) -> Dict[str, Dict[str, Any]]:
    def build():
        ci = ctx.model.cls('BuiltinUnaryOperator', 'T1')
        rows = {}
        for m in ci.enum_members:
            v = ctx.ev.enum_value(EnumMember(ci.name, m), 0)
            if not isinstance(v, New) or v.cls != 'UnaryOperatorDefinition':
                raise AnalysisError('T1', f'BuiltinUnaryOperator.{m} does not fold to a UnaryOperatorDefinition: {v!r}')
            tok = new_field(ctx, v, 'token')
            if not isinstance(tok, Const):
                raise AnalysisError('T1', f'BuiltinUnaryOperator.{m}: token is not a constant')
            rows[m] = {'token': tok.value, 'parameter': _types(ctx, new_field(ctx, v, 'parameter')), 'result': _types(ctx, new_field(ctx, v, 'result')), 'term': v}
        return rows
    return ctx.memo('unary_rows', build)


def function_rows(ctx: Ctx) -> Dict[str, Dict[str, Any]]:
    def build():
        ci = ctx.model.cls('BuiltinFunction', 'T2')
        rows = {}
        for m in ci.enum_members:
            v = ctx.ev.enum_value(EnumMember(ci.name, m), 0)
            if not isinstance(v, New) or v.cls != 'FunctionDefinition':
                raise AnalysisError('T2', f'BuiltinFunction.{m} does not fold to a FunctionDefinition: {v!r}')
            name = new_field(ctx, v, 'name')
            ovs = new_field(ctx, v, 'overloads')
            if not isinstance(name, Const) or not isinstance(ovs, TupleT):
                raise AnalysisError('T2', f'BuiltinFunction.{m}: name/overloads not constant')
            sigs = []
            for o in ovs.items:
                if not isinstance(o, New):
                    raise AnalysisError('T2', f'BuiltinFunction.{m}: overload {o!r} not a FunctionSignature')
                ps = new_field(ctx, o, 'parameters')
                if not isinstance(ps, TupleT):
                    raise AnalysisError('T2', f'BuiltinFunction.{m}: parameters not a tuple')
                var = new_field(ctx, o, 'variadic')
                sigs.append([[_types(ctx, p) for p in ps.items], _types(ctx, new_field(ctx, o, 'result')), None if var == Const(None) else _types(ctx, var)])
            rows[m] = {'name': name.value, 'overloads': sigs}
        return rows
    return ctx.memo('function_rows', build)


def T1(ctx: Ctx, direction: str = 'both', rid: str = 'T1') -> RuleResult:
    title = {'both': 'operator table equals the reference (token, parameter types, result type, infix); tokens unique',
             'narrower': 'no operator parameter type is narrower than the reference (well-typed input would be rejected)',
             'wider': 'no operator parameter type is wider than the reference (definite clashes would be accepted)'}[direction]
    r = RuleResult(rid, title)
    ref = oracle('operators.json')
    where = ctx.model.cls('BuiltinBinaryOperator').where

    def cmp(key: str, col: str, got: Optional[List[str]], want: List[str], is_param: bool):
        if got is None:
            raise AnalysisError(rid, f'{key}.{col}: type expression does not fold')
        g, w = set(got), set(want)
        if g == w:
            r.ok(f'{key}.{col} = {got}')
            return
        if is_param and direction == 'narrower' and not (w - g):
            r.ok(f'{key}.{col} = {got} (wider than reference: other rule)')
            return
        if is_param and direction == 'wider' and not (g - w):
            r.ok(f'{key}.{col} = {got} (narrower than reference: other rule)')
            return
        r.fail(f'{key}:{col}', f'{col} of operator {key} is {got}, reference {want}' + (f'; missing {sorted(w - g)}' if w - g else '') + (f'; extra {sorted(g - w)}' if g - w else ''), where, want, got)

    seen: Dict[str, str] = {}
    for m, row in unary_rows(ctx).items():
        tok = row['token']
        if tok in seen and seen[tok].startswith('unary'):
            r.fail(f'unary {tok}:dup', f'token {tok!r} defined twice among unary operators', where)
        seen[tok] = 'unary ' + m
        want = ref['unary'].get(tok)
        if want is None:
            r.notes.append(f'extra unary operator {tok!r} (accepted)')
            continue
        cmp(f'unary {tok}', 'parameter', row['parameter'], want['parameter'], True)
        if direction == 'both':
            cmp(f'unary {tok}', 'result', row['result'], want['result'], False)
    btoks: Dict[str, str] = {}
    for m, row in binary_rows(ctx).items():
        tok = row['token']
        if tok in btoks:
            r.fail(f'binary {tok}:dup', f'token {tok!r} is defined by both {btoks[tok]} and {m}: lookup by token returns the first', where)
        btoks[tok] = m
        want = ref['binary'].get(tok)
        if want is None:
            r.notes.append(f'extra binary operator {tok!r} (accepted)')
            continue
        cmp(f'binary {tok}', 'p1', row['p1'], want['p1'], True)
        cmp(f'binary {tok}', 'p2', row['p2'], want['p2'], True)
        if direction == 'both':
            cmp(f'binary {tok}', 'result', row['result'], want['result'], False)
            if row['infix'] is not want['infix']:
                r.fail(f'binary {tok}:infix', f'infix flag is {row["infix"]}', where, want['infix'], row['infix'])
    for tok in ref['unary']:
        if tok not in {row['token'] for row in unary_rows(ctx).values()}:
            r.fail(f'unary {tok}:missing', f'unary operator {tok!r} has no definition', where)
    for tok in ref['binary']:
        if tok not in btoks:
            r.fail(f'binary {tok}:missing', f'binary operator {tok!r} has no definition', where)
    r.floor('operators', len(unary_rows(ctx)) + len(binary_rows(ctx)), 18)
    return r


def T2(ctx: Ctx, direction: str = 'both', rid: str = 'T2') -> RuleResult:
    title = {'both': 'built-in function table equals the reference (name, overloads: parameters, result, variadic)',
             'narrower': 'no function parameter type is narrower / no overload missing w.r.t. the reference',
             'wider': 'no function parameter type is wider / no extra overload w.r.t. the reference'}[direction]
    r = RuleResult(rid, title)
    ref = oracle('functions.json')['functions']
    where = ctx.model.cls('BuiltinFunction').where
    names: Dict[str, str] = {}
    for m, row in function_rows(ctx).items():
        n = row['name']
        if n in names:
            r.fail(f'function {n}:dup', f'function name {n!r} defined by both {names[n]} and {m}', where)
        names[n] = m
        want = ref.get(n)
        if want is None:
            r.notes.append(f'extra function {n!r} (accepted)')
            continue
        got = row['overloads']
        if any(x is None for sig in got for x in ([sig[1]] + sig[0])):
            raise AnalysisError(rid, f'function {n}: a type expression does not fold')
        if direction == 'both':
            if got == want:
                r.ok(f'{n}: {len(got)} overload(s) {got}')
            else:
                r.fail(f'function {n}', f'signature of {n} differs from the reference', where, want, got)
            continue
        # directional comparison: match overloads by arity
        for w in want:
            cands = [g for g in got if len(g[0]) == len(w[0])]
            if not cands:
                if direction == 'narrower':
                    r.fail(f'function {n}:overload/{len(w[0])}', f'{n} lost its {len(w[0])}-parameter overload', where, w, got)
                continue
            g = cands[0]
            bad = False
            for i, (gp, wp) in enumerate(zip(g[0], w[0])):
                gs, ws = set(gp), set(wp)
                if direction == 'narrower' and ws - gs:
                    r.fail(f'function {n}:param{i}', f'parameter {i} of {n} is {gp}, narrower than reference {wp}', where, wp, gp)
                    bad = True
                if direction == 'wider' and gs - ws:
                    r.fail(f'function {n}:param{i}', f'parameter {i} of {n} is {gp}, wider than reference {wp}', where, wp, gp)
                    bad = True
            gv, wv = g[2], w[2]
            if direction == 'narrower' and wv is not None and (gv is None or set(wv) - set(gv)):
                r.fail(f'function {n}:variadic', f'variadic type of {n} is {gv}, reference {wv}', where, wv, gv)
                bad = True
            if direction == 'wider' and gv is not None and (wv is None or set(gv) - set(wv)):
                r.fail(f'function {n}:variadic', f'variadic type of {n} is {gv}, reference {wv}', where, wv, gv)
                bad = True
            if not bad:
                r.ok(f'{n}/{len(w[0])}: {g}')
        if direction == 'wider':
            for g in got:
                if not any(len(g[0]) == len(w[0]) for w in want):
                    r.fail(f'function {n}:overload/{len(g[0])}', f'{n} gained a {len(g[0])}-parameter overload not in the reference', where, want, g)
    for n in ref:
        if n not in names:
            r.fail(f'function {n}:missing', f'function {n!r} has no definition', where)
    r.floor('functions', len(function_rows(ctx)), 27)
    return r


def T1n(ctx): return T1(ctx, 'narrower', 'T1n')
def T1w(ctx): return T1(ctx, 'wider', 'T1w')
def T2n(ctx): return T2(ctx, 'narrower', 'T2n')
def T2w(ctx): return T2(ctx, 'wider', 'T2w')


def T3(ctx: Ctx) -> RuleResult:
    r = RuleResult('T3', 'commutative / associative flags equal the mathematical ground truth for the declared parameter types')
    ref = oracle('operators.json')['binary']
    where = ctx.model.cls('BinaryOperatorDefinition').where
    n = 0
    for m, row in binary_rows(ctx).items():
        tok = row['token']
        want = ref.get(tok)
        if want is None:
            if row['commutative'] or row['associative']:
                r.notes.append(f'extra operator {tok!r} claims commutative={row["commutative"]} associative={row["associative"]}: not verified')
            continue
        for flag in ('commutative', 'associative'):
            n += 1
            if row[flag] is None:
                raise AnalysisError('T3', f'{tok}.{flag} is not a constant')
            if bool(row[flag]) == bool(want[flag]):
                r.ok(f'{tok}: {flag}={row[flag]}')
            else:
                r.fail(f'binary {tok}:{flag}', f'operator {tok!r} is flagged {flag}={row[flag]} but is {"" if want[flag] else "not "}{flag}: simplify() reorders operands on that flag', where, want[flag], row[flag])
        if row['associative'] and row['p1'] != row['p2']:
            r.fail(f'binary {tok}:assoc-types', f'associative operator {tok!r} has different parameter types {row["p1"]} / {row["p2"]}', where)
    r.floor('flag rows', n, 32)
    return r


def inverse_table(ctx: Ctx) -> Tuple[Dict[str, str], Any]:
    mod = ctx.model.module('hpl.rewrite', 'T4')
    if 'INVERSE_OPERATORS' not in mod.assigns:
        raise AnalysisError('T4', 'hpl.rewrite.INVERSE_OPERATORS not found (anchor vanished)')
    t = unglobal(ctx.ev.global_term(mod, 'INVERSE_OPERATORS'))
    if isinstance(t, Call) and isinstance(t.func, FuncRef) and not t.args and not t.kwargs:
        # the table is built by a function at import time: the value that function returns
        from .terms import Evaluator, helper_inline
        bf = ctx.ev.callee(t.func)
        if bf is not None:
            bouts = [o for o in Evaluator(ctx.model, inline=helper_inline(('hpl.rewrite',))).run(bf) if o.kind == 'return']
            if len(bouts) == 1:
                t = unglobal(bouts[0].value)
    if not isinstance(t, DictT):
        raise AnalysisError('T4', f'INVERSE_OPERATORS is not a dict display: {str(t)[:80]}')
    out: Dict[str, str] = {}
    for k, v in t.items:
        kt, vt = (new_field(ctx, k, 'token') if isinstance(k, New) else None), (new_field(ctx, v, 'token') if isinstance(v, New) else None)
        if not isinstance(kt, Const) or not isinstance(vt, Const):
            raise AnalysisError('T4', f'INVERSE_OPERATORS entry does not fold to operator definitions: {str(k)[:60]}')
        if kt.value in out and out[kt.value] != vt.value:
            return out, (kt.value, out[kt.value], vt.value)
        out[kt.value] = vt.value
    return out, None


def T4(ctx: Ctx) -> RuleResult:
    r = RuleResult('T4', 'INVERSE_OPERATORS: an involution; commutative operators map to themselves; < <-> >, <= <-> >=; parameter types mirrored')
    where = f'{ctx.model.module("hpl.rewrite").relpath}:{ctx.model.module("hpl.rewrite").assign_nodes["INVERSE_OPERATORS"].lineno}'
    tab, conflict = inverse_table(ctx)
    if conflict:
        r.fail(f'INVERSE_OPERATORS[{conflict[0]}]:conflict', f'key {conflict[0]!r} maps to both {conflict[1]!r} and {conflict[2]!r}', where)
    ref = oracle('operators.json')['inverse']
    rows = {row['token']: row for row in binary_rows(ctx).values()}
    for k, v in tab.items():
        want = ref.get(k)
        key = f'INVERSE_OPERATORS[{k}]'
        if want is None:
            # not in the reference: must still be a semantic mirror; only commutative self-maps are acceptable
            if k in rows and rows[k]['commutative'] and v == k and oracle('operators.json')['binary'].get(k, {}).get('commutative'):
                r.ok(f'{k} -> {v} (commutative self-map)')
            else:
                r.fail(key, f'operator {k!r} has no mirror operator, but the table maps it to {v!r} (x {k} y is rewritten to y {v} x)', where, None, v)
            continue
        if v != want:
            r.fail(key, f'mirror of {k!r} is {want!r}, table says {v!r}: (a {k} b) would be rewritten to (b {v} a)', where, want, v)
        else:
            r.ok(f'{k} -> {v}')
        if tab.get(v) != k:
            r.fail(key + ':involution', f'table is not an involution at {k!r}: inv(inv({k})) = {tab.get(v)!r}', where)
        if k in rows and v in rows and (rows[k]['p1'] != rows[v]['p2'] or rows[k]['p2'] != rows[v]['p1']):
            r.fail(key + ':types', f'parameter types of {k!r} and {v!r} are not mirror images', where)
    r.floor('inverse entries', len(tab), 8)
    # consumers use .get(op) with a None test or raise ValueError
    return r


def T5(ctx: Ctx) -> RuleResult:
    r = RuleResult('T5', "(u)intN type tokens carry exactly the two's-complement bounds of their width")
    c = ctx.model.cls('RangedType', 'T5')
    n = 0
    import re
    for name, fi in c.methods.items():
        mo = re.fullmatch(r'(u?)int(\d+)', name)
        if not mo or fi.kind != 'classmethod':
            continue
        n += 1
        bits = int(mo.group(2))
        lo, hi = (0, 2 ** bits - 1) if mo.group(1) else (-(2 ** (bits - 1)), 2 ** (bits - 1) - 1)
        outs = ctx.ev.run(fi, {})
        if len(outs) != 1 or outs[0].kind != 'return' or not isinstance(outs[0].value, New):
            raise AnalysisError('T5', f'RangedType.{name}: cannot extract constructor term')
        v = outs[0].value
        gl, gh = new_field(ctx, v, 'min_value'), new_field(ctx, v, 'max_value')
        ty = _types(ctx, new_field(ctx, v, 'type'))
        nm = new_field(ctx, v, 'name')
        if not (isinstance(gl, Const) and isinstance(gh, Const)):
            raise AnalysisError('T5', f'RangedType.{name}: bounds are not constants')
        if (gl.value, gh.value) == (lo, hi) and type(gl.value) is int and type(gh.value) is int:
            r.ok(f'{name}: [{lo}, {hi}]')
        else:
            r.fail(f'RangedType.{name}', f'{name} has bounds [{gl.value}, {gh.value}], expected [{lo}, {hi}]', fi.where, [lo, hi], [gl.value, gh.value])
        if ty != ['NUMBER']:
            r.fail(f'RangedType.{name}:type', f'{name} has type {ty}, expected NUMBER', fi.where)
        # the exported constant uses this factory
        const = name.upper()
        mod = ctx.model.module('hpl.types')
        if const in mod.assigns:
            t = ctx.ev.global_term(mod, const)
            same = isinstance(t, New) and t.cls == 'RangedType' and new_field(ctx, t, 'min_value') == Const(lo) and new_field(ctx, t, 'max_value') == Const(hi) and _types(ctx, new_field(ctx, t, 'type')) == ['NUMBER']
            if not same:
                r.fail(f'hpl.types.{const}', f'exported constant {const} does not carry the bounds [{lo}, {hi}] of {name}: {str(t)[:120]}', f'{mod.relpath}:{mod.assign_nodes[const].lineno}')
            else:
                r.ok(f'{const} = RangedType [{lo}, {hi}]')
        else:
            r.fail(f'hpl.types.{const}', f'exported constant {const} missing', mod.relpath)
    r.floor('integer factories', n, 8)
    return r


def T6(ctx: Ctx) -> RuleResult:
    r = RuleResult('T6', 'is_* predicates of the operator definition classes recognise exactly the tokens their names state; tokens used in rewrite.py name table rows')
    ref = oracle('operators.json')['predicates']
    n = 0
    for cls, key in (('UnaryOperatorDefinition', 'unary'), ('BinaryOperatorDefinition', 'binary')):
        c = ctx.model.cls(cls, 'T6')
        self_t = Sym('self', cls)
        for name, want in ref[key].items():
            fi = c.methods.get(name)
            if fi is None:
                r.fail(f'{cls}.{name}', f'predicate {name} missing', c.where)
                continue
            n += 1
            outs = ctx.ev.run(fi, {'self': self_t})
            got = None
            if len(outs) == 1 and outs[0].kind == 'return':
                got = _token_set(outs[0].value, Attr(self_t, 'token'))
            if got is None:
                r.fail(f'{cls}.{name}', f'cannot read {name} as a token membership test: {[str(o) for o in outs]}', fi.where)
            elif sorted(got) != sorted(want):
                r.fail(f'{cls}.{name}', f'{name} recognises {sorted(got)}, expected {sorted(want)}', fi.where, sorted(want), sorted(got))
            else:
                r.ok(f'{cls}.{name} = token in {sorted(got)}')
    # function names tested in rewrite.py must exist
    fnames = {row['name'] for row in function_rows(ctx).values()}
    mod = ctx.model.module('hpl.rewrite')
    for node in ast.walk(mod.tree):
        if isinstance(node, ast.Compare) and len(node.ops) == 1 and isinstance(node.ops[0], ast.Eq) and isinstance(node.comparators[0], ast.Constant) and isinstance(node.comparators[0].value, str):
            if isinstance(node.left, ast.Attribute) and node.left.attr == 'name' and _is_function_def_expr(mod, node, node.left.value):
                n += 1
                v = node.comparators[0].value
                if v in fnames:
                    r.ok(f'rewrite.py dispatches on function {v!r}')
                else:
                    r.fail(f'rewrite:fun.name=={v}', f'rewrite.py dispatches on function name {v!r}, which no BuiltinFunction has (dead branch / renamed function)', f'{mod.relpath}:{node.lineno}')
    r.floor('predicates', n, 40)
    return r


def _is_function_def_expr(mod, at: ast.AST, e: ast.expr) -> bool:
    """`e` denotes a FunctionDefinition: `<x>.function` or a local assigned from / annotated as one"""
    if isinstance(e, ast.Attribute) and e.attr == 'function':
        return True
    if isinstance(e, ast.Name):
        for fn in ast.walk(mod.tree):
            if isinstance(fn, ast.FunctionDef) and any(at is x for x in ast.walk(fn)):
                for st in ast.walk(fn):
                    if isinstance(st, ast.AnnAssign) and isinstance(st.target, ast.Name) and st.target.id == e.id:
                        if 'FunctionDefinition' in ast.unparse(st.annotation) or (st.value is not None and isinstance(st.value, ast.Attribute) and st.value.attr == 'function'):
                            return True
                    if isinstance(st, ast.Assign) and any(isinstance(t, ast.Name) and t.id == e.id for t in st.targets) and isinstance(st.value, ast.Attribute) and st.value.attr == 'function':
                        return True
    return False


def _token_set(v: Term, tok: Term) -> Optional[List[str]]:
    if isinstance(v, Op) and v.op == '==' and len(v.args) == 2:
        a, b = v.args
        if a == tok and isinstance(b, Const):
            return [b.value]
        if b == tok and isinstance(a, Const):
            return [a.value]
    if isinstance(v, Op) and v.op == 'in' and v.args[0] == tok and isinstance(v.args[1], TupleT) and all(isinstance(x, Const) for x in v.args[1].items):
        return [x.value for x in v.args[1].items]
    if isinstance(v, Op) and v.op == 'or':
        out: List[str] = []
        for a in v.args:
            s = _token_set(a, tok)
            if s is None:
                return None
            out.extend(s)
        return out
    return None


def enum_predicate(ctx: Ctx, cls: str, prop: str) -> FrozenSet[str]:
    """member set of an enum on which a boolean property is True (folded per member)"""
    c = ctx.model.cls(cls)
    fi = c.methods.get(prop)
    if fi is None:
        raise AnalysisError('T7', f'{cls}.{prop} not found (anchor vanished)')
    out = set()
    for m in c.enum_members:
        outs = ctx.ev.run(fi, {'self': EnumMember(cls, m)})
        if len(outs) != 1 or outs[0].kind != 'return' or not isinstance(outs[0].value, Const):
            raise AnalysisError('T7', f'{cls}.{prop} does not fold for member {m}: {[str(o) for o in outs]}')
        if outs[0].value.value:
            out.add(m)
    return frozenset(out)


ENUM_PARTITIONS = {
    ('PatternType', 'is_safety'): {'ABSENCE', 'REQUIREMENT', 'PREVENTION'},
    ('PatternType', 'is_liveness'): {'EXISTENCE', 'RESPONSE'},
    ('PatternType', 'is_absence'): {'ABSENCE'},
    ('PatternType', 'is_existence'): {'EXISTENCE'},
    ('PatternType', 'is_requirement'): {'REQUIREMENT'},
    ('PatternType', 'is_response'): {'RESPONSE'},
    ('PatternType', 'is_prevention'): {'PREVENTION'},
    ('PatternType', 'should_have_trigger'): {'REQUIREMENT', 'RESPONSE', 'PREVENTION'},
    ('ScopeType', 'is_after'): {'AFTER', 'AFTER_UNTIL'},
    ('ScopeType', 'is_until'): {'UNTIL', 'AFTER_UNTIL'},
    ('ScopeType', 'is_global'): {'GLOBAL'},
    ('ScopeType', 'should_have_activator'): {'AFTER', 'AFTER_UNTIL'},
    ('ScopeType', 'should_have_terminator'): {'UNTIL', 'AFTER_UNTIL'},
}


def T7(ctx: Ctx) -> RuleResult:
    r = RuleResult('T7', 'enum predicate tables: safety/liveness partition of the 5 pattern types; scope kind tables; class-level forwarders agree')
    for (cls, prop), want in ENUM_PARTITIONS.items():
        got = enum_predicate(ctx, cls, prop)
        c = ctx.model.cls(cls)
        if set(got) == want:
            r.ok(f'{cls}.{prop} = {sorted(got)}')
        else:
            r.fail(f'{cls}.{prop}', f'{prop} holds for {sorted(got)}, expected {sorted(want)}', c.methods[prop].where, sorted(want), sorted(got))
    members = set(ctx.model.cls('PatternType').enum_members)
    if members != {'ABSENCE', 'EXISTENCE', 'REQUIREMENT', 'RESPONSE', 'PREVENTION'}:
        r.notes.append(f'PatternType members changed: {sorted(members)}')
    saf, liv = enum_predicate(ctx, 'PatternType', 'is_safety'), enum_predicate(ctx, 'PatternType', 'is_liveness')
    if saf & liv or (saf | liv) != members:
        r.fail('PatternType:partition', f'is_safety {sorted(saf)} and is_liveness {sorted(liv)} do not partition {sorted(members)}', ctx.model.cls('PatternType').where)
    else:
        r.ok('is_safety / is_liveness partition PatternType')
    # forwarders on the attrs classes: HplPattern.is_x -> pattern_type.is_x with no other input
    for cls, fld, enum in (('HplPattern', 'pattern_type', 'PatternType'), ('HplScope', 'scope_type', 'ScopeType'), ('HplProperty', None, None)):
        c = ctx.model.cls(cls, 'T7')
        self_t = Sym('self', cls)
        for name, fi in c.methods.items():
            if fi.kind != 'property' or not name.startswith('is_') or name in ('is_pattern', 'is_scope', 'is_property'):
                continue
            outs = ctx.ev.run(fi, {'self': self_t})
            if cls == 'HplProperty':
                want_t = ctx.ev.attr(Attr(self_t, 'pattern'), name, _State(), 0)
                ok = len(outs) == 1 and outs[0].kind == 'return' and outs[0].value == want_t
            else:
                e = ctx.model.cls(enum)
                if name not in e.methods:
                    continue
                want_t = ctx.ev.attr(Attr(self_t, fld), name, _State(), 0)
                ok = len(outs) == 1 and outs[0].kind == 'return' and outs[0].value == want_t
            if ok:
                r.ok(f'{cls}.{name} forwards to the enum predicate of the same name')
            else:
                r.fail(f'{cls}.{name}', f'{cls}.{name} is not the enum predicate {name} of its own type field: {[str(o)[:120] for o in outs]}', fi.where)
    return r


RULES = {'T1': T1, 'T1n': T1n, 'T1w': T1w, 'T2': T2, 'T2n': T2n, 'T2w': T2w, 'T3': T3, 'T4': T4, 'T5': T5, 'T6': T6, 'T7': T7}

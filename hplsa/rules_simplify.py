"""R7: the local identities of the simplifier, decided on a finite model of the extracted rewrite schemas.

Every leaf simplification function of rewrite.py (`_simplify_addition`, ..., `_simplify_negation`, `_simplify_comparison`,
the leading branches of `_simplify_conjunction` / `_simplify_disjunction`, `_simplify_implies`, `_simplify_iff`) is a
list of guarded rewrite steps  guards(a, b) => input `a op b` becomes T(a, b).  The evaluator extracts them; this module
reads each step as a schema over *denotations*:

  * an operand that the guards do not look into is a free variable (numbers: -2, -1, 0, 1, 2, 1/2; truth values),
  * `isinstance(x, HplLiteral)` makes `x.value` that same variable, `x.value == c` fixes it,
  * `isinstance(x, HplBinaryOperator) and x.operator.is_division` gives x the denotation operand1 / operand2, ...
  * `a == b` (structural equality) implies equal denotations, `_obvious_negatives(a, b)` opposite ones,
    `_obviously_different(a, b)` different ones (the contracts of those helpers),
  * a call of another simplifier function on a term denotes what that term denotes (induction hypothesis).

A step is sound when, in every assignment that satisfies its guards and in which the input is defined, the output is
defined and equal to the input.  This is the same finite-model reading of extracted schemas that R1/R2 use for the
boolean rewrites; nothing of hpl is executed."""
from __future__ import annotations

import itertools
from fractions import Fraction
from typing import Any, Dict, List, Optional, Set, Tuple

from .ctx import Ctx
from .model import AnalysisError, FunctionInfo
from .report import RuleResult
from .rules_rewrite import canon, rewrite_eval
from .rules_tables import binary_rows, unary_rows
from .terms import (Attr, Call, Const, EnumMember, Ext, FuncRef, Ite, New, Op, Outcome, Sym, Term, alternatives, expand_outcomes,
                    guards_repr, norm_guards, walk)

NUMS = [Fraction(-2), Fraction(-1), Fraction(0), Fraction(1), Fraction(2), Fraction(1, 2)]
BOOLS = [False, True]
BOOL_TOKENS = {'and', 'or', 'implies', 'iff', 'not'}
SET_TOKENS = {'in'}
CMP_TOKENS = {'=', '!=', '<', '<=', '>', '>='}
ARITH_TOKENS = {'+', '-', '*', '/', '**'}


class Undefined(Exception):
    """the operation has no value (division by zero, 0 ** negative, non-integer exponent)"""


class Unknown(Exception):
    """the term is outside what the schema reader interprets"""


def _pow(a, b):
    if isinstance(a, bool) or isinstance(b, bool):
        raise Undefined()
    if b.denominator != 1:
        raise Undefined()
    if a == 0 and b < 0:
        raise Undefined()
    return a ** int(b)


def _div(a, b):
    if b == 0:
        raise Undefined()
    return Fraction(a) / Fraction(b)


BIN = {
    '+': lambda a, b: a + b, '-': lambda a, b: a - b, '*': lambda a, b: a * b, '/': _div, '**': _pow,
    'and': lambda a, b: bool(a) and bool(b), 'or': lambda a, b: bool(a) or bool(b),
    'implies': lambda a, b: (not bool(a)) or bool(b), 'iff': lambda a, b: bool(a) == bool(b),
    '=': lambda a, b: a == b, '!=': lambda a, b: a != b, '<': lambda a, b: a < b, '<=': lambda a, b: a <= b,
    '>': lambda a, b: a > b, '>=': lambda a, b: a >= b,
}
def _member(a, rng):
    if not (isinstance(rng, tuple) and rng and rng[0] == 'range'):
        raise Unknown('membership in something that is not a range')
    _, lo, hi, exlo, exhi = rng
    return (lo < a if exlo else lo <= a) and (a < hi if exhi else a <= hi)


BIN['in'] = _member
UN = {'not': lambda a: not bool(a), '-': lambda a: -a}
PY_BIN = {'+': '+', '-': '-', '*': '*', '/': '/', '**': '**', '==': '=', '!=': '!=', '<': '<', '<=': '<=', '>': '>', '>=': '>=', 'is': '=', 'is not': '!='}


def _fkey(t: Term) -> Optional[str]:
    if isinstance(t, Call) and isinstance(t.func, FuncRef):
        return t.func.key
    return None


def _is_ih(t: Term) -> bool:
    k = _fkey(t)
    return k is not None and (k.startswith('hpl.rewrite:_simplify') or k == 'hpl.rewrite:simplify') and len(t.args) == 1


class Schema:
    """one guarded rewrite step read over denotations"""

    def __init__(self, ctx: Ctx, param: Term, token: Optional[str], arity: int, o: Outcome):
        self.ctx, self.param, self.token, self.arity = ctx, param, token, arity
        self.kind: Dict[Term, Tuple] = {}       # expression term -> ('lit',) | ('bin', tok) | ('un', tok) | ('const', v)
        self.constraints: List[Tuple[Term, bool]] = []
        self.uninterpreted: List[str] = []
        self.ih_links: List[Term] = []   # simplifier calls with known structure: they denote what their argument denotes
        self.nottok: Dict[Term, Set[str]] = {}
        self.vars: List[Term] = []
        self.bin_tok = {m: r['token'] for m, r in binary_rows(ctx).items()}
        self.un_tok = {m: r['token'] for m, r in unary_rows(ctx).items()}
        for g, pol in list(o.guards) + [(a, True) for a in o.asserts]:
            self.read(g, pol)

    # ------------------------------------------------------------ structure
    def expr_term(self, t: Term) -> bool:
        """is t a term that stands for an HPL expression (operand chain of the input, or a simplifier call on one)"""
        t = canon(t)
        if t == self.param:
            return True
        if isinstance(t, Attr) and t.name in ('operand1', 'operand2', 'min_value', 'max_value'):
            return self.expr_term(t.base)
        if _is_ih(t):
            return True
        if isinstance(t, New) and t.cls in ('HplLiteral', 'HplUnaryOperator', 'HplBinaryOperator'):
            return True
        return False

    def op_token_test(self, t: Term) -> Optional[Tuple[Term, str]]:
        """X.operator.token == 'T' or X.operator.is_<kind>  ->  (X, T)"""
        if isinstance(t, Attr) and isinstance(t.base, Attr) and t.base.name == 'operator' and t.name in kind_tokens(self.ctx):
            return canon(t.base.base), kind_tokens(self.ctx)[t.name]
        if isinstance(t, Op) and t.op == '==' and len(t.args) == 2 and isinstance(t.args[1], Const) and isinstance(t.args[0], Attr) and t.args[0].name == 'token':
            b = t.args[0].base
            if isinstance(b, Attr) and b.name == 'operator':
                return canon(b.base), t.args[1].value
        return None

    def op_tokset_test(self, t: Term) -> Optional[Tuple[Term, frozenset]]:
        """X.operator.is_<kind> for a kind that covers several tokens -> (X, tokens)"""
        if isinstance(t, Attr) and isinstance(t.base, Attr) and t.base.name == 'operator' and t.name in kind_token_sets(self.ctx) and len(kind_token_sets(self.ctx)[t.name]) > 1:
            return canon(t.base.base), kind_token_sets(self.ctx)[t.name]
        return None

    def read(self, g: Term, pol: bool):
        while isinstance(g, Op) and g.op == 'not' and len(g.args) == 1:
            g, pol = g.args[0], not pol
        # tokens ruled out for a sub-expression: not x.operator.is_equality, ...
        if not pol:
            for x in ([g] if not (isinstance(g, Op) and g.op == 'or') else list(g.args)):
                tt0 = self.op_token_test(x)
                ts0 = self.op_tokset_test(x)
                if tt0 is not None and tt0[0] != self.param:
                    self.nottok.setdefault(tt0[0], set()).add(tt0[1])
                elif ts0 is not None:
                    self.nottok.setdefault(ts0[0], set()).update(ts0[1])
        if isinstance(g, Op) and ((g.op == 'and' and pol) or (g.op == 'or' and not pol)):
            # structure tests come as conjunctions: isinstance(x, C) and x.operator.token == T
            st = self.structure(g) if pol else None
            if st is not None:
                return
            for a in g.args:
                self.read(a, pol)
            return
        if pol and self.structure(g) is not None:
            return
        if not pol and self.structure(g, record=False) is not None:
            return  # "x is not a literal / not a division": says nothing about what x denotes
        tt = self.op_token_test(g)
        if tt is not None and tt[0] == self.param:
            if pol:
                self.token = tt[1]
            return
        if self.is_structural_noise(g):
            return
        self.constraints.append((g, pol))

    def structure(self, g: Term, record: bool = True) -> Optional[bool]:
        """record `x is a literal / a unary T / a binary T` facts; None when g is not such a test"""
        parts = list(g.args) if isinstance(g, Op) and g.op == 'and' else [g]
        subject = None
        cls = None
        tok = None
        tokset = None
        arity = None
        lit = 0
        litval: Any = ()
        for p in parts:
            if isinstance(p, Call) and isinstance(p.func, Ext) and p.func.name == 'isinstance' and len(p.args) == 2:
                subject = canon(p.args[0])
                c = p.args[1]
                cls = getattr(c, 'name', None)
            elif isinstance(p, Attr) and p.name in ('is_operator',):
                subject = canon(p.base)
            elif isinstance(p, Attr) and p.name in ('is_value', 'is_literal'):
                subject = canon(p.base)
                lit += 1
            elif isinstance(p, Op) and p.op == '==' and isinstance(p.args[0], Attr) and p.args[0].name == 'arity' and isinstance(p.args[1], Const):
                arity = p.args[1].value
            elif self.op_token_test(p) is not None:
                subject2, tok = self.op_token_test(p)
                subject = subject or subject2
            elif self.op_tokset_test(p) is not None:
                subject2, tokset = self.op_tokset_test(p)
                subject = subject or subject2
            elif isinstance(p, Op) and p.op == 'is' and isinstance(p.args[0], Attr) and p.args[0].name == 'value' and isinstance(p.args[1], Const) and isinstance(p.args[1].value, bool):
                litval = p.args[1].value
            elif isinstance(p, Call) and isinstance(p.func, Ext) and p.func.name == 'bool':
                pass  # data_type & NUMBER: typing, not value
            elif isinstance(p, Attr) and p.name.startswith('can_be_'):
                subject = subject or canon(p.base)   # typing, not value
            else:
                return None
        if subject is None or not self.expr_term(subject):
            return None
        if record and _is_ih(subject) and subject not in self.ih_links:
            self.ih_links.append(subject)
        if cls == 'HplLiteral' or lit == 2:
            if record:
                self.kind[subject] = ('lit',) if litval == () else ('const', litval)
            return True
        if cls == 'HplRange':
            if record:
                self.kind[subject] = ('range',)
            return True
        if tok is not None and (cls == 'HplBinaryOperator' or arity == 2):
            if record:
                self.kind[subject] = ('bin', tok)
            return True
        if tokset is not None and (cls == 'HplBinaryOperator' or arity == 2):
            if record:
                self.kind[subject] = ('bin-set', tokset)
            return True
        if tok is not None and (cls == 'HplUnaryOperator' or arity == 1):
            if record:
                self.kind[subject] = ('un', tok)
            return True
        if cls in ('HplBinaryOperator', 'HplUnaryOperator') and not record:
            return True
        return None

    @staticmethod
    def is_structural_noise(g: Term) -> bool:
        """guards that say nothing about values: identity tests used to avoid rebuilding, isinstance of other classes"""
        if isinstance(g, Op) and g.op in ('is', 'is not') and not any(isinstance(a, Const) for a in g.args):
            return True
        if isinstance(g, Call) and isinstance(g.func, Ext) and g.func.name == 'isinstance':
            return True
        if isinstance(g, Attr) and g.name.startswith('is_') and g.name not in ('is_true', 'is_false'):
            return True
        if isinstance(g, Op) and g.op in ('and', 'or') and all(Schema.is_structural_noise(a) for a in g.args):
            return True
        return False

    # ------------------------------------------------------------ denotation
    def free(self, t: Term) -> Term:
        if t not in self.vars:
            self.vars.append(t)
        return t

    def collect_vars(self, t: Term):
        """register the free variables below t (dry run with a collecting model)"""
        try:
            self.den(t, None)
        except (Undefined, Unknown):
            pass

    def den(self, t: Term, m: Optional[Dict[Term, Any]]):
        t0 = t
        t = canon(t) if not isinstance(t, New) else t
        if isinstance(t, Call) and isinstance(t.func, Ext) and t.func.name.endswith('check_type') and t.args:
            return self.den(t.args[0], m)
        if isinstance(t, Const):
            if isinstance(t.value, bool):
                return t.value
            if isinstance(t.value, int):
                return Fraction(t.value)
            if isinstance(t.value, float) and t.value == int(t.value):
                return Fraction(int(t.value))
            raise Unknown(repr(t))
        k = _fkey(t)
        if k in ('hpl.rewrite:true', 'hpl.rewrite:false') and not t.args:
            return k.endswith('true')
        if _is_ih(t):
            if canon(t) in self.kind:
                return self.structural(canon(t), m)
            return self.den(t.args[0], m)
        if isinstance(t, Attr) and t.name == 'value':
            return self.den(t.base, m)
        if isinstance(t, Attr) and t.name in ('exclude_min', 'exclude_max') and self.expr_term(t.base):
            v = self.free(Attr(canon(t.base), t.name))
            return False if m is None else bool(m[v])
        if isinstance(t, New):
            if t.cls == 'HplLiteral':
                return self.den(t.get('value'), m)
            if t.cls == 'HplUnaryOperator':
                tok = self.operator_token(t.get('operator'), 1)
                return UN[tok](self.den(t.get('operand'), m))
            if t.cls == 'HplBinaryOperator':
                tok = self.operator_token(t.get('operator'), 2)
                a, b = self.den(t.get('operand1'), m), self.den(t.get('operand2'), m)
                return BIN[tok](a, b)
            raise Unknown(t.cls)
        if isinstance(t, Op):
            if t.op == 'neg' and len(t.args) == 1:
                return -self.den(t.args[0], m)
            if t.op == 'not' and len(t.args) == 1:
                return not self.den(t.args[0], m)
            if t.op in PY_BIN and len(t.args) == 2:
                return BIN[PY_BIN[t.op]](self.den(t.args[0], m), self.den(t.args[1], m))
            if t.op in ('and', 'or'):
                vs = [self.den(a, m) for a in t.args]
                return all(vs) if t.op == 'and' else any(vs)
            raise Unknown(t.op)
        if isinstance(t, Call) and isinstance(t.func, Ext) and t.func.name in ('abs', 'bool', 'int', 'float') and len(t.args) == 1:
            v = self.den(t.args[0], m)
            if t.func.name == 'abs':
                return abs(v)
            if t.func.name == 'bool':
                return bool(v)
            if t.func.name == 'float':
                return v
            if isinstance(v, bool):
                return Fraction(int(v))
            return Fraction(int(v))  # int() truncates toward zero
        if self.expr_term(t):
            if t in self.kind:
                return self.structural(t, m)
            if t == self.param:
                return self.apply_input(m)
            v = self.free(t)
            if m is None:
                return Fraction(1)
            return m[v]
        raise Unknown(str(t0)[:80])

    def structural(self, t: Term, m):
        k = self.kind[t]
        if k[0] == 'const':
            return k[1]
        if k[0] == 'lit':
            v = self.free(t)
            return Fraction(1) if m is None else m[v]
        if k[0] == 'range':
            fl = [self.free(Attr(t, 'exclude_min')), self.free(Attr(t, 'exclude_max'))]
            return ('range', self.den(Attr(t, 'min_value'), m), self.den(Attr(t, 'max_value'), m),
                    False if m is None else bool(m[fl[0]]), False if m is None else bool(m[fl[1]]))
        if k[0] == 'bin-set':
            raise Unknown('operator of a sub-expression is one of several')
        if k[0] == 'bin':
            return BIN[k[1]](self.den(Attr(t, 'operand1'), m), self.den(Attr(t, 'operand2'), m))
        return UN[k[1]](self.den(Attr(t, 'operand1'), m))

    def apply_input(self, m):
        if self.token is None:
            raise Unknown('operator of the input is not fixed on this path')
        if self.arity == 2:
            if self.token not in BIN:
                raise Unknown(self.token)
            return BIN[self.token](self.den(Attr(self.param, 'operand1'), m), self.den(Attr(self.param, 'operand2'), m))
        if self.token not in UN:
            raise Unknown(self.token)
        return UN[self.token](self.den(Attr(self.param, 'operand1'), m))

    def operator_token(self, op: Term, arity: int) -> str:
        if isinstance(op, EnumMember):
            tok = (self.bin_tok if arity == 2 else self.un_tok).get(op.name)
            if tok is not None:
                return tok
        if isinstance(op, Const) and isinstance(op.value, str):
            return op.value
        if canon(op) == Attr(self.param, 'operator') and self.token is not None:
            return self.token
        if isinstance(op, Attr) and op.name == 'operator' and self.kind.get(canon(op.base), ('',))[0] in ('bin', 'un'):
            return self.kind[canon(op.base)][1]
        # the mirror operator: INVERSE_OPERATORS.get(x) / [x] / inverse_operator(x) (a raise when there is none)
        if isinstance(op, Ite):
            for g_, leaf in alternatives(op):
                if not any(type(y).__name__ == 'Raises' for y in walk(leaf)):
                    return self.operator_token(leaf, arity)
        inner = None
        if isinstance(op, Call) and getattr(op.func, 'name', None) == 'get' and op.args and 'INVERSE_OPERATORS' in repr(op.func):
            inner = op.args[0]
        elif type(op).__name__ == 'Sub' and 'INVERSE_OPERATORS' in repr(op.base):
            inner = op.index
        elif _fkey(op) == 'hpl.rewrite:inverse_operator' and op.args:
            inner = op.args[0]
        if inner is not None:
            from .rules_tables import inverse_table
            tab, _ = inverse_table(self.ctx)
            t0 = self.operator_token(inner, arity)
            if t0 not in tab:
                raise Undefined()
            return tab[t0]
        raise Unknown(f'operator {op!r}')

    # ------------------------------------------------------------ constraints
    def holds(self, g: Term, m) -> bool:
        """truth of a guard in the model; Unknown when it is not a statement about denotations"""
        if isinstance(g, Op) and g.op == 'not' and len(g.args) == 1:
            return not self.holds(g.args[0], m)
        if isinstance(g, Op) and g.op in ('and', 'or'):
            vs = [self.holds(a, m) for a in g.args]
            return all(vs) if g.op == 'and' else any(vs)
        if isinstance(g, Op) and g.op in ('is', 'is not', '==', '!=') and len(g.args) == 2 and g.args[1] == Const(None) and 'INVERSE_OPERATORS' in repr(g.args[0]):
            # does the operator have a mirror in the inverse table?
            try:
                self.operator_token(g.args[0], 2)
                has = True
            except Undefined:
                has = False
            return (not has) if g.op in ('is', '==') else has
        if isinstance(g, Op) and g.op in ('==', '!=', '<', '<=', '>', '>=', 'is', 'is not') and len(g.args) == 2:
            a, b = g.args
            if self.expr_term(a) and self.expr_term(b):
                if g.op != '==':
                    raise Unknown(repr(g))
                # structural equality of two expressions: handled by the caller (implication only)
                raise Unknown('structural-eq')
            return BIN[PY_BIN[g.op]](self.den(a, m), self.den(b, m))
        if isinstance(g, Op) and g.op in ('in', 'not in') and len(g.args) == 2:
            from .terms import TupleT
            if isinstance(g.args[1], TupleT):
                v = self.den(g.args[0], m)
                r = any(v == self.den(x, m) for x in g.args[1].items)
                return r if g.op == 'in' else not r
        raise Unknown(str(g)[:80])

    def satisfied(self, m) -> Optional[bool]:
        """do the guards of the step hold in the model (None: a guard could not be read)"""
        for t in self.ih_links:
            try:
                if t in self.kind and self.structural(t, m) != self.den(t.args[0], m):
                    return False
            except Undefined:
                return False
        for g, pol in self.constraints:
            try:
                k = _fkey(g)
                if isinstance(g, Op) and g.op == '==' and len(g.args) == 2 and self.expr_term(g.args[0]) and self.expr_term(g.args[1]):
                    if pol and self.den(g.args[0], m) != self.den(g.args[1], m):
                        return False
                    continue
                if k == 'hpl.rewrite:_obvious_negatives' and len(g.args) == 2:
                    if pol and self.den(g.args[0], m) != -self.den(g.args[1], m):
                        return False
                    continue
                if k == 'hpl.rewrite:_obviously_different' and len(g.args) == 2:
                    if pol and self.den(g.args[0], m) == self.den(g.args[1], m):
                        return False
                    continue
                if k in ('hpl.rewrite:is_true', 'hpl.rewrite:is_false') and len(g.args) == 1:
                    want = k.endswith('is_true')
                    v = self.den(g.args[0], m)
                    if pol and v is not want:
                        return False
                    continue
                if bool(self.holds(g, m)) != pol:
                    return False
            except Undefined:
                return False
        return True

    def readable(self) -> List[str]:
        """guards that cannot be read as statements about denotations (the step is then left undecided)"""
        bad = []
        for t in self.ih_links:
            self.collect_vars(t)
            self.collect_vars(t.args[0])
        for g, pol in self.constraints:
            try:
                k = _fkey(g)
                if isinstance(g, Op) and g.op == '==' and len(g.args) == 2 and self.expr_term(g.args[0]) and self.expr_term(g.args[1]):
                    self.collect_vars(g.args[0]); self.collect_vars(g.args[1])
                    continue
                if k in ('hpl.rewrite:_obvious_negatives', 'hpl.rewrite:_obviously_different', 'hpl.rewrite:is_true', 'hpl.rewrite:is_false'):
                    for a in g.args:
                        self.collect_vars(a)
                    continue
                self.holds(g, None)
            except Undefined:
                pass
            except Unknown as e:
                bad.append(str(e) or str(g)[:60])
        return bad


def kind_tokens(ctx: Ctx) -> Dict[str, str]:
    """is_plus -> '+', is_not -> 'not', ...: the kind properties of the operator definition classes that test one token"""
    def build():
        out: Dict[str, str] = {}
        clash: Set[str] = set()
        for cname in ('UnaryOperatorDefinition', 'BinaryOperatorDefinition'):
            c = ctx.model.cls(cname, 'R7')
            self_t = Sym('self', cname)
            for name, fi in c.methods.items():
                if fi.kind != 'property' or not name.startswith('is_'):
                    continue
                outs = ctx.ev.run(fi, {'self': self_t})
                if len(outs) == 1 and outs[0].kind == 'return':
                    v = outs[0].value
                    if isinstance(v, Op) and v.op == '==' and v.args[0] == Attr(self_t, 'token') and isinstance(v.args[1], Const):
                        if name in out and out[name] != v.args[1].value:
                            clash.add(name)   # is_minus: '-' in both classes, same token: no clash
                        out[name] = v.args[1].value
        for n in clash:
            out.pop(n, None)
        return out
    return ctx.memo('R7.kind_tokens', build)


def kind_token_sets(ctx: Ctx) -> Dict[str, frozenset]:
    """is_comparison -> {'=', '!=', '<', ...}: every kind property of the operator definition classes as the set of tokens
    it accepts"""
    def build():
        out: Dict[str, frozenset] = {}
        for cname in ('UnaryOperatorDefinition', 'BinaryOperatorDefinition'):
            c = ctx.model.cls(cname, 'R7')
            self_t = Sym('self', cname)
            tok = Attr(self_t, 'token')

            def toks(v) -> Optional[frozenset]:
                if isinstance(v, Op) and v.op == '==' and v.args[0] == tok and isinstance(v.args[1], Const):
                    return frozenset({v.args[1].value})
                if isinstance(v, Op) and v.op == 'in' and v.args[0] == tok and type(v.args[1]).__name__ == 'TupleT' and all(isinstance(x, Const) for x in v.args[1].items):
                    return frozenset(x.value for x in v.args[1].items)
                if isinstance(v, Op) and v.op == 'or':
                    parts = [toks(a) for a in v.args]
                    if all(p_ is not None for p_ in parts):
                        return frozenset().union(*parts)
                return None
            for name, fi in c.methods.items():
                if fi.kind != 'property' or not name.startswith('is_'):
                    continue
                outs = ctx.ev.run(fi, {'self': self_t})
                if len(outs) == 1 and outs[0].kind == 'return':
                    ts = toks(outs[0].value)
                    if ts is not None:
                        out[name] = (out[name] | ts) if name in out else ts
        return out
    return ctx.memo('R7.kind_token_sets', build)


def dispatch_tokens(ctx: Ctx) -> Dict[str, Tuple[Optional[str], int]]:
    """simplifier function -> (operator token it is dispatched for | None, arity), read from the dispatchers"""
    ev = rewrite_eval(ctx)
    out: Dict[str, Tuple[Optional[str], int]] = {}
    for dname, arity in (('_simplify_unary_operator', 1), ('_simplify_binary_operator', 2), ('_simplify_arithmetic', 2)):
        try:
            fi = ctx.model.func('hpl.rewrite', dname, 'R7')
        except AnalysisError:
            if dname == '_simplify_arithmetic':
                continue    # the intermediate dispatcher is optional: its arms may be written out in the binary dispatcher
            raise
        pc = ctx.ev.ann_class(fi.node.args.args[0].annotation, fi.module)
        p = Sym(fi.params()[0], pc.name if pc else None)
        for o in ev.run(fi, {fi.params()[0]: p}):
            if o.kind != 'return':
                continue
            for g2, leaf in alternatives(o.value):
                k = _fkey(leaf)
                if k is None or not k.startswith('hpl.rewrite:_simplify') or len(leaf.args) != 1:
                    continue
                name = k.split(':')[1]
                toks = [t.args[1].value for t, pol in norm_guards(tuple(o.guards) + tuple(g2)) if pol and isinstance(t, Op) and t.op == '==' and len(t.args) == 2
                        and isinstance(t.args[0], Attr) and t.args[0].name == 'token' and isinstance(t.args[1], Const)]
                if name in out and out[name][0] is not None and toks and out[name][0] != toks[-1]:
                    out[name] = (None, arity)
                elif name not in out or out[name][0] is None:
                    out[name] = (toks[-1] if toks else None, arity)
    return out


def dispatch_token_sets(ctx: Ctx) -> Dict[str, frozenset]:
    """simplifier function -> the operator tokens it can be dispatched for (from the kind tests of the dispatchers)"""
    from .terms import flat_guards
    ev = rewrite_eval(ctx)
    sets = kind_token_sets(ctx)
    out: Dict[str, frozenset] = {}
    for dname in ('_simplify_unary_operator', '_simplify_binary_operator', '_simplify_arithmetic'):
        try:
            fi = ctx.model.func('hpl.rewrite', dname, 'R7')
        except AnalysisError:
            if dname == '_simplify_arithmetic':
                continue    # the intermediate dispatcher is optional: its arms may be written out in the binary dispatcher
            raise
        pc = ctx.ev.ann_class(fi.node.args.args[0].annotation, fi.module)
        p = Sym(fi.params()[0], pc.name if pc else None)
        for o in ev.run(fi, {fi.params()[0]: p}):
            if o.kind != 'return':
                continue
            for g2, leaf in alternatives(o.value):
                k = _fkey(leaf)
                if k is None or not k.startswith('hpl.rewrite:_simplify') or len(leaf.args) != 1:
                    continue
                name = k.split(':')[1]
                allowed = None
                for t, pol in flat_guards(tuple(o.guards) + tuple(g2)):
                    ts = None
                    if isinstance(t, Attr) and isinstance(t.base, Attr) and t.base.name == 'operator' and t.name in sets:
                        ts = sets[t.name]
                    elif isinstance(t, Op) and t.op == '==' and len(t.args) == 2 and isinstance(t.args[0], Attr) and t.args[0].name == 'token' and isinstance(t.args[1], Const):
                        ts = frozenset({t.args[1].value})
                    elif isinstance(t, Op) and t.op == 'in' and len(t.args) == 2 and isinstance(t.args[0], Attr) and t.args[0].name == 'token' and type(t.args[1]).__name__ == 'TupleT' \
                            and all(isinstance(x, Const) for x in t.args[1].items):
                        ts = frozenset(x.value for x in t.args[1].items)
                    if ts is not None and pol:
                        allowed = ts if allowed is None else allowed & ts
                if allowed:
                    out[name] = (out.get(name, frozenset()) | allowed)
    return out


def _param_tokens(ctx: Ctx, param: Term, o: Outcome, universe: frozenset) -> List[str]:
    """the operator tokens of the input that are consistent with the kind tests this path made on it"""
    from .terms import flat_guards
    sets = kind_token_sets(ctx)
    cur = set(universe)
    for t, pol in list(flat_guards(o.guards)) + [(a, True) for a in o.asserts]:
        while isinstance(t, Op) and t.op == 'not' and len(t.args) == 1:
            t, pol = t.args[0], not pol
        ts = None
        if isinstance(t, Attr) and isinstance(t.base, Attr) and t.base.name == 'operator' and canon(t.base.base) == param and t.name in sets:
            ts = sets[t.name]
        elif isinstance(t, Op) and t.op in ('==', 'in') and len(t.args) == 2 and isinstance(t.args[0], Attr) and t.args[0].name == 'token' \
                and isinstance(t.args[0].base, Attr) and t.args[0].base.name == 'operator' and canon(t.args[0].base.base) == param:
            if t.op == '==' and isinstance(t.args[1], Const):
                ts = frozenset({t.args[1].value})
            elif t.op == 'in' and type(t.args[1]).__name__ == 'TupleT' and all(isinstance(x, Const) for x in t.args[1].items):
                ts = frozenset(x.value for x in t.args[1].items)
        if ts is not None:
            cur = (cur & ts) if pol else (cur - ts)
    return sorted(cur)


def _check_step(r: RuleResult, sc: 'Schema', name: str, fi: FunctionInfo, o: Outcome, gtxt: str, param: Term, undecided: List[str], stats: Dict[str, int]):
    key = f'{name}: [{gtxt[-110:]}] => {str(o.value)[:70]}'
    if canon(o.value) == param:
        stats['decided'] += 1
        return
    bad = sc.readable()
    try:
        sc.den(o.value, None)
        sc.apply_input(None)
    except Undefined:
        pass
    except Unknown as e:
        undecided.append(f'{name}: [{gtxt[-80:]}] output {str(o.value)[:50]}: {e}')
        return
    if bad:
        undecided.append(f'{name}: [{gtxt[-80:]}] guard not readable: {bad[0]}')
        return
    boolean = sc.token in BOOL_TOKENS
    vs = list(sc.vars)
    if len(vs) > 5:
        undecided.append(f'{name}: [{gtxt[-80:]}] too many free operands ({len(vs)})')
        return
    counter = None
    checked = 0
    def domain(v: Term):
        if isinstance(v, Attr) and v.name in ('exclude_min', 'exclude_max'):
            return BOOLS
        if isinstance(v, Attr) and v.name in ('min_value', 'max_value'):
            return NUMS
        if sc.token == 'in':
            return NUMS
        # operands of a comparison / arithmetic sub-expression are numbers whatever the function is about
        if isinstance(v, Attr) and v.name in ('operand1', 'operand2'):
            k = sc.kind.get(v.base)
            if k is not None and k[0] in ('bin', 'un') and (k[1] in CMP_TOKENS or k[1] in ARITH_TOKENS or (k[0] == 'un' and k[1] == '-')):
                return NUMS
            if k is not None and k[0] in ('bin', 'un') and k[1] in BOOL_TOKENS:
                return BOOLS
            if v.base == param and sc.token is not None:
                return BOOLS if sc.token in BOOL_TOKENS else NUMS
        return BOOLS if boolean else NUMS
    for choice in itertools.product(*[domain(v) for v in vs]):
        m = dict(zip(vs, choice))
        if not sc.satisfied(m):
            continue
        try:
            want = sc.apply_input(m)
        except Undefined:
            continue
        checked += 1
        try:
            got = sc.den(o.value, m)
        except Undefined:
            counter = (m, want, 'undefined')
            break
        if (bool(got) != bool(want)) if isinstance(want, bool) or isinstance(got, bool) else (got != want):
            counter = (m, want, got)
            break
    stats['models'] += checked
    stats['decided'] += 1
    if counter is not None:
        m, want, got = counter
        ms = ', '.join(f'{str(k)[1:] if str(k).startswith("$") else k}={v}' for k, v in m.items())
        r.fail(key, f'the step changes the value: with {ms} the input `{sc.token}` denotes {want} but the result denotes {got}', f'{fi.module.relpath}:{o.lineno}', str(want), str(got))
    elif checked == 0:
        undecided.append(f'{name}: [{gtxt[-80:]}] no assignment of the model satisfies the guards')
    else:
        r.ok(f'{name}: [{gtxt[-60:]}] => {str(o.value)[:40]} ({checked} assignments)')


def R7(ctx: Ctx) -> RuleResult:
    r = RuleResult('R7', 'local identities of the simplifier: every guarded rewrite step of the leaf simplification functions denotes the same value as its input in every assignment of a finite model (numbers -2..2 and 1/2, truth values) that satisfies its guards')
    ev = rewrite_eval(ctx)
    disp = dispatch_tokens(ctx)
    disp_sets = dispatch_token_sets(ctx)
    units = {n: v for n, v in disp.items() if n not in ('_simplify_arithmetic', '_simplify_binary_operator', '_simplify_unary_operator')}
    if len(units) < 8:
        raise AnalysisError('R7', f'only {len(units)} leaf simplifier functions found through the dispatchers: {sorted(units)}')
    n_steps = 0
    stats = {'decided': 0, 'models': 0}
    undecided: List[str] = []
    for name, (tok, arity) in sorted(units.items()):
        fi = ctx.model.func('hpl.rewrite', name, 'R7')
        pc = ctx.ev.ann_class(fi.node.args.args[0].annotation, fi.module)
        param = Sym(fi.params()[0], pc.name if pc else None)
        try:
            outs = expand_outcomes(ev.run(fi, {fi.params()[0]: param}))
        except AnalysisError:
            undecided.append(f'{name}: not evaluable')
            continue
        for o in outs:
            if o.kind != 'return':
                continue
            n_steps += 1
            sc0 = Schema(ctx, param, tok, arity, o)
            sets = [(x, sorted(k[1] - sc0.nottok.get(x, set()))) for x, k in sc0.kind.items() if k[0] == 'bin-set']
            combos = list(itertools.product(*[ts for _, ts in sets])) if sets else [()]
            gtxt = guards_repr(norm_guards(o.guards))
            # the operator of the input itself, when no test of this path fixes it: every token the function is
            # dispatched for that the path's tests leave possible
            in_toks: List[Optional[str]] = [None]
            if sc0.token is None and canon(o.value) != param and name in disp_sets:
                in_toks = _param_tokens(ctx, param, o, disp_sets[name]) or [None]
            for in_tok in in_toks[:8]:
                for combo in combos[:16]:
                    sc = Schema(ctx, param, tok, arity, o)
                    if in_tok is not None:
                        sc.token = in_tok
                    for (x, _), t_ in zip(sets, combo):
                        sc.kind[x] = ('bin', t_)
                    _check_step(r, sc, name, fi, o, gtxt + (f' input {in_tok}' if in_tok else '') + (f' {{{",".join(combo)}}}' if combo else ''), param, undecided, stats)
            continue
    r.counts['leaf simplifier functions'] = len(units)
    r.counts['assignments checked'] = stats['models']
    r.counts['steps undecided'] = len(undecided)
    r.notes.extend(undecided[:40])
    r.floor('rewrite steps', n_steps, 55)
    r.floor('steps decided', stats['decided'], 50)
    return r


# ------------------------------------------------------------------------ R8
class _NoValue(Exception):
    """a term of a fold that the little interpreter below cannot read"""


def _range_parts(t: Term) -> Optional[str]:
    """'min' / 'max' for <range>.min_value.value / .max_value.value, 'emin' / 'emax' for the exclusion flags"""
    if isinstance(t, Attr) and t.name == 'value' and isinstance(t.base, Attr) and t.base.name in ('min_value', 'max_value'):
        return 'min' if t.base.name == 'min_value' else 'max'
    if isinstance(t, Attr) and t.name in ('exclude_min', 'exclude_max'):
        return 'emin' if t.name == 'exclude_min' else 'emax'
    return None


def _bound_kind_test(t: Term) -> bool:
    """<range>.min_value / .max_value is a number literal (is_number_literal(b), b.is_value, b.is_literal, ...)"""
    def bound(x: Term) -> bool:
        return isinstance(x, Attr) and x.name in ('min_value', 'max_value')
    if isinstance(t, Attr) and t.name in ('is_value', 'is_literal', 'can_be_number') and bound(t.base):
        return True
    if isinstance(t, Call) and isinstance(t.func, FuncRef) and t.func.key.split(':')[-1] == 'is_number_literal' and len(t.args) == 1 and bound(t.args[0]):
        return True
    if isinstance(t, Call) and isinstance(t.func, Ext) and t.func.name == 'isinstance' and len(t.args) == 2 and bound(t.args[0]) and 'HplLiteral' in repr(t.args[1]):
        return True
    return False


def _fold_value(t: Term, env: Dict[Any, Any], loops: List[Any]) -> Any:
    """value of an arithmetic / boolean term of a fold in one point of the finite model"""
    from .terms import Loop, Opaque, TupleT
    part = _range_parts(t)
    if part is not None:
        return env[part]
    if t in env:
        return env[t]
    if isinstance(t, Const):
        if isinstance(t.value, (int, float, bool)) or t.value is None:
            return t.value
        raise _NoValue(repr(t))
    if _bound_kind_test(t):
        return True    # "this bound is a number literal": the case under study
    if isinstance(t, Attr) and t.name in ('start', 'stop', 'step') and _range_parts(t) is None:
        rng = _fold_value(t.base, env, loops)
        if isinstance(rng, range):
            return getattr(rng, t.name)
        raise _NoValue(repr(t))
    if isinstance(t, Ite):
        return _fold_value(t.a if _fold_value(t.test, env, loops) else t.b, env, loops)
    if isinstance(t, Op):
        if t.op == 'not' and len(t.args) == 1:
            return not _fold_value(t.args[0], env, loops)
        if t.op == 'iterating' and len(t.args) == 1:
            it = _fold_value(t.args[0], env, loops)    # a return from inside `for i in range(..)`: the range is not empty
            if isinstance(it, range):
                return len(it) > 0
            raise _NoValue(repr(t))
        if t.op == 'and':
            return all(_fold_value(a, env, loops) for a in t.args)
        if t.op == 'or':
            return any(_fold_value(a, env, loops) for a in t.args)
        if t.op == 'neg' and len(t.args) == 1:
            return -_fold_value(t.args[0], env, loops)
        if len(t.args) == 2:
            a, b = _fold_value(t.args[0], env, loops), _fold_value(t.args[1], env, loops)
            try:
                if t.op == '+':
                    return a + b
                if t.op == '-':
                    return a - b
                if t.op == '*':
                    return a * b
                if t.op == '//':
                    return a // b
                if t.op == '/':
                    return Fraction(a) / Fraction(b)
                if t.op == '%':
                    return a % b
                if t.op == '**' and isinstance(b, int) and 0 <= b <= 8:
                    return a ** b
                if t.op in ('==', 'is'):
                    return a == b
                if t.op in ('!=', 'is not'):
                    return a != b
                if t.op == '<':
                    return a < b
                if t.op == '<=':
                    return a <= b
                if t.op == '>':
                    return a > b
                if t.op == '>=':
                    return a >= b
            except (ZeroDivisionError, TypeError):
                raise _NoValue(f'{t.op} undefined')
        if t.op == '-' and len(t.args) == 1:
            return -_fold_value(t.args[0], env, loops)
    if isinstance(t, Call) and isinstance(t.func, Ext) and not t.kwargs:
        n = t.func.name.split('.')[-1]
        if n == 'reduce' and len(t.args) == 3 and isinstance(t.args[0], Ext):
            opn = t.args[0].name.split('.')[-1]
            xs, acc = _fold_value(t.args[1], env, loops), _fold_value(t.args[2], env, loops)
            if opn in ('mul', '__mul__', 'add', '__add__') and isinstance(xs, range) and len(xs) <= 64:
                for x in xs:
                    acc = acc * x if opn in ('mul', '__mul__') else acc + x
                return acc
            raise _NoValue(repr(t)[:80])
        args = [_fold_value(a, env, loops) for a in t.args]
        if n == 'int' and len(args) == 1:
            return int(args[0])
        if n == 'float' and len(args) == 1:
            return args[0]
        if n == 'bool' and len(args) == 1:
            return bool(args[0])
        if n == 'abs' and len(args) == 1:
            return abs(args[0])
        if n in ('max', 'min') and len(args) >= 2:
            return max(args) if n == 'max' else min(args)
        if n == 'range' and 1 <= len(args) <= 3 and all(isinstance(a, int) for a in args):
            return range(*args)
        if n in ('len', 'sum', 'prod', 'list', 'tuple') and len(args) == 1 and isinstance(args[0], range) and len(args[0]) <= 64:
            xs = list(args[0])
            if n == 'len':
                return len(xs)
            if n == 'sum':
                return sum(xs)
            if n == 'prod':
                out = 1
                for x in xs:
                    out *= x
                return out
            return range(args[0].start, args[0].stop, args[0].step)
    if isinstance(t, Opaque) and t.tag.startswith('loop:'):
        # the accumulator of a summarised loop after the loop: replay the single body path over the iterable
        var = t.tag[5:]
        for lp in loops:
            if not isinstance(lp, Loop) or var not in dict(lp.inits) or lp.raises or lp.returns:
                continue
            it = _fold_value(lp.iter, env, loops)
            if not isinstance(it, range) or len(it) > 64:
                raise _NoValue(f'loop over {lp.iter!r}')
            accs = {k: _fold_value(v, env, loops) for k, v in lp.inits}
            tgt = lp.target
            for x in it:
                env2 = dict(env)
                env2[Sym(f'each:{tgt}')] = x
                for k, v in accs.items():
                    env2[Opaque(f'loopvar:{k}')] = v
                taken = None
                for pg, flow, binds, effs in lp.paths:
                    if all(bool(_fold_value(g, env2, loops)) == pol for g, pol in pg):
                        taken = (flow, binds)
                        break
                if taken is None:
                    raise _NoValue('no loop path applies')
                for k, v in taken[1]:
                    if k in accs:
                        accs[k] = _fold_value(v, env2, loops)
                if taken[0] == 'break':
                    break
            return accs[var]
    raise _NoValue(repr(t)[:80])


def R8(ctx: Ctx) -> RuleResult:
    r = RuleResult('R8', 'constant folding of len / sum / prod over a range with literal bounds: in every range of a finite model (integer bounds -3..3, every combination of excluded ends; reversed and degenerate ranges included) the folded constant is the number / sum / product of the integers the range contains (or the call is left as it is)')
    from .terms import Evaluator, Loop
    mod = ctx.model.module('hpl.rewrite', 'R8')
    fi = ctx.model.func('hpl.rewrite', '_simplify_function_call', 'R8')
    base = rewrite_eval(ctx)
    call = Sym(fi.params()[0], 'HplFunctionCall')
    grid = [(lo, hi, emin, emax) for lo in range(-3, 4) for hi in range(-3, 4) for emin in (False, True) for emax in (False, True)]
    decided = 0
    for fname in ('len', 'sum', 'prod', 'max', 'min'):
        ev = Evaluator(ctx.model, inline=base.inline, assume={Attr(Attr(call, 'function'), 'name'): Const(fname)})
        outs = []

        def follow(o, depth_):
            # delegated to a per-function folder (possibly a shared one parameterised by a constant descriptor): its own
            # paths, each with its own loops
            v = o.value
            if o.kind == 'return' and depth_ < 4 and isinstance(v, Call) and isinstance(v.func, FuncRef) and v.args[:1] == (call,) and not v.kwargs \
                    and not any(isinstance(x, Sym) and not x.name.startswith('lam:') for a in v.args[1:] for x in walk(a)):
                g = ev.callee(v.func)
                if g is not None and g is not fi and len(g.params()) >= len(v.args):
                    for o2 in expand_outcomes(ev.run(g, dict(zip(g.params(), v.args)))):
                        follow(Outcome(o2.kind, o2.value, tuple(o.guards) + tuple(o2.guards), tuple(o.effects) + tuple(o2.effects), tuple(o.asserts) + tuple(o2.asserts), o2.lineno, o2.env, o2.trace), depth_ + 1)
                    return
            outs.append(o)
        for o in expand_outcomes(ev.run(fi, {fi.params()[0]: call})):
            follow(o, 0)
        # the outcomes for a range argument: isinstance(<arg>, HplRange) holds on the path
        cases = []
        for o in outs:
            if o.kind != 'return':
                continue
            on_range = any(pol_ and isinstance(g, Call) and isinstance(g.func, Ext) and g.func.name == 'isinstance' and len(g.args) == 2 and 'HplRange' in repr(g.args[1])
                           for g, pol_ in __import__('hplsa.terms', fromlist=['flat_guards']).flat_guards(o.guards))
            if on_range:
                cases.append(o)
        folded = [o for o in cases if isinstance(o.value, New) and o.value.cls == 'HplLiteral']
        if not folded:
            r.notes.append(f'{fname}: no constant folding over ranges found (nothing to check)')
            continue
        bad: Dict[str, Tuple] = {}
        unread: List[str] = []
        n_pts = 0
        for lo, hi, emin, emax in grid:
            env = {'min': lo, 'max': hi, 'emin': emin, 'emax': emax}
            ints = [i for i in range(-8, 9) if (lo < i or (lo == i and not emin)) and (i < hi or (i == hi and not emax))]
            if fname in ('max', 'min'):
                want = (max(ints) if fname == 'max' else min(ints)) if ints else 'nothing (the range is empty: the call must stay)'
            else:
                want = len(ints) if fname == 'len' else sum(ints) if fname == 'sum' else __import__('math').prod(ints)
            for o in folded:
                loops = [e for e in o.effects if isinstance(e, Loop)]
                try:
                    applies = True
                    for g, pol_ in o.guards:
                        if not any(_range_parts(x) in ('min', 'max', 'emin', 'emax') for x in walk(g)):
                            continue    # kind tests (is it a range, are the bounds literals): the case under study
                        if bool(_fold_value(g, env, loops)) != pol_:
                            applies = False
                            break
                    if not applies:
                        continue
                    got = _fold_value(o.value.get('value'), env, loops)
                except _NoValue as e:
                    unread.append(f'{fname}: {e}')
                    continue
                except KeyError as e:
                    unread.append(f'{fname}: {e}')
                    continue
                n_pts += 1
                if got != want:
                    txt = f'{"!" if emin else ""}[{lo} to {hi}]{"!" if emax else ""}'
                    kind = 'negative' if fname == 'len' and isinstance(got, int) and got < 0 else 'reversed' if lo > hi else 'empty' if not ints else 'value'
                    bad.setdefault(kind, (txt, got, want, o.lineno))
        r.counts[f'{fname}: points'] = n_pts
        if unread and not n_pts:
            r.notes.append(f'{fname}: folded value not readable ({unread[0]})')
            continue
        decided += fname in ('len', 'sum', 'prod')
        if not bad:
            r.ok(f'{fname}(range): {n_pts} ranges of the model fold to the right constant')
        for kind, (txt, got, want, line) in sorted(bad.items()):
            r.fail(f'{fname}(range):{kind}', f'{fname}({txt}) folds to {got}; the range contains {"no integer" if want in (0, 1) and kind != "value" else "integers"} and the value is {want}'
                   + (' (a length cannot be negative)' if kind == 'negative' else ''), f'{fi.module.relpath}:{line}', want, got)
    r.floor('range folds decided', decided, 3)
    return r


# ------------------------------------------------------------------------ R9
_DEDUPE = ('set', 'frozenset', 'dict.fromkeys', 'fromkeys')


def _dedupes(t: Term) -> bool:
    """the term is a collection without repeated elements by construction: set(...), a set comprehension, or
    tuple / list / sorted of one"""
    from .terms import Comp, TupleT
    if isinstance(t, Comp) and t.kind == 'set':
        return True
    if isinstance(t, TupleT) and t.kind == 'set':
        return True
    if isinstance(t, Call) and isinstance(t.func, Ext):
        n = t.func.name
        if n in _DEDUPE or n.split('.')[-1] in ('fromkeys',):
            return True
        if n in ('tuple', 'list', 'sorted') and t.args:
            return _dedupes(t.args[0])
    return False


def _nodup_guard(gs, about: List[Term]) -> bool:
    """the path has established len(set(V)) == len(W) for the collection under construction"""
    from .terms import flat_guards
    def is_len(x: Term) -> Optional[Term]:
        return x.args[0] if isinstance(x, Call) and isinstance(x.func, Ext) and x.func.name == 'len' and len(x.args) == 1 else None
    for t, pol in flat_guards(tuple(gs)):
        if not (isinstance(t, Op) and len(t.args) == 2 and t.op in ('==', '!=', '<', '>', '>=', '<=')):
            continue
        a, b = is_len(t.args[0]), is_len(t.args[1])
        if a is None or b is None:
            continue
        if _dedupes(b) and not _dedupes(a):
            a, b = b, a
            op = {'<': '>', '>': '<', '<=': '>=', '>=': '<='}.get(t.op, t.op)
        else:
            op = t.op
        if not (_dedupes(a) and not _dedupes(b)):
            continue
        inner = a.args[0] if isinstance(a, Call) and a.args else None
        if inner is not None and about and not any(inner == x for x in about):
            continue
        # len(set(V)) <= len(W) always: equality is `==` true, `!=` false, `<` false, `>=` true
        if (op == '==' and pol) or (op == '!=' and not pol) or (op == '<' and not pol) or (op == '>=' and pol):
            return True
    return False


def R9(ctx: Ctx) -> RuleResult:
    r = RuleResult('R9', 'a set literal that comes out of _simplify has pairwise distinct elements (len / sum / prod over set literals count / add / multiply them once each): every set it rebuilds is built from a set of the simplified elements, or after the test that they contain no duplicates - unless the folds remove duplicates themselves')
    from .terms import Comp, Evaluator, Loop, flat_guards
    fi = ctx.model.func('hpl.rewrite', '_simplify', 'R9')
    ev = Evaluator(ctx.model, inline=lambda f, d: False)
    expr = Sym(fi.params()[0], 'HplSet')

    def on_set(o: Outcome) -> bool:
        return any(pol and isinstance(g, Call) and isinstance(g.func, Ext) and g.func.name == 'isinstance' and len(g.args) == 2 and g.args[0] == expr and 'HplSet' in repr(g.args[1])
                   for g, pol in flat_guards(o.guards))
    outs = [(fi, o) for o in expand_outcomes(ev.run(fi, {fi.params()[0]: expr})) if o.kind == 'return' and on_set(o)]
    followed = []
    for f0, o in outs:
        if isinstance(o.value, Call) and isinstance(o.value.func, FuncRef) and o.value.args == (expr,):
            g = ev.callee(o.value.func)     # the set case lives in a helper of its own
            if g is not None and g is not fi:
                followed.extend((g, o2) for o2 in expand_outcomes(ev.run(g, {g.params()[0]: expr})) if o2.kind == 'return')
                continue
        followed.append((f0, o))
    if not followed:
        raise AnalysisError('R9', '_simplify: no path for set literals found')
    weak: List[Tuple[FunctionInfo, Outcome, str]] = []
    n = 0
    for f0, o in followed:
        n += 1
        v = o.value
        simplified = [x for t in [v] + [g for g, _ in o.guards] for x in walk(t) if isinstance(x, Comp) and any(isinstance(y, Call) and isinstance(y.func, FuncRef) and y.func.key == fi.key for y in walk(x.elt))]
        built = None
        if isinstance(v, New) and v.cls == 'HplSet':
            built = v.get('values')
        elif isinstance(v, Call) and isinstance(v.func, (Attr,)) and v.func.name == 'but' and v.kw('values') is not None:
            built = v.kw('values')
        elif isinstance(v, Call) and getattr(v.func, 'name', '') == 'but' and v.kw('values') is not None:
            built = v.kw('values')
        if built is not None:
            if _dedupes(built):
                r.ok(f'{f0.name}: rebuilt from {str(built)[:60]}')
            elif _nodup_guard(o.guards, [built] + simplified):
                r.ok(f'{f0.name}: rebuilt from the simplified elements after the no-duplicates test')
            else:
                weak.append((f0, o, f'rebuilds the set from {str(built)[:70]} without removing or excluding duplicates'))
        elif v == expr:
            if _nodup_guard(o.guards, simplified):
                r.ok(f'{f0.name}: returns the input set after the no-duplicates test')
            else:
                weak.append((f0, o, 'returns the input set without having excluded duplicates among its simplified elements'))
        else:
            r.notes.append(f'{f0.name}: result {str(v)[:80]} not interpreted')
            n -= 1
    if weak:
        # do the folds over set literals count on distinct elements?
        rely = []
        fc = ctx.model.func('hpl.rewrite', '_simplify_function_call', 'R9')
        call = Sym(fc.params()[0], 'HplFunctionCall')
        base = rewrite_eval(ctx)
        for fname in ('len', 'sum', 'prod'):
            ev2 = Evaluator(ctx.model, inline=base.inline, assume={Attr(Attr(call, 'function'), 'name'): Const(fname)})
            outs2 = []
            for o in expand_outcomes(ev2.run(fc, {fc.params()[0]: call})):
                if o.kind == 'return' and isinstance(o.value, Call) and isinstance(o.value.func, FuncRef) and o.value.args == (call,):
                    g = ev2.callee(o.value.func)
                    if g is not None and g is not fc:
                        outs2.extend(expand_outcomes(ev2.run(g, {g.params()[0]: call})))
                        continue
                outs2.append(o)
            for o in outs2:
                terms = [o.value] + list(o.effects) + [g for g, _ in o.guards] if o.value is not None else []
                for t in terms:
                    parents: Dict[int, Term] = {}
                    for x in walk(t):
                        if isinstance(x, Call) and isinstance(x.func, Ext) and x.func.name in _DEDUPE:
                            for y in walk(x):
                                parents[id(y)] = x
                    for x in walk(t):
                        if isinstance(x, Attr) and x.name == 'values' and id(x) not in parents and 'HplSet' in repr(o.guards):
                            rely.append(fname)
        if rely:
            for f0, o, why in weak:
                r.fail(f'{f0.name}[HplSet]:duplicates', f'{f0.name} {why}: a set such as {{2, 1 + 1}} keeps two equal elements after simplification, and the {"/".join(sorted(set(rely)))} folds over set literals count each element of .values (len -> 2, sum -> 4)', f'{f0.module.relpath}:{o.lineno}')
        else:
            r.ok('the folds over set literals remove duplicates themselves')
    r.floor('set paths of _simplify', n, 2)
    return r


# ----------------------------------------------------------------------- R10
_LIT_KIND = {'number': 'NUMBER', 'boolean': 'BOOL', 'string': 'STRING'}


def _fold_outcomes(ctx: Ctx, fname: str) -> Tuple[FunctionInfo, Term, List[Tuple[FunctionInfo, Outcome]]]:
    """return paths of the constant folding of one built-in function (the dispatcher specialised to its name; a
    delegation to a per-function folder is followed)"""
    from .terms import Evaluator
    fc = ctx.model.func('hpl.rewrite', '_simplify_function_call', 'R10')
    call = Sym(fc.params()[0], 'HplFunctionCall')
    ev2 = Evaluator(ctx.model, inline=rewrite_eval(ctx).inline, assume={Attr(Attr(call, 'function'), 'name'): Const(fname)})
    outs: List[Tuple[FunctionInfo, Outcome]] = []
    for o in expand_outcomes(ev2.run(fc, {fc.params()[0]: call})):
        if o.kind == 'return' and isinstance(o.value, Call) and isinstance(o.value.func, FuncRef) and o.value.args == (call,):
            g = ev2.callee(o.value.func)
            if g is not None and g is not fc:
                outs.extend((g, o2) for o2 in expand_outcomes(ev2.run(g, {g.params()[0]: call})))
                continue
        outs.append((fc, o))
    return fc, call, outs


# the Python function that computes each built-in on constants (the HPL function of the same meaning): what a fold
# of F applied to literal arguments must call, with the arguments in order.  Confirmed against docs/lang.md.
FOLD_IMPL = {
    'abs': {'abs'}, 'bool': {'bool'}, 'int': {'int'}, 'float': {'float'}, 'str': {'str'},
    'sqrt': {'math.sqrt'}, 'ceil': {'math.ceil'}, 'floor': {'math.floor'},
    'sin': {'math.sin'}, 'cos': {'math.cos'}, 'tan': {'math.tan'}, 'asin': {'math.asin'}, 'acos': {'math.acos'}, 'atan': {'math.atan'},
    'atan2': {'math.atan2'}, 'deg': {'math.degrees'}, 'rad': {'math.radians'}, 'log': {'math.log', 'math.log10'}, 'gcd': {'math.gcd'},
}


def _fold_impl_check(r: RuleResult, fname: str, call: Term, v: Term, o: Outcome, where: str):
    """the folded value of a scalar function is impl(arg0.value, arg1.value, ...) of the simplified arguments, in order"""
    from .terms import Template, flat_guards
    impls = FOLD_IMPL.get(fname)
    if impls is None:
        return
    val = v.get('value')
    if isinstance(val, Template) and len(val.parts) == 1 and hasattr(val.parts[0], 'value'):
        val = val.parts[0].value    # str(x) as an f-string
        if fname == 'str':
            val = Call(Ext('str'), (val,))
    if not (isinstance(val, Call) and isinstance(val.func, Ext)):
        return
    fn = val.func.name
    if fn not in impls:
        r.fail(f'{fname}:implementation', f'{fname}() applied to constants is folded with {fn}(), expected {sorted(impls)}: the branch for another function is taken', where, sorted(impls), fn)
        return

    def arg_index(t: Term) -> Optional[int]:
        # _simplify(call.arguments[i]).value
        if isinstance(t, Attr) and t.name == 'value' and isinstance(t.base, Call) and isinstance(t.base.func, FuncRef) and len(t.base.args) == 1:
            a = t.base.args[0]
            if type(a).__name__ == 'Sub' and a.base == Attr(call, 'arguments') and isinstance(a.index, Const):
                return a.index.value
        return None
    idx = [arg_index(a) for a in val.args]
    if all(i is not None for i in idx) and idx != list(range(len(idx))):
        r.fail(f'{fname}:argument-order', f'{fname}() is folded as {fn}({", ".join("arg%d" % i for i in idx)}): the arguments are not passed in order', where)
    if fn == 'math.log10':
        base10 = any(pol and isinstance(g, Op) and g.op == '==' and g.args[1] == Const(10) and arg_index(g.args[0]) == 1 for g, pol in flat_guards(o.guards))
        if not base10:
            r.fail('log:base', 'log(x, b) is folded with math.log10 on a path that has not established b == 10', where)


def R10(ctx: Ctx) -> RuleResult:
    r = RuleResult('R10', 'result kind of function folding: each built-in function folds to a literal of its declared result type (HplLiteral.number / boolean / string), to the call itself, or to a rebuilt expression; an argument is handed back as the result only where its type is known to be within the result type')
    from .rules_tables import function_rows
    from .terms import BoundMethod, ClassRef, flat_guards
    n = 0
    simp = ctx.model.func('hpl.rewrite', '_simplify', 'R10')
    for m, row in function_rows(ctx).items():
        fname = row['name']
        rts = set()
        pts = set()
        for params, res, var in row['overloads']:
            rts |= set(res or ())
            for pt in params:
                pts |= set(pt or ())
            pts |= set(var or ())
        try:
            fc, call, outs = _fold_outcomes(ctx, fname)
        except AnalysisError as e:
            r.notes.append(f'{fname}: not evaluable ({e})')
            continue
        for f0, o in outs:
            if o.kind != 'return':
                continue
            v = o.value
            where = f'{f0.module.relpath}:{o.lineno}'
            if v == call:
                continue
            if isinstance(v, New) and v.cls == 'HplLiteral':
                n += 1
                kinds = [t.func.name for t in o.trace if isinstance(t, Call) and isinstance(t.func, BoundMethod) and isinstance(t.func.recv, ClassRef) and t.func.recv.name == 'HplLiteral' and t.func.name in _LIT_KIND]
                if not kinds:
                    if f'{fname}: literal built without the number/boolean/string factories' not in r.notes:
                        r.notes.append(f'{fname}: literal built without the number/boolean/string factories')
                    continue
                kind = _LIT_KIND[kinds[-1]]
                _fold_impl_check(r, fname, call, v, o, where)
                if kind in rts:
                    r.ok(f'{fname}: folds to a {kind} literal')
                else:
                    r.fail(f'{fname}:literal-kind', f'{fname}() folds to a {kind} literal but its declared result type is {sorted(rts)}: the simplified expression changes type', where, sorted(rts), kind)
                continue
            # an argument (simplified or not) handed back as it is
            is_arg = (isinstance(v, Call) and isinstance(v.func, FuncRef) and v.func.key == simp.key and len(v.args) == 1 and any(x == Attr(call, 'arguments') for x in walk(v.args[0]))) \
                or (not isinstance(v, Call) and any(x == Attr(call, 'arguments') for x in walk(v)) and not isinstance(v, New))
            if is_arg:
                n += 1
                if pts and pts <= rts:
                    r.ok(f'{fname}: hands back an argument (every parameter type is within the result type)')
                    continue
                evidence = set()
                for g, pol in flat_guards(o.guards):
                    if pol and isinstance(g, Attr) and g.base == v and g.name.startswith('can_be_'):
                        evidence.add(g.name[7:].upper())
                if evidence and evidence <= rts:
                    r.ok(f'{fname}: hands back an argument known to be {sorted(evidence)}')
                else:
                    r.fail(f'{fname}:identity', f'{fname}() hands back its argument {str(v)[:50]} unchanged where nothing establishes that it is of the result type {sorted(rts)} (parameters admit {sorted(pts)}; a Python isinstance test on the value does not: bool is an int): the result changes type', where, sorted(rts), sorted(pts))
    r.floor('folding paths', n, 25)
    return r


# ----------------------------------------------------------------------- R11
class _PairFacts:
    """what one path of a two-argument shortcut predicate has established about its arguments"""

    def __init__(self, ctx: Ctx, guards, asserts):
        from .terms import flat_guards
        self.ctx = ctx
        self.cls: Dict[Term, str] = {}
        self.allowed: Dict[Term, Set[str]] = {}
        self.excluded: Dict[Term, Set[str]] = {}
        self.equal: List[Tuple[Term, Term]] = []
        self.negatives: List[Tuple[Term, Term]] = []
        self.value_tests: List[Tuple[Term, bool]] = []
        self.unread: List[str] = []
        sets = kind_token_sets(ctx)
        for g, pol in list(flat_guards(tuple(guards))) + [(a, True) for a in asserts]:
            while isinstance(g, Op) and g.op == 'not' and len(g.args) == 1:
                g, pol = g.args[0], not pol
            if isinstance(g, Op) and g.op == 'and' and pol:
                for x in g.args:
                    self._one(x, True, sets)
                continue
            self._one(g, pol, sets)

    def _tokens(self, g: Term, sets) -> Optional[Tuple[Term, frozenset]]:
        if isinstance(g, Attr) and isinstance(g.base, Attr) and g.base.name == 'operator' and g.name in sets:
            return canon(g.base.base), sets[g.name]
        if isinstance(g, Op) and g.op == 'or':
            parts = [self._tokens(x, sets) for x in g.args]
            if all(p_ is not None for p_ in parts) and len({p_[0] for p_ in parts}) == 1:
                return parts[0][0], frozenset().union(*[p_[1] for p_ in parts])
        return None

    def _one(self, g: Term, pol: bool, sets):
        while isinstance(g, Op) and g.op == 'not' and len(g.args) == 1:
            g, pol = g.args[0], not pol
        if isinstance(g, Call) and isinstance(g.func, Ext) and g.func.name == 'isinstance' and len(g.args) == 2:
            if pol:
                self.cls[canon(g.args[0])] = getattr(g.args[1], 'name', '?')
            return
        tk = self._tokens(g, sets)
        if tk is not None:
            x, ts = tk
            if pol:
                self.allowed[x] = (self.allowed[x] & ts) if x in self.allowed else set(ts)
            else:
                self.excluded.setdefault(x, set()).update(ts)
            return
        k = _fkey(g)
        if k == 'hpl.rewrite:_obvious_negatives' and len(g.args) == 2:
            if pol:
                self.negatives.append((canon(g.args[0]), canon(g.args[1])))
            return
        if isinstance(g, Op) and g.op == '==' and len(g.args) == 2 and not any(isinstance(a, Const) for a in g.args):
            if pol:
                self.equal.append((canon(g.args[0]), canon(g.args[1])))
            return
        if isinstance(g, Op) and g.op in ('==', '!=', '<', '<=', '>', '>=') and len(g.args) == 2 and isinstance(g.args[1], Const) and isinstance(g.args[0], Attr) and g.args[0].name == 'value':
            self.value_tests.append((g, pol))
            return
        if isinstance(g, Op) and g.op == 'and' and not pol:
            return      # "not (this shape)": says nothing about values
        if isinstance(g, Const):
            return
        self.unread.append(str(g)[:70])

    def token_choices(self) -> List[Dict[Term, str]]:
        subs = sorted(set(self.allowed) | {x for x in self.cls if self.cls[x] in ('HplBinaryOperator', 'HplUnaryOperator')}, key=repr)
        all_bin = set(BIN) - {'in'}
        opts = []
        for x in subs:
            base = set(self.allowed[x]) if x in self.allowed else (set(UN) if self.cls.get(x) == 'HplUnaryOperator' else all_bin)
            if self.cls.get(x) == 'HplUnaryOperator':
                base &= set(UN)
            elif self.cls.get(x) == 'HplBinaryOperator':
                base &= all_bin
            base -= self.excluded.get(x, set())
            opts.append(sorted(base))
        return [dict(zip(subs, c)) for c in itertools.product(*opts)] if all(opts) else []


def _pair_den(t: Term, toks: Dict[Term, str], facts: '_PairFacts', m: Dict[Term, Any]):
    t = canon(t)
    if isinstance(t, Attr) and t.name == 'value':
        return _pair_den(t.base, toks, facts, m)
    if t in toks:
        tok = toks[t]
        if facts.cls.get(t) == 'HplUnaryOperator' or (tok in UN and tok not in BIN) or (tok == '-' and facts.cls.get(t) != 'HplBinaryOperator' and t not in facts.allowed):
            v = _pair_den(Attr(t, 'operand1'), toks, facts, m)
            if (tok == 'not') != isinstance(v, bool):
                raise Undefined()
            return UN[tok](v)
        a, b = _pair_den(Attr(t, 'operand1'), toks, facts, m), _pair_den(Attr(t, 'operand2'), toks, facts, m)
        if tok in BOOL_TOKENS:
            if not (isinstance(a, bool) and isinstance(b, bool)):
                raise Undefined()
        elif isinstance(a, bool) or isinstance(b, bool):
            if tok not in ('=', '!='):
                raise Undefined()
        return BIN[tok](a, b)
    return m[t]


def _pair_leaves(t: Term, toks: Dict[Term, str], facts: '_PairFacts', out: List[Term]):
    t = canon(t)
    if isinstance(t, Attr) and t.name == 'value':
        return _pair_leaves(t.base, toks, facts, out)
    if t in toks:
        _pair_leaves(Attr(t, 'operand1'), toks, facts, out)
        if not (facts.cls.get(t) == 'HplUnaryOperator' or toks[t] == 'not'):
            _pair_leaves(Attr(t, 'operand2'), toks, facts, out)
        return
    if t not in out:
        out.append(t)


def R11(ctx: Ctx) -> RuleResult:
    r = RuleResult('R11', 'contracts of the shortcut predicates the simplifier trusts: whenever _obviously_different(a, b) answers True the two expressions denote different values, and whenever _obvious_negatives(a, b) answers True one denotes the negation of the other, in every assignment of the finite model (numbers -2..2 and 1/2, truth values) that has the shape the path tested')
    ev = rewrite_eval(ctx)
    n_paths = 0
    for name, claim in (('_obviously_different', 'different'), ('_obvious_negatives', 'negatives')):
        fi = ctx.model.func('hpl.rewrite', name, 'R11')
        ps = fi.params()
        a, b = Sym(ps[0], 'HplExpression'), Sym(ps[1], 'HplExpression')
        for o in expand_outcomes(ev.run(fi, {ps[0]: a, ps[1]: b})):
            if o.kind != 'return' or o.value == Const(False):
                continue
            guards = tuple(o.guards) + (() if o.value == Const(True) else ((o.value, True),))
            facts = _PairFacts(ctx, guards, o.asserts)
            gtxt = guards_repr(norm_guards(guards))
            if facts.unread:
                r.notes.append(f'{name}: [{gtxt[-80:]}] not readable: {facts.unread[0]}')
                continue
            choices = facts.token_choices()
            if not choices:
                continue   # contradictory operator tests: the path cannot be taken
            n_paths += 1
            for toks in choices:
                leaves: List[Term] = []
                for x in [a, b] + [y for pr in facts.equal + facts.negatives for y in pr] + [g.args[0] for g, _ in facts.value_tests]:
                    _pair_leaves(x, toks, facts, leaves)
                if len(leaves) > 5:
                    r.notes.append(f'{name}: too many free operands on a path')
                    continue
                counter = None
                checked = 0
                for universe in (NUMS, BOOLS):
                    for choice in itertools.product(universe, repeat=len(leaves)):
                        m = dict(zip(leaves, choice))
                        try:
                            if any(_pair_den(x, toks, facts, m) != _pair_den(y, toks, facts, m) for x, y in facts.equal):
                                continue
                            okn = True
                            for x, y in facts.negatives:
                                vx, vy = _pair_den(x, toks, facts, m), _pair_den(y, toks, facts, m)
                                if isinstance(vx, bool) != isinstance(vy, bool) or (vx != (not vy) if isinstance(vx, bool) else vx != -vy):
                                    okn = False
                            if not okn:
                                continue
                            if any(bool(BIN[PY_BIN[g.op]](_pair_den(g.args[0], toks, facts, m), Fraction(g.args[1].value) if not isinstance(g.args[1].value, bool) else g.args[1].value)) != pol for g, pol in facts.value_tests):
                                continue
                            va, vb = _pair_den(a, toks, facts, m), _pair_den(b, toks, facts, m)
                        except (Undefined, TypeError, KeyError):
                            continue
                        if isinstance(va, bool) != isinstance(vb, bool):
                            continue
                        checked += 1
                        if claim == 'different':
                            bad = va == vb
                        else:
                            bad = (va != (not vb)) if isinstance(va, bool) else (va != -vb)
                        if bad and counter is None:
                            counter = (m, va, vb)
                shape = ','.join(f'{str(k)[1:]}:{v}' for k, v in sorted(toks.items(), key=lambda kv: repr(kv[0]))) or ('negatives' if facts.negatives else 'any')
                if facts.negatives and not toks:
                    shape = 'negatives'
                key = f'{name}[{shape}]'
                if counter is not None:
                    m, va, vb = counter
                    ms = ', '.join(f'{str(k)[1:] if str(k).startswith("$") else k}={v}' for k, v in m.items())
                    what = 'denote the same value' if claim == 'different' else 'are not negations of each other'
                    r.fail(key, f'{name} answers True on this shape, but with {ms} the two expressions {what} ({va} and {vb}): every rewrite that trusts the answer (x = y -> False, x != y -> True, ...) changes the value there', f'{fi.module.relpath}:{o.lineno}')
                elif checked:
                    r.ok(f'{key}: {checked} assignments')
    r.floor('True paths of the shortcut predicates', n_paths, 4)
    return r


# ----------------------------------------------------------------------- R12
def R12(ctx: Ctx) -> RuleResult:
    r = RuleResult('R12', 'normal-form assumptions of the simplifier: an assertion that the first operand of an (already simplified) binary operator is not a literal is made only where the operator is known to be commutative - _pre_simplify_binop moves a literal to the right only under the commutative flag, so `1 - x`, `2 / x`, `2 ** x`, `1 < x` keep it')
    import ast as _ast
    mod = ctx.model.module('hpl.rewrite', 'R12')
    ev = rewrite_eval(ctx)
    commutative = {row['token'] for row in binary_rows(ctx).values() if row.get('commutative')}
    all_bin = {row['token'] for row in binary_rows(ctx).values()}
    n_funcs = 0
    n_asserts = 0
    for fi in mod.functions.values():
        if not any(isinstance(x, _ast.Assert) and 'HplLiteral' in _ast.unparse(x.test) for x in _ast.walk(fi.node)):
            continue
        n_funcs += 1
        args = {}
        for a_ in fi.node.args.args:
            c = ctx.ev.ann_class(a_.annotation, fi.module) if a_.annotation is not None else None
            args[a_.arg] = Sym(a_.arg, c.name if c else None)
        try:
            outs = expand_outcomes(ev.run(fi, args))
        except AnalysisError:
            r.notes.append(f'{fi.name}: not evaluable')
            continue
        seen_keys = set()
        for o in outs:
            for at in o.asserts:
                t = at
                if not (isinstance(t, Op) and t.op == 'not' and len(t.args) == 1):
                    continue
                inner = t.args[0]
                subj = None
                if isinstance(inner, Call) and isinstance(inner.func, Ext) and inner.func.name == 'isinstance' and len(inner.args) == 2 and 'HplLiteral' in repr(inner.args[1]):
                    subj = canon(inner.args[0])
                elif isinstance(inner, Attr) and inner.name == 'is_literal':
                    subj = canon(inner.base)
                if not (isinstance(subj, Attr) and subj.name == 'operand1'):
                    continue
                n_asserts += 1
                x = subj.base
                facts = _PairFacts(ctx, o.guards, [a2 for a2 in o.asserts if a2 is not at])
                allowed = set(facts.allowed.get(x, all_bin)) & all_bin
                allowed -= facts.excluded.get(x, set())
                risky = sorted(allowed - commutative)
                key = f'{fi.name}:first-operand-not-literal'
                if risky and key not in seen_keys:
                    seen_keys.add(key)
                    r.fail(key, f'{fi.name} asserts that {str(x)[:40]}.operand1 is not a literal on a path where its operator can be {risky[:6]}: literals are moved to the right of commutative operators only, so e.g. `(1 - x) = 1` fails with AssertionError', f'{fi.module.relpath}:{o.lineno}')
                elif not risky:
                    r.ok(f'{fi.name}: first operand of a commutative operator ({sorted(allowed)})')
    r.counts['functions with literal assertions'] = n_funcs
    r.counts['first-operand assertions'] = n_asserts
    return r


RULES = {'R7': R7, 'R8': R8, 'R9': R9, 'R10': R10, 'R11': R11, 'R12': R12}

"""R7: the local identities of the simplifier, decided on a finite model of the extracted rewrite schemas.

Every leaf simplification function of rewrite.py (`_simplify_addition`, ..., `_simplify_negation`, `_simplify_comparison`,
the leading branches of `_simplify_conjunction` / `_simplify_disjunction`, `_simplify_implies`, `_simplify_iff`) is a
list of guarded rewrite steps  guards(a, b) => input `a op b` becomes T(a, b).  The evaluator extracts them; this module
reads each step as a schema over *denotations*:

  * an operand that the guards do not look into is a free variable (numbers: -2, -1, 0, 1, 2, 1/2; truth values),
  * `isinstance(x, HplLiteral)` makes `x.value` that same variable, `x.value == c` fixes it,
  * `isinstance(x, HplBinaryOperator) and x.operator.is_division` gives x the denotation operand1 / operand2, ...
  * `a == b` (structural equality) implies equal denotations, `_obvious_negatives(a, b)` opposite ones,
    `_obviously_different(a, b)` different ones (the contracts of those helpers),
  * a call of another simplifier function on a term denotes what that term denotes (induction hypothesis).

A step is sound when, in every assignment that satisfies its guards and in which the input is defined, the output is
defined and equal to the input.  This is the same finite-model reading of extracted schemas that R1/R2 use for the
boolean rewrites; nothing of hpl is executed."""
from __future__ import annotations

import itertools
from fractions import Fraction
from typing import Any, Dict, List, Optional, Set, Tuple

from .ctx import Ctx
from .model import AnalysisError, FunctionInfo
from .report import RuleResult
from .rules_rewrite import canon, rewrite_eval
from .rules_tables import binary_rows, unary_rows
from .terms import (Attr, Call, Const, EnumMember, Ext, FuncRef, Ite, New, Op, Outcome, Sym, Term, alternatives, expand_outcomes,
                    guards_repr, norm_guards, walk)

NUMS = [Fraction(-2), Fraction(-1), Fraction(0), Fraction(1), Fraction(2), Fraction(1, 2)]
BOOLS = [False, True]
BOOL_TOKENS = {'and', 'or', 'implies', 'iff', 'not'}
SET_TOKENS = {'in'}
CMP_TOKENS = {'=', '!=', '<', '<=', '>', '>='}
ARITH_TOKENS = {'+', '-', '*', '/', '**'}


class Undefined(Exception):
    """the operation has no value (division by zero, 0 ** negative, non-integer exponent)"""


class Unknown(Exception):
    """the term is outside what the schema reader interprets"""


def _pow(a, b):
    if isinstance(a, bool) or isinstance(b, bool):
        raise Undefined()
    if b.denominator != 1:
        raise Undefined()
    if a == 0 and b < 0:
        raise Undefined()
    return a ** int(b)


def _div(a, b):
    if b == 0:
        raise Undefined()
    return Fraction(a) / Fraction(b)


BIN = {
    '+': lambda a, b: a + b, '-': lambda a, b: a - b, '*': lambda a, b: a * b, '/': _div, '**': _pow,
    'and': lambda a, b: bool(a) and bool(b), 'or': lambda a, b: bool(a) or bool(b),
    'implies': lambda a, b: (not bool(a)) or bool(b), 'iff': lambda a, b: bool(a) == bool(b),
    '=': lambda a, b: a == b, '!=': lambda a, b: a != b, '<': lambda a, b: a < b, '<=': lambda a, b: a <= b,
    '>': lambda a, b: a > b, '>=': lambda a, b: a >= b,
}
def _member(a, rng):
    if not (isinstance(rng, tuple) and rng and rng[0] == 'range'):
        raise Unknown('membership in something that is not a range')
    _, lo, hi, exlo, exhi = rng
    return (lo < a if exlo else lo <= a) and (a < hi if exhi else a <= hi)


BIN['in'] = _member
UN = {'not': lambda a: not bool(a), '-': lambda a: -a}
PY_BIN = {'+': '+', '-': '-', '*': '*', '/': '/', '**': '**', '==': '=', '!=': '!=', '<': '<', '<=': '<=', '>': '>', '>=': '>=', 'is': '=', 'is not': '!='}


def _fkey(t: Term) -> Optional[str]:
    if isinstance(t, Call) and isinstance(t.func, FuncRef):
        return t.func.key
    return None


def _is_ih(t: Term) -> bool:
    k = _fkey(t)
    return k is not None and (k.startswith('hpl.rewrite:_simplify') or k == 'hpl.rewrite:simplify') and len(t.args) == 1


class Schema:
    """one guarded rewrite step read over denotations"""

    def __init__(self, ctx: Ctx, param: Term, token: Optional[str], arity: int, o: Outcome):
        self.ctx, self.param, self.token, self.arity = ctx, param, token, arity
        self.kind: Dict[Term, Tuple] = {}       # expression term -> ('lit',) | ('bin', tok) | ('un', tok) | ('const', v)
        self.constraints: List[Tuple[Term, bool]] = []
        self.uninterpreted: List[str] = []
        self.ih_links: List[Term] = []   # simplifier calls with known structure: they denote what their argument denotes
        self.nottok: Dict[Term, Set[str]] = {}
        self.vars: List[Term] = []
        self.bin_tok = {m: r['token'] for m, r in binary_rows(ctx).items()}
        self.un_tok = {m: r['token'] for m, r in unary_rows(ctx).items()}
        for g, pol in list(o.guards) + [(a, True) for a in o.asserts]:
            self.read(g, pol)

    # ------------------------------------------------------------ structure
    def expr_term(self, t: Term) -> bool:
        """is t a term that stands for an HPL expression (operand chain of the input, or a simplifier call on one)"""
        t = canon(t)
        if t == self.param:
            return True
        if isinstance(t, Attr) and t.name in ('operand1', 'operand2', 'min_value', 'max_value'):
            return self.expr_term(t.base)
        if _is_ih(t):
            return True
        if isinstance(t, New) and t.cls in ('HplLiteral', 'HplUnaryOperator', 'HplBinaryOperator'):
            return True
        return False

    def op_token_test(self, t: Term) -> Optional[Tuple[Term, str]]:
        """X.operator.token == 'T' or X.operator.is_<kind>  ->  (X, T)"""
        if isinstance(t, Attr) and isinstance(t.base, Attr) and t.base.name == 'operator' and t.name in kind_tokens(self.ctx):
            return canon(t.base.base), kind_tokens(self.ctx)[t.name]
        if isinstance(t, Op) and t.op == '==' and len(t.args) == 2 and isinstance(t.args[1], Const) and isinstance(t.args[0], Attr) and t.args[0].name == 'token':
            b = t.args[0].base
            if isinstance(b, Attr) and b.name == 'operator':
                return canon(b.base), t.args[1].value
        return None

    def op_tokset_test(self, t: Term) -> Optional[Tuple[Term, frozenset]]:
        """X.operator.is_<kind> for a kind that covers several tokens -> (X, tokens)"""
        if isinstance(t, Attr) and isinstance(t.base, Attr) and t.base.name == 'operator' and t.name in kind_token_sets(self.ctx) and len(kind_token_sets(self.ctx)[t.name]) > 1:
            return canon(t.base.base), kind_token_sets(self.ctx)[t.name]
        return None

    def read(self, g: Term, pol: bool):
        while isinstance(g, Op) and g.op == 'not' and len(g.args) == 1:
            g, pol = g.args[0], not pol
        # tokens ruled out for a sub-expression: not x.operator.is_equality, ...
        if not pol:
            for x in ([g] if not (isinstance(g, Op) and g.op == 'or') else list(g.args)):
                tt0 = self.op_token_test(x)
                ts0 = self.op_tokset_test(x)
                if tt0 is not None and tt0[0] != self.param:
                    self.nottok.setdefault(tt0[0], set()).add(tt0[1])
                elif ts0 is not None:
                    self.nottok.setdefault(ts0[0], set()).update(ts0[1])
        if isinstance(g, Op) and ((g.op == 'and' and pol) or (g.op == 'or' and not pol)):
            # structure tests come as conjunctions: isinstance(x, C) and x.operator.token == T
            st = self.structure(g) if pol else None
            if st is not None:
                return
            for a in g.args:
                self.read(a, pol)
            return
        if pol and self.structure(g) is not None:
            return
        if not pol and self.structure(g, record=False) is not None:
            return  # "x is not a literal / not a division": says nothing about what x denotes
        tt = self.op_token_test(g)
        if tt is not None and tt[0] == self.param:
            if pol:
                self.token = tt[1]
            return
        if self.is_structural_noise(g):
            return
        self.constraints.append((g, pol))

    def structure(self, g: Term, record: bool = True) -> Optional[bool]:
        """record `x is a literal / a unary T / a binary T` facts; None when g is not such a test"""
        parts = list(g.args) if isinstance(g, Op) and g.op == 'and' else [g]
        subject = None
        cls = None
        tok = None
        tokset = None
        arity = None
        lit = 0
        litval: Any = ()
        for p in parts:
            if isinstance(p, Call) and isinstance(p.func, Ext) and p.func.name == 'isinstance' and len(p.args) == 2:
                subject = canon(p.args[0])
                c = p.args[1]
                cls = getattr(c, 'name', None)
            elif isinstance(p, Attr) and p.name in ('is_operator',):
                subject = canon(p.base)
            elif isinstance(p, Attr) and p.name in ('is_value', 'is_literal'):
                subject = canon(p.base)
                lit += 1
            elif isinstance(p, Op) and p.op == '==' and isinstance(p.args[0], Attr) and p.args[0].name == 'arity' and isinstance(p.args[1], Const):
                arity = p.args[1].value
            elif self.op_token_test(p) is not None:
                subject2, tok = self.op_token_test(p)
                subject = subject or subject2
            elif self.op_tokset_test(p) is not None:
                subject2, tokset = self.op_tokset_test(p)
                subject = subject or subject2
            elif isinstance(p, Op) and p.op == 'is' and isinstance(p.args[0], Attr) and p.args[0].name == 'value' and isinstance(p.args[1], Const) and isinstance(p.args[1].value, bool):
                litval = p.args[1].value
            elif isinstance(p, Call) and isinstance(p.func, Ext) and p.func.name == 'bool':
                pass  # data_type & NUMBER: typing, not value
            elif isinstance(p, Attr) and p.name.startswith('can_be_'):
                subject = subject or canon(p.base)   # typing, not value
            else:
                return None
        if subject is None or not self.expr_term(subject):
            return None
        if record and _is_ih(subject) and subject not in self.ih_links:
            self.ih_links.append(subject)
        if cls == 'HplLiteral' or lit == 2:
            if record:
                self.kind[subject] = ('lit',) if litval == () else ('const', litval)
            return True
        if cls == 'HplRange':
            if record:
                self.kind[subject] = ('range',)
            return True
        if tok is not None and (cls == 'HplBinaryOperator' or arity == 2):
            if record:
                self.kind[subject] = ('bin', tok)
            return True
        if tokset is not None and (cls == 'HplBinaryOperator' or arity == 2):
            if record:
                self.kind[subject] = ('bin-set', tokset)
            return True
        if tok is not None and (cls == 'HplUnaryOperator' or arity == 1):
            if record:
                self.kind[subject] = ('un', tok)
            return True
        if cls in ('HplBinaryOperator', 'HplUnaryOperator') and not record:
            return True
        return None

    @staticmethod
    def is_structural_noise(g: Term) -> bool:
        """guards that say nothing about values: identity tests used to avoid rebuilding, isinstance of other classes"""
        if isinstance(g, Op) and g.op in ('is', 'is not') and not any(isinstance(a, Const) for a in g.args):
            return True
        if isinstance(g, Call) and isinstance(g.func, Ext) and g.func.name == 'isinstance':
            return True
        if isinstance(g, Attr) and g.name.startswith('is_') and g.name not in ('is_true', 'is_false'):
            return True
        if isinstance(g, Op) and g.op in ('and', 'or') and all(Schema.is_structural_noise(a) for a in g.args):
            return True
        return False

    # ------------------------------------------------------------ denotation
    def free(self, t: Term) -> Term:
        if t not in self.vars:
            self.vars.append(t)
        return t

    def collect_vars(self, t: Term):
        """register the free variables below t (dry run with a collecting model)"""
        try:
            self.den(t, None)
        except (Undefined, Unknown):
            pass

    def den(self, t: Term, m: Optional[Dict[Term, Any]]):
        t0 = t
        t = canon(t) if not isinstance(t, New) else t
        if isinstance(t, Call) and isinstance(t.func, Ext) and t.func.name.endswith('check_type') and t.args:
            return self.den(t.args[0], m)
        if isinstance(t, Const):
            if isinstance(t.value, bool):
                return t.value
            if isinstance(t.value, int):
                return Fraction(t.value)
            if isinstance(t.value, float) and t.value == int(t.value):
                return Fraction(int(t.value))
            raise Unknown(repr(t))
        k = _fkey(t)
        if k in ('hpl.rewrite:true', 'hpl.rewrite:false') and not t.args:
            return k.endswith('true')
        if _is_ih(t):
            if canon(t) in self.kind:
                return self.structural(canon(t), m)
            return self.den(t.args[0], m)
        if isinstance(t, Attr) and t.name == 'value':
            return self.den(t.base, m)
        if isinstance(t, Attr) and t.name in ('exclude_min', 'exclude_max') and self.expr_term(t.base):
            v = self.free(Attr(canon(t.base), t.name))
            return False if m is None else bool(m[v])
        if isinstance(t, New):
            if t.cls == 'HplLiteral':
                return self.den(t.get('value'), m)
            if t.cls == 'HplUnaryOperator':
                tok = self.operator_token(t.get('operator'), 1)
                return UN[tok](self.den(t.get('operand'), m))
            if t.cls == 'HplBinaryOperator':
                tok = self.operator_token(t.get('operator'), 2)
                a, b = self.den(t.get('operand1'), m), self.den(t.get('operand2'), m)
                return BIN[tok](a, b)
            raise Unknown(t.cls)
        if isinstance(t, Op):
            if t.op == 'neg' and len(t.args) == 1:
                return -self.den(t.args[0], m)
            if t.op == 'not' and len(t.args) == 1:
                return not self.den(t.args[0], m)
            if t.op in PY_BIN and len(t.args) == 2:
                return BIN[PY_BIN[t.op]](self.den(t.args[0], m), self.den(t.args[1], m))
            if t.op in ('and', 'or'):
                vs = [self.den(a, m) for a in t.args]
                return all(vs) if t.op == 'and' else any(vs)
            raise Unknown(t.op)
        if isinstance(t, Call) and isinstance(t.func, Ext) and t.func.name in ('abs', 'bool', 'int', 'float') and len(t.args) == 1:
            v = self.den(t.args[0], m)
            if t.func.name == 'abs':
                return abs(v)
            if t.func.name == 'bool':
                return bool(v)
            if t.func.name == 'float':
                return v
            if isinstance(v, bool):
                return Fraction(int(v))
            return Fraction(int(v))  # int() truncates toward zero
        if self.expr_term(t):
            if t in self.kind:
                return self.structural(t, m)
            if t == self.param:
                return self.apply_input(m)
            v = self.free(t)
            if m is None:
                return Fraction(1)
            return m[v]
        raise Unknown(str(t0)[:80])

    def structural(self, t: Term, m):
        k = self.kind[t]
        if k[0] == 'const':
            return k[1]
        if k[0] == 'lit':
            v = self.free(t)
            return Fraction(1) if m is None else m[v]
        if k[0] == 'range':
            fl = [self.free(Attr(t, 'exclude_min')), self.free(Attr(t, 'exclude_max'))]
            return ('range', self.den(Attr(t, 'min_value'), m), self.den(Attr(t, 'max_value'), m),
                    False if m is None else bool(m[fl[0]]), False if m is None else bool(m[fl[1]]))
        if k[0] == 'bin-set':
            raise Unknown('operator of a sub-expression is one of several')
        if k[0] == 'bin':
            return BIN[k[1]](self.den(Attr(t, 'operand1'), m), self.den(Attr(t, 'operand2'), m))
        return UN[k[1]](self.den(Attr(t, 'operand1'), m))

    def apply_input(self, m):
        if self.token is None:
            raise Unknown('operator of the input is not fixed on this path')
        if self.arity == 2:
            if self.token not in BIN:
                raise Unknown(self.token)
            return BIN[self.token](self.den(Attr(self.param, 'operand1'), m), self.den(Attr(self.param, 'operand2'), m))
        if self.token not in UN:
            raise Unknown(self.token)
        return UN[self.token](self.den(Attr(self.param, 'operand1'), m))

    def operator_token(self, op: Term, arity: int) -> str:
        if isinstance(op, EnumMember):
            tok = (self.bin_tok if arity == 2 else self.un_tok).get(op.name)
            if tok is not None:
                return tok
        if isinstance(op, Const) and isinstance(op.value, str):
            return op.value
        if canon(op) == Attr(self.param, 'operator') and self.token is not None:
            return self.token
        if isinstance(op, Attr) and op.name == 'operator' and self.kind.get(canon(op.base), ('',))[0] in ('bin', 'un'):
            return self.kind[canon(op.base)][1]
        # the mirror operator: INVERSE_OPERATORS.get(x) / [x] / inverse_operator(x) (a raise when there is none)
        if isinstance(op, Ite):
            for g_, leaf in alternatives(op):
                if not any(type(y).__name__ == 'Raises' for y in walk(leaf)):
                    return self.operator_token(leaf, arity)
        inner = None
        if isinstance(op, Call) and getattr(op.func, 'name', None) == 'get' and op.args and 'INVERSE_OPERATORS' in repr(op.func):
            inner = op.args[0]
        elif type(op).__name__ == 'Sub' and 'INVERSE_OPERATORS' in repr(op.base):
            inner = op.index
        elif _fkey(op) == 'hpl.rewrite:inverse_operator' and op.args:
            inner = op.args[0]
        if inner is not None:
            from .rules_tables import inverse_table
            tab, _ = inverse_table(self.ctx)
            t0 = self.operator_token(inner, arity)
            if t0 not in tab:
                raise Undefined()
            return tab[t0]
        raise Unknown(f'operator {op!r}')

    # ------------------------------------------------------------ constraints
    def holds(self, g: Term, m) -> bool:
        """truth of a guard in the model; Unknown when it is not a statement about denotations"""
        if isinstance(g, Op) and g.op == 'not' and len(g.args) == 1:
            return not self.holds(g.args[0], m)
        if isinstance(g, Op) and g.op in ('and', 'or'):
            vs = [self.holds(a, m) for a in g.args]
            return all(vs) if g.op == 'and' else any(vs)
        if isinstance(g, Op) and g.op in ('is', 'is not', '==', '!=') and len(g.args) == 2 and g.args[1] == Const(None) and 'INVERSE_OPERATORS' in repr(g.args[0]):
            # does the operator have a mirror in the inverse table?
            try:
                self.operator_token(g.args[0], 2)
                has = True
            except Undefined:
                has = False
            return (not has) if g.op in ('is', '==') else has
        if isinstance(g, Op) and g.op in ('==', '!=', '<', '<=', '>', '>=', 'is', 'is not') and len(g.args) == 2:
            a, b = g.args
            if self.expr_term(a) and self.expr_term(b):
                if g.op != '==':
                    raise Unknown(repr(g))
                # structural equality of two expressions: handled by the caller (implication only)
                raise Unknown('structural-eq')
            return BIN[PY_BIN[g.op]](self.den(a, m), self.den(b, m))
        if isinstance(g, Op) and g.op in ('in', 'not in') and len(g.args) == 2:
            from .terms import TupleT
            if isinstance(g.args[1], TupleT):
                v = self.den(g.args[0], m)
                r = any(v == self.den(x, m) for x in g.args[1].items)
                return r if g.op == 'in' else not r
        raise Unknown(str(g)[:80])

    def satisfied(self, m) -> Optional[bool]:
        """do the guards of the step hold in the model (None: a guard could not be read)"""
        for t in self.ih_links:
            try:
                if t in self.kind and self.structural(t, m) != self.den(t.args[0], m):
                    return False
            except Undefined:
                return False
        for g, pol in self.constraints:
            try:
                k = _fkey(g)
                if isinstance(g, Op) and g.op == '==' and len(g.args) == 2 and self.expr_term(g.args[0]) and self.expr_term(g.args[1]):
                    if pol and self.den(g.args[0], m) != self.den(g.args[1], m):
                        return False
                    continue
                if k == 'hpl.rewrite:_obvious_negatives' and len(g.args) == 2:
                    if pol and self.den(g.args[0], m) != -self.den(g.args[1], m):
                        return False
                    continue
                if k == 'hpl.rewrite:_obviously_different' and len(g.args) == 2:
                    if pol and self.den(g.args[0], m) == self.den(g.args[1], m):
                        return False
                    continue
                if k in ('hpl.rewrite:is_true', 'hpl.rewrite:is_false') and len(g.args) == 1:
                    want = k.endswith('is_true')
                    v = self.den(g.args[0], m)
                    if pol and v is not want:
                        return False
                    continue
                if bool(self.holds(g, m)) != pol:
                    return False
            except Undefined:
                return False
        return True

    def readable(self) -> List[str]:
        """guards that cannot be read as statements about denotations (the step is then left undecided)"""
        bad = []
        for t in self.ih_links:
            self.collect_vars(t)
            self.collect_vars(t.args[0])
        for g, pol in self.constraints:
            try:
                k = _fkey(g)
                if isinstance(g, Op) and g.op == '==' and len(g.args) == 2 and self.expr_term(g.args[0]) and self.expr_term(g.args[1]):
                    self.collect_vars(g.args[0]); self.collect_vars(g.args[1])
                    continue
                if k in ('hpl.rewrite:_obvious_negatives', 'hpl.rewrite:_obviously_different', 'hpl.rewrite:is_true', 'hpl.rewrite:is_false'):
                    for a in g.args:
                        self.collect_vars(a)
                    continue
                self.holds(g, None)
            except Undefined:
                pass
            except Unknown as e:
                bad.append(str(e) or str(g)[:60])
        return bad


def kind_tokens(ctx: Ctx) -> Dict[str, str]:
    """is_plus -> '+', is_not -> 'not', ...: the kind properties of the operator definition classes that test one token"""
    def build():
        out: Dict[str, str] = {}
        clash: Set[str] = set()
        for cname in ('UnaryOperatorDefinition', 'BinaryOperatorDefinition'):
            c = ctx.model.cls(cname, 'R7')
            self_t = Sym('self', cname)
            for name, fi in c.methods.items():
                if fi.kind != 'property' or not name.startswith('is_'):
                    continue
                outs = ctx.ev.run(fi, {'self': self_t})
                if len(outs) == 1 and outs[0].kind == 'return':
                    v = outs[0].value
                    if isinstance(v, Op) and v.op == '==' and v.args[0] == Attr(self_t, 'token') and isinstance(v.args[1], Const):
                        if name in out and out[name] != v.args[1].value:
                            clash.add(name)   # is_minus: '-' in both classes, same token: no clash
                        out[name] = v.args[1].value
        for n in clash:
            out.pop(n, None)
        return out
    return ctx.memo('R7.kind_tokens', build)


def kind_token_sets(ctx: Ctx) -> Dict[str, frozenset]:
    """is_comparison -> {'=', '!=', '<', ...}: every kind property of the operator definition classes as the set of tokens
    it accepts"""
    def build():
        out: Dict[str, frozenset] = {}
        for cname in ('UnaryOperatorDefinition', 'BinaryOperatorDefinition'):
            c = ctx.model.cls(cname, 'R7')
            self_t = Sym('self', cname)
            tok = Attr(self_t, 'token')

            def toks(v) -> Optional[frozenset]:
                if isinstance(v, Op) and v.op == '==' and v.args[0] == tok and isinstance(v.args[1], Const):
                    return frozenset({v.args[1].value})
                if isinstance(v, Op) and v.op == 'in' and v.args[0] == tok and type(v.args[1]).__name__ == 'TupleT' and all(isinstance(x, Const) for x in v.args[1].items):
                    return frozenset(x.value for x in v.args[1].items)
                if isinstance(v, Op) and v.op == 'or':
                    parts = [toks(a) for a in v.args]
                    if all(p_ is not None for p_ in parts):
                        return frozenset().union(*parts)
                return None
            for name, fi in c.methods.items():
                if fi.kind != 'property' or not name.startswith('is_'):
                    continue
                outs = ctx.ev.run(fi, {'self': self_t})
                if len(outs) == 1 and outs[0].kind == 'return':
                    ts = toks(outs[0].value)
                    if ts is not None:
                        out[name] = (out[name] | ts) if name in out else ts
        return out
    return ctx.memo('R7.kind_token_sets', build)


def dispatch_tokens(ctx: Ctx) -> Dict[str, Tuple[Optional[str], int]]:
    """simplifier function -> (operator token it is dispatched for | None, arity), read from the dispatchers"""
    ev = rewrite_eval(ctx)
    out: Dict[str, Tuple[Optional[str], int]] = {}
    for dname, arity in (('_simplify_unary_operator', 1), ('_simplify_binary_operator', 2), ('_simplify_arithmetic', 2)):
        fi = ctx.model.func('hpl.rewrite', dname, 'R7')
        pc = ctx.ev.ann_class(fi.node.args.args[0].annotation, fi.module)
        p = Sym(fi.params()[0], pc.name if pc else None)
        for o in ev.run(fi, {fi.params()[0]: p}):
            if o.kind != 'return':
                continue
            for g2, leaf in alternatives(o.value):
                k = _fkey(leaf)
                if k is None or not k.startswith('hpl.rewrite:_simplify') or len(leaf.args) != 1:
                    continue
                name = k.split(':')[1]
                toks = [t.args[1].value for t, pol in norm_guards(tuple(o.guards) + tuple(g2)) if pol and isinstance(t, Op) and t.op == '==' and len(t.args) == 2
                        and isinstance(t.args[0], Attr) and t.args[0].name == 'token' and isinstance(t.args[1], Const)]
                if name in out and out[name][0] is not None and toks and out[name][0] != toks[-1]:
                    out[name] = (None, arity)
                elif name not in out or out[name][0] is None:
                    out[name] = (toks[-1] if toks else None, arity)
    return out


def _check_step(r: RuleResult, sc: 'Schema', name: str, fi: FunctionInfo, o: Outcome, gtxt: str, param: Term, undecided: List[str], stats: Dict[str, int]):
    key = f'{name}: [{gtxt[-110:]}] => {str(o.value)[:70]}'
    if canon(o.value) == param:
        stats['decided'] += 1
        return
    bad = sc.readable()
    try:
        sc.den(o.value, None)
        sc.apply_input(None)
    except Undefined:
        pass
    except Unknown as e:
        undecided.append(f'{name}: [{gtxt[-80:]}] output {str(o.value)[:50]}: {e}')
        return
    if bad:
        undecided.append(f'{name}: [{gtxt[-80:]}] guard not readable: {bad[0]}')
        return
    boolean = sc.token in BOOL_TOKENS
    vs = list(sc.vars)
    if len(vs) > 5:
        undecided.append(f'{name}: [{gtxt[-80:]}] too many free operands ({len(vs)})')
        return
    counter = None
    checked = 0
    def domain(v: Term):
        if isinstance(v, Attr) and v.name in ('exclude_min', 'exclude_max'):
            return BOOLS
        if isinstance(v, Attr) and v.name in ('min_value', 'max_value'):
            return NUMS
        if sc.token == 'in':
            return NUMS
        # operands of a comparison / arithmetic sub-expression are numbers whatever the function is about
        if isinstance(v, Attr) and v.name in ('operand1', 'operand2'):
            k = sc.kind.get(v.base)
            if k is not None and k[0] in ('bin', 'un') and (k[1] in CMP_TOKENS or k[1] in ARITH_TOKENS or (k[0] == 'un' and k[1] == '-')):
                return NUMS
            if k is not None and k[0] in ('bin', 'un') and k[1] in BOOL_TOKENS:
                return BOOLS
            if v.base == param and sc.token is not None:
                return BOOLS if sc.token in BOOL_TOKENS else NUMS
        return BOOLS if boolean else NUMS
    for choice in itertools.product(*[domain(v) for v in vs]):
        m = dict(zip(vs, choice))
        if not sc.satisfied(m):
            continue
        try:
            want = sc.apply_input(m)
        except Undefined:
            continue
        checked += 1
        try:
            got = sc.den(o.value, m)
        except Undefined:
            counter = (m, want, 'undefined')
            break
        if (bool(got) != bool(want)) if isinstance(want, bool) or isinstance(got, bool) else (got != want):
            counter = (m, want, got)
            break
    stats['models'] += checked
    stats['decided'] += 1
    if counter is not None:
        m, want, got = counter
        ms = ', '.join(f'{str(k)[1:] if str(k).startswith("$") else k}={v}' for k, v in m.items())
        r.fail(key, f'the step changes the value: with {ms} the input `{sc.token}` denotes {want} but the result denotes {got}', f'{fi.module.relpath}:{o.lineno}', str(want), str(got))
    elif checked == 0:
        undecided.append(f'{name}: [{gtxt[-80:]}] no assignment of the model satisfies the guards')
    else:
        r.ok(f'{name}: [{gtxt[-60:]}] => {str(o.value)[:40]} ({checked} assignments)')


def R7(ctx: Ctx) -> RuleResult:
    r = RuleResult('R7', 'local identities of the simplifier: every guarded rewrite step of the leaf simplification functions denotes the same value as its input in every assignment of a finite model (numbers -2..2 and 1/2, truth values) that satisfies its guards')
    ev = rewrite_eval(ctx)
    disp = dispatch_tokens(ctx)
    units = {n: v for n, v in disp.items() if n not in ('_simplify_arithmetic', '_simplify_binary_operator', '_simplify_unary_operator')}
    if len(units) < 8:
        raise AnalysisError('R7', f'only {len(units)} leaf simplifier functions found through the dispatchers: {sorted(units)}')
    n_steps = 0
    stats = {'decided': 0, 'models': 0}
    undecided: List[str] = []
    for name, (tok, arity) in sorted(units.items()):
        fi = ctx.model.func('hpl.rewrite', name, 'R7')
        pc = ctx.ev.ann_class(fi.node.args.args[0].annotation, fi.module)
        param = Sym(fi.params()[0], pc.name if pc else None)
        try:
            outs = expand_outcomes(ev.run(fi, {fi.params()[0]: param}))
        except AnalysisError:
            undecided.append(f'{name}: not evaluable')
            continue
        for o in outs:
            if o.kind != 'return':
                continue
            n_steps += 1
            sc0 = Schema(ctx, param, tok, arity, o)
            sets = [(x, sorted(k[1] - sc0.nottok.get(x, set()))) for x, k in sc0.kind.items() if k[0] == 'bin-set']
            combos = list(itertools.product(*[ts for _, ts in sets])) if sets else [()]
            gtxt = guards_repr(norm_guards(o.guards))
            for combo in combos[:16]:
                sc = Schema(ctx, param, tok, arity, o)
                for (x, _), t_ in zip(sets, combo):
                    sc.kind[x] = ('bin', t_)
                _check_step(r, sc, name, fi, o, gtxt + (f' {{{",".join(combo)}}}' if combo else ''), param, undecided, stats)
            continue
    r.counts['leaf simplifier functions'] = len(units)
    r.counts['assignments checked'] = stats['models']
    r.counts['steps undecided'] = len(undecided)
    r.notes.extend(undecided[:40])
    r.floor('rewrite steps', n_steps, 55)
    r.floor('steps decided', stats['decided'], 50)
    return r


RULES = {'R7': R7}

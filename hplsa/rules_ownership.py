"""E9 mutation and ownership rules M1-M6."""
from __future__ import annotations

import ast
from typing import Dict, List, Optional, Set, Tuple

from .ctx import Ctx
from .model import AnalysisError, ClassInfo, FunctionInfo, ModuleInfo
from .report import RuleResult
from .terms import (Attr, BoundMethod, Call, ClassRef, Comp, Const, Evaluator, Ext, Ite, Loop, New, Op, Outcome, Store, Sub, Sym, Term,
                    _State, alternatives, guards_repr, norm_guards, walk)
from .util import all_terms, call_name, call_recv, method_calls, outcome_terms


def _functions_with_nodes(ctx: Ctx):
    for fi in ctx.model.all_functions():
        yield fi


def _enclosing(ctx: Ctx, mod: ModuleInfo, node: ast.AST) -> Optional[FunctionInfo]:
    best = None
    for fi in ctx.model.all_functions():
        if fi.module is mod and fi.node.lineno <= node.lineno <= (fi.node.end_lineno or fi.node.lineno):
            if best is None or fi.node.lineno >= best.node.lineno:
                best = fi
    return best


def M1(ctx: Ctx) -> RuleResult:
    r = RuleResult('M1', 'who may write: object.__setattr__ only on self in __attrs_post_init__, or on the validated child in _type_check under force; forcing only from field validators at fixed parameter types')
    n_sites = 0
    for mod in ctx.model.modules.values():
        for node in ast.walk(mod.tree):
            if isinstance(node, ast.Call):
                fsrc = ast.unparse(node.func)
                if fsrc in ('object.__setattr__', 'setattr', 'object.__delattr__', 'delattr', 'super().__setattr__'):
                    n_sites += 1
                    fi = _enclosing(ctx, mod, node)
                    where = f'{mod.relpath}:{node.lineno}'
                    fname = fi.qualname if fi else '<module>'
                    tgt = ast.unparse(node.args[0]) if node.args else '?'
                    attr = ast.unparse(node.args[1]) if len(node.args) > 1 else '?'
                    key = f'{fname}:setattr({tgt},{attr})'
                    if fi is not None and fi.name == '__attrs_post_init__' and fi.cls is not None and tgt == 'self' and fsrc == 'object.__setattr__':
                        r.ok(f'{fname}: object.__setattr__(self, {attr}) during construction')
                    elif fi is not None and fi.cls is not None and fi.cls.name == 'HplExpression' and fi.name.startswith('_') and fsrc == 'object.__setattr__' and attr == "'data_type'":
                        # the narrowing primitive: who reaches it, and for which value, is decided by the forcing-site analysis below
                        params = fi.params()
                        if tgt in params[1:]:
                            r.ok(f'{fname}: narrows the checked child (reached only as the forcing-site analysis allows)')
                        else:
                            r.fail(key, f'{fi.name} writes to {tgt}, not to the expression being checked', where)
                    else:
                        r.fail(key, f'{fsrc}({tgt}, {attr}, ...) outside the two sanctioned sites: an existing AST object is modified', where)
            if isinstance(node, (ast.Assign, ast.AugAssign, ast.AnnAssign, ast.Delete)):
                targets = node.targets if isinstance(node, (ast.Assign, ast.Delete)) else [node.target]
                for t in targets:
                    for x in ast.walk(t):
                        if isinstance(x, ast.Attribute) and x.attr in ('__dict__', '__class__', '__slots__') and isinstance(x.ctx, (ast.Store, ast.Del)):
                            r.fail(f'{mod.name}:{x.attr}-store', f'assignment to {ast.unparse(x)}', f'{mod.relpath}:{node.lineno}')
            if isinstance(node, ast.Attribute) and node.attr == '__dict__':
                par = _enclosing(ctx, mod, node)
                r.fail(f'{par.qualname if par else mod.name}:__dict__', 'direct __dict__ access bypasses frozen attrs classes', f'{mod.relpath}:{node.lineno}')
    r.floor('setattr sites', n_sites, 5)
    n_force = _forcing_sites(ctx, r)
    r.floor('forcing sites', n_force, 4)
    return r


class _Unit:
    """a function body analysed for in-place narrowing: a method, a module function, or a closure nested in one"""

    def __init__(self, fi: FunctionInfo, node: ast.AST, outer: Optional['_Unit'] = None):
        self.fi, self.node, self.outer = fi, node, outer
        a = node.args
        self.params = [x.arg for x in a.posonlyargs + a.args]
        self.kwonly = [x.arg for x in a.kwonlyargs]
        self.is_method = outer is None and fi.cls is not None and fi.kind not in ('staticmethod',)
        self.writes: Dict[str, object] = {}   # parameter -> 'always' | ('flag', name)

    @property
    def name(self) -> str:
        return self.node.name

    def value_params(self) -> List[str]:
        ps = list(self.params)
        if (self.is_method or (self.outer is not None and ps and ps[0] == 'self')) and ps:
            ps = ps[1:]
        return ps

    def default_of(self, pname: str) -> Optional[ast.expr]:
        a = self.node.args
        pos = a.posonlyargs + a.args
        for x, d in zip(pos[len(pos) - len(a.defaults):], a.defaults):
            if x.arg == pname:
                return d
        for x, d in zip(a.kwonlyargs, a.kw_defaults):
            if x.arg == pname:
                return d
        return None

    def free_flags(self) -> List[str]:
        return (self.outer.params + self.outer.kwonly) if self.outer is not None else []

    def own_nodes(self):
        """nodes of this body, not those of nested function definitions"""
        todo = [n for n in self.node.body if not isinstance(n, (ast.FunctionDef, ast.AsyncFunctionDef))]
        while todo:
            n = todo.pop()
            yield n
            for ch in ast.iter_child_nodes(n):
                if not isinstance(ch, (ast.FunctionDef, ast.AsyncFunctionDef, ast.Lambda)):
                    todo.append(ch)


def _site_cond(u: _Unit, target: ast.AST):
    """'always', or ('flag', name) when the node sits in the body of `if <flag parameter>:`"""
    flags = set(u.params + u.kwonly + u.free_flags())
    for node in u.own_nodes():
        if not isinstance(node, ast.If) or not any(target is x for b in node.body for x in ast.walk(b)):
            continue
        # `if flag:` or `if flag and <something else>:` (a conjunction can only narrow the cases further)
        tests = [node.test] + (list(node.test.values) if isinstance(node.test, ast.BoolOp) and isinstance(node.test.op, ast.And) else [])
        for t in tests:
            if isinstance(t, ast.Name) and t.id in flags:
                return ('flag', t.id)
            if isinstance(t, ast.Attribute) and isinstance(t.value, ast.Name) and t.value.id == 'self' and u.is_method:
                return ('flag', 'self.' + t.attr)
    return 'always'


def _forcing_sites(ctx: Ctx, r: RuleResult) -> int:
    """In-place narrowing (object.__setattr__(<parameter>, 'data_type', ...)) is followed through helper calls to the
    sites that decide to narrow: those must be attrs field validators narrowing the value they validate to a fixed
    parameter type, or field declarations using the validator factory with a constant type."""
    units: List[_Unit] = []
    for fi in ctx.model.all_functions():
        u = _Unit(fi, fi.node)
        units.append(u)
        for n in ast.walk(fi.node):
            if isinstance(n, ast.FunctionDef) and n is not fi.node:
                units.append(_Unit(fi, n, u))
    by_name: Dict[str, List[_Unit]] = {}
    for u in units:
        by_name.setdefault(u.name, []).append(u)
    # primitive writes
    for u in units:
        for n in u.own_nodes():
            if isinstance(n, ast.Call) and ast.unparse(n.func) in ('object.__setattr__', 'setattr') and len(n.args) >= 2 and ast.unparse(n.args[1]) == "'data_type'":
                tgt = n.args[0]
                if isinstance(tgt, ast.Name) and tgt.id in u.value_params():
                    u.writes[tgt.id] = _merge(u.writes.get(tgt.id), _site_cond(u, n))

    def bind(call: ast.Call, g: _Unit) -> Dict[str, ast.expr]:
        ps = g.value_params() if isinstance(call.func, ast.Attribute) or g.outer is not None or not g.is_method else g.params
        m: Dict[str, ast.expr] = {}
        for pname, a in zip(ps, call.args):
            m[pname] = a
        for kw in call.keywords:
            if kw.arg:
                m[kw.arg] = kw.value
        return m

    def callee_units(call: ast.Call) -> List[_Unit]:
        f = call.func
        nm = f.attr if isinstance(f, ast.Attribute) else f.id if isinstance(f, ast.Name) else None
        return [g for g in by_name.get(nm, []) if g.outer is None] if nm else []

    def effective(u: _Unit, call: ast.Call, g: _Unit, q: str, args: Dict[str, ast.expr]):
        """condition under which this call writes through g's parameter q; None when it cannot"""
        cq = g.writes[q]
        sc = _site_cond(u, call)
        if cq == 'always':
            return sc
        fa = args.get(cq[1])
        if fa is None and not cq[1].startswith('self.'):
            fa = g.default_of(cq[1])    # the flag is left to its default
        if fa is None or (isinstance(fa, ast.Constant) and not fa.value):
            return None
        if isinstance(fa, ast.Constant):
            return sc
        if isinstance(fa, ast.Name) and fa.id in u.params + u.kwonly + u.free_flags():
            return ('flag', fa.id)
        if isinstance(fa, ast.Attribute) and isinstance(fa.value, ast.Name) and fa.value.id == 'self' and u.is_method:
            return ('flag', 'self.' + fa.attr)   # a flag stored on the (validator) object
        return sc
    changed = True
    rounds = 0
    while changed and rounds < 10:
        changed = False
        rounds += 1
        for u in units:
            for n in u.own_nodes():
                if not isinstance(n, ast.Call):
                    continue
                for g in callee_units(n):
                    if not g.writes or g is u:
                        continue
                    args = bind(n, g)
                    for q in list(g.writes):
                        a = args.get(q)
                        if isinstance(a, ast.Name) and a.id in u.value_params():
                            eff = effective(u, n, g, q, args)
                            if eff is None:
                                continue
                            new = _merge(u.writes.get(a.id), eff)
                            if u.writes.get(a.id) != new:
                                u.writes[a.id] = new
                                changed = True
    # factories: a closure that narrows its own argument under a flag of the enclosing function; a class whose
    # instances are callable validators narrowing under a flag stored on the instance; functions that return such
    factories: Dict[str, Tuple[List[str], str]] = {}   # name -> (parameter names in call order, flag parameter | '')
    for u in units:
        if u.outer is not None and u.writes:
            for pname, cond in u.writes.items():
                if isinstance(cond, tuple) and cond[1] in u.free_flags():
                    factories[u.outer.name] = (u.outer.params + u.outer.kwonly, cond[1])
                elif cond == 'always':
                    factories[u.outer.name] = (u.outer.params + u.outer.kwonly, '')
        if u.outer is None and u.name == '__call__' and u.fi.cls is not None and u.writes:
            flds = [f.name for f in u.fi.cls.fields() if f.init]
            for pname, cond in u.writes.items():
                if isinstance(cond, tuple) and cond[1].startswith('self.') and cond[1][5:] in flds:
                    factories[u.fi.cls.name] = (flds, cond[1][5:])
                elif cond == 'always':
                    factories[u.fi.cls.name] = (flds, '')
    grew = True
    while grew:
        grew = False
        for u in units:
            if u.outer is not None or u.name in factories or u.fi.cls is not None:
                continue
            for n in u.own_nodes():
                if isinstance(n, ast.Return) and isinstance(n.value, ast.Call) and isinstance(n.value.func, ast.Name) and n.value.func.id in factories:
                    fparams, fflag = factories[n.value.func.id]
                    kw = {k.arg: k.value for k in n.value.keywords if k.arg}
                    pos = dict(zip(fparams, n.value.args))
                    fa = kw.get(fflag, pos.get(fflag)) if fflag else ast.Constant(True)
                    if isinstance(fa, ast.Name) and fa.id in u.params + u.kwonly:
                        factories[u.name] = (u.params + u.kwonly, fa.id)
                        grew = True
                    elif isinstance(fa, ast.Constant) and fa.value:
                        factories[u.name] = (u.params + u.kwonly, '')
                        grew = True
    n_force = 0

    def is_validator(u: _Unit) -> bool:
        return u.outer is None and u.fi.cls is not None and any(u.name in v for v in u.fi.cls.validators.values())

    def fixed_type(src: str) -> bool:
        return src.startswith('DataType.') or src.startswith('self.operator.parameter')
    for u in units:
        where_u = u.fi.qualname + ('.' + u.name if u.outer is not None else '')
        for n in u.own_nodes():
            if not isinstance(n, ast.Call):
                continue
            for g in callee_units(n):
                if not g.writes or g is u:
                    continue
                args = bind(n, g)
                for q in g.writes:
                    eff = effective(u, n, g, q, args)
                    if eff is None:
                        continue
                    a = args.get(q)
                    where = f'{u.fi.module.relpath}:{n.lineno}'
                    asrc = ast.unparse(a) if a is not None else '?'
                    others = [ast.unparse(v) for k, v in args.items() if k != q and not (isinstance(g.writes[q], tuple) and k == g.writes[q][1])]
                    ty = others[0] if others else '?'
                    n_force += 1
                    if u.outer is not None and isinstance(a, ast.Name) and a.id in u.value_params():
                        r.ok(f'{where_u}: validator closure narrows its own argument ({eff if eff != "always" else "always"})')
                    elif is_validator(u):
                        val = u.params[2] if len(u.params) > 2 else None
                        if asrc != val:
                            r.fail(f'{where_u}:force', f'forces {asrc}, which is not the value being validated ({val})', where)
                        elif not fixed_type(ty):
                            r.fail(f'{where_u}:force', f'forces the child to {ty}, which is not a fixed parameter type (another node\'s type would narrow caller-owned nodes)', where)
                        else:
                            r.ok(f'{where_u}: forces its own argument to a fixed parameter type')
                    elif u.name == '__call__' and u.fi.cls is not None and u.fi.cls.name in factories and isinstance(a, ast.Name) and a.id in u.value_params():
                        r.ok(f'{where_u}: validator object narrows its own argument ({eff})')
                    elif isinstance(a, ast.Name) and a.id in u.value_params():
                        if u.name.startswith('_') and not (u.name.startswith('__') and u.name.endswith('__')):
                            r.ok(f'{where_u}: passes its own parameter on to {g.name} (private helper, condition {eff})')
                        else:
                            r.fail(f'{where_u}:force', f'the public method {u.name} narrows its argument {asrc} in place: any caller can modify an already constructed (possibly shared) node', where)
                    else:
                        r.fail(f'{where_u}:force', 'force=True outside an attrs field validator: narrows an already constructed (possibly shared) child in place', where)
    # uses of the validator factories
    for mod in ctx.model.modules.values():
        for node in ast.walk(mod.tree):
            if isinstance(node, ast.Call) and isinstance(node.func, ast.Name) and node.func.id in factories:
                fparams, flag = factories[node.func.id]
                kw = {k.arg: k.value for k in node.keywords if k.arg}
                pos = dict(zip(fparams, node.args))
                fa = kw.get(flag, pos.get(flag)) if flag else ast.Constant(True)
                if fa is None or (isinstance(fa, ast.Constant) and not fa.value):
                    continue
                encl = _enclosing(ctx, mod, node)
                if encl is not None and encl.name in factories and isinstance(fa, ast.Name):
                    n_force += 1
                    r.ok(f'{encl.qualname}: passes its {fa.id} parameter on to {node.func.id} (validator factory)')
                    continue
                n_force += 1
                fi = _enclosing(ctx, mod, node)
                where = f'{mod.relpath}:{node.lineno}'
                ty = ast.unparse(node.args[0]) if node.args else '?'
                fname = fi.qualname if fi else '<class body>'
                if fi is None and isinstance(fa, ast.Constant) and (node.args and _fixed_type_arg(ctx, mod, node.args[0]) or _validator_forces_fixed_type(ctx, mod, node)):
                    r.ok(f'{node.func.id}({ty}, {flag}=True) as a field validator')
                else:
                    r.fail(f'{fname}:{node.func.id}', f'{node.func.id}(force) used outside a field declaration or with a non-constant type {ty}', where)
    return n_force


def _validator_forces_fixed_type(ctx: Ctx, mod, node: ast.Call) -> bool:
    """the validator object this call builds, applied to (owner, attribute, value), narrows exactly `value`, to a constant
    DataType or to a parameter type of the owner's own operator"""
    from .terms import Lam, New as TNew, _State, Attr as TAttr, EnumMember
    from .util import method_calls as mcalls
    vt = ctx.ev.expr(node, _State(), mod, None, 0)
    if not isinstance(vt, (Lam, TNew)):
        return False
    owner, val = Sym('owner', 'HplExpression'), Sym('value')
    st = _State()
    ctx.ev.apply(vt, (owner, Sym('attribute'), val), (), st, 0)
    calls = [c for c in mcalls(list(st.effects) + list(st.trace), '_type_check') if call_recv(c) == owner]
    if not calls:
        return False
    for c in calls:
        if len(c.args) < 2 or c.args[0] != val:
            return False
        t = c.args[1]
        fixed = isinstance(t, EnumMember) or (isinstance(t, Op) and t.op in ('|', '&')) or \
            (isinstance(t, TAttr) and t.name.startswith('parameter') and t.base == TAttr(owner, 'operator'))
        if not fixed:
            return False
    return True


def _fixed_type_arg(ctx: Ctx, mod, node: ast.expr) -> bool:
    """the type handed to the validator factory is a constant DataType, or a function of the node under validation
    that reads the parameter type of its own operator (attrgetter('operator.parameter1'), lambda s: s.operator.parameter)"""
    src = ast.unparse(node)
    if src.startswith('DataType.'):
        return True
    from .terms import Lam, _State, Attr as TAttr
    t = ctx.ev.expr(node, _State(), mod, None, 0)
    if isinstance(t, Lam) or (isinstance(t, Call) and isinstance(t.func, Ext) and t.func.name.split('.')[-1] == 'attrgetter'):
        owner = Sym('owner')
        res = ctx.ev.apply(t, (owner,), (), _State(), 0)
        return isinstance(res, TAttr) and res.name.startswith('parameter') and res.base == TAttr(owner, 'operator')
    return False


def _merge(old, new):
    if old is None or old == new:
        return new
    return 'always'


def _under_if(fn: ast.AST, target: ast.AST, name: str) -> bool:
    for node in ast.walk(fn):
        if isinstance(node, ast.If) and isinstance(node.test, ast.Name) and node.test.id == name:
            if any(target is x for b in node.body for x in ast.walk(b)):
                return True
    return False


def M3(ctx: Ctx) -> RuleResult:
    r = RuleResult('M3', 'but(): identity shortcut only when every value is identical; otherwise evolve() (validators re-run) with the metadata copied, never shared')
    root = ctx.model.ast_root()
    fi = root.methods.get('but')
    if fi is None:
        raise AnalysisError('M3', 'HplAstObject.but not found')
    for c in ctx.model.ast_classes():
        if c is not root and 'but' in c.methods:
            r.fail(f'{c.name}.but', 'but() overridden in a subclass', c.methods['but'].where)
    self_t = Sym('self', 'HplAstObject')
    outs = ctx.ev.run(fi, {'self': self_t})
    saw_identity = saw_evolve = False
    for o in outs:
        gs = norm_guards(o.guards)
        desc = f'[{guards_repr(gs)[:100]}] {o.kind} {str(o.value)[:60]}'
        if o.kind != 'return':
            r.fail('HplAstObject.but:path', f'path does not return: {desc}', fi.where)
            continue
        if o.value == self_t:
            # identity shortcut: must come from a completed loop whose body breaks on `is not`
            ok = False
            for t, pol in gs:
                if isinstance(t, Op) and t.op == 'loop-completes' and pol:
                    lp = next((e for e in o.effects if isinstance(e, Loop) and e.iter == t.args[0]), None)
                    if lp is not None and any(isinstance(x, Sym) and x.name.startswith('**') for x in walk(lp.iter)):
                        good = bool(lp.paths)
                        for pg, flow, binds, effs in lp.paths:
                            tests = norm_guards(pg)
                            ident = [(tt, pp) for tt, pp in tests if isinstance(tt, Op) and tt.op in ('is', 'is not') and any(isinstance(a, Call) and isinstance(a.func, Ext) and a.func.name == 'getattr' for a in tt.args)]
                            eqs = [(tt, pp) for tt, pp in tests if isinstance(tt, Op) and tt.op in ('==', '!=')]
                            if eqs:
                                r.fail('HplAstObject.but:identity', 'identity shortcut compares with ==/!=: an equal but different value (other metadata / stored types) is silently dropped', fi.where)
                                good = False
                            if flow == 'break' and not any((tt.op == 'is not') == pp for tt, pp in ident):
                                good = False
                            if flow == 'end' and not any((tt.op == 'is') == pp for tt, pp in ident):
                                good = False
                        ok = good
                if isinstance(t, Call) and isinstance(t.func, Ext) and t.func.name == 'all' and pol:
                    ok = True
            if not ok:
                # scan with early exits: `for k, v in kwargs.items(): if getattr(self, k) is not v: return <copy>` ... `return self`
                for lp in [e for e in o.effects if isinstance(e, Loop) and any(isinstance(x, Sym) and x.name.startswith('**') for x in walk(e.iter))]:
                    def ident_of(tests):
                        return [(tt, pp) for tt, pp in tests if isinstance(tt, Op) and tt.op in ('is', 'is not') and any(isinstance(a, Call) and isinstance(a.func, Ext) and a.func.name == 'getattr' for a in tt.args)]
                    good = bool(lp.paths) and not any(flow == 'break' for _, flow, _, _ in lp.paths)
                    for pg, flow, binds, effs in lp.paths:
                        tests = norm_guards(pg)
                        if any(isinstance(tt, Op) and tt.op in ('==', '!=') for tt, _ in tests):
                            r.fail('HplAstObject.but:identity', 'identity shortcut compares with ==/!=: an equal but different value (other metadata / stored types) is silently dropped', fi.where)
                            good = False
                        if flow == 'end' and not any((tt.op == 'is') == pp for tt, pp in ident_of(tests)):
                            good = False
                    for rg, val in lp.returns:
                        if val == self_t or not any((tt.op == 'is not') == pp for tt, pp in ident_of(norm_guards(rg))):
                            good = False
                    if good and lp.returns:
                        ok = True
            if ok:
                saw_identity = True
                r.ok('identity shortcut: every getattr(self, k) is v')
            else:
                r.fail('HplAstObject.but:identity', f'returns self without establishing that every given value is identical to the current one: {desc}', fi.where)
            continue
        v = o.value
        if isinstance(v, Call) and isinstance(v.func, Ext) and v.func.name.endswith('evolve') and v.args and v.args[0] == self_t:
            saw_evolve = True
            shared = False
            copied = False
            for e in o.effects:
                if isinstance(e, Call) and isinstance(e.func, Ext) and e.func.name == 'object.__setattr__' and len(e.args) == 3 and e.args[1] == Const('metadata'):
                    if e.args[2] == Attr(self_t, 'metadata'):
                        shared = True
                if isinstance(e, Store) and isinstance(e.target, Attr) and e.target.name == 'metadata' and e.value == Attr(self_t, 'metadata'):
                    shared = True
                if isinstance(e, Call) and call_name(e) == 'update' and isinstance(call_recv(e), Attr) and call_recv(e).name == 'metadata' and call_recv(e).base == v:
                    copied = True
            if any(k == 'metadata' and val == Attr(self_t, 'metadata') for k, val in v.kwargs):
                shared = True
            meta_given = any(isinstance(t, Op) and 'metadata' in repr(t) and 'is' in t.op for t, pol in gs)
            if shared:
                r.fail('HplAstObject.but:metadata-shared', 'the copy shares the metadata dict of the original (a later update shows on both)', fi.where)
            elif not copied:
                r.fail('HplAstObject.but:metadata-lost', f'the copy does not receive the metadata entries: {desc}', fi.where)
            else:
                r.ok(f'evolve(self, **kwargs) + new.metadata.update(copy) {desc[:60]}')
        elif isinstance(v, (New,)) or (isinstance(v, Call) and isinstance(v.func, ClassRef)):
            r.fail('HplAstObject.but:evolve', 'copy is built without evolve(): fields not mentioned are lost / validators of the concrete class not re-run', fi.where)
        else:
            r.fail('HplAstObject.but:evolve', f'copy is not evolve(self, **kwargs): {desc}', fi.where)
    if not saw_identity:
        r.fail('HplAstObject.but:no-identity', 'no path returns self for unchanged values', fi.where)
    if not saw_evolve:
        r.fail('HplAstObject.but:no-evolve', 'no path builds the copy with evolve()', fi.where)
    return r


M4_READ_ONLY_API = ('but', 'cast', '__str__', '__repr__', 'children', 'iterate', 'reshape', 'type_check_references', 'sanity_check',
                    'external_references', 'contains_reference', 'contains_self_reference', 'contains_definition', 'aliases', 'simple_events',
                    'events', 'negate', 'join', 'replace_self_reference', 'replace_var_reference', 'simplify', 'split_and',
                    'refactor_reference', 'canonical_form', 'replace_this_with_var', 'replace_var_with_this', 'get_conjuncts', 'get_disjuncts')


def M4(ctx: Ctx) -> RuleResult:
    r = RuleResult('M4', '.metadata is mutated only on an object constructed in the same function (followed through helpers that annotate their own argument); none of the read-only API functions is such a helper')
    n = 0

    def fresh(t: Term) -> bool:
        if isinstance(t, Ite):
            return fresh(t.a) and fresh(t.b)
        return isinstance(t, New) or (isinstance(t, Call) and isinstance(t.func, Ext) and t.func.name.endswith('evolve')) or (isinstance(t, Call) and isinstance(t.func, ClassRef))
    writers: Dict[str, Tuple[FunctionInfo, str]] = {}   # function name -> (function, parameter whose metadata it mutates)
    pending: List[Tuple[FunctionInfo, Term, str]] = []
    for fi in ctx.model.all_functions():
        src = ast.unparse(fi.node)
        if '.metadata' not in src:
            continue
        try:
            outs = ctx.ev.run(fi)
        except AnalysisError:
            continue
        seen = set()
        for t in all_terms(outs):
            for x in walk(t):
                tgt = None
                if isinstance(x, Call) and call_name(x) in ('update', 'setdefault', 'pop', 'clear', 'popitem', '__setitem__', '__delitem__') and isinstance(call_recv(x), Attr) and call_recv(x).name == 'metadata':
                    tgt = call_recv(x).base
                if isinstance(x, Store) and isinstance(x.target, Sub) and isinstance(x.target.base, Attr) and x.target.base.name == 'metadata':
                    tgt = x.target.base.base
                if isinstance(x, Store) and isinstance(x.target, Attr) and x.target.name == 'metadata':
                    tgt = x.target.base
                if tgt is None or repr(tgt) in seen:
                    continue
                seen.add(repr(tgt))
                n += 1
                if fresh(tgt):
                    r.ok(f'{fi.qualname}: mutates metadata of its own fresh object {str(tgt)[:50]}')
                elif isinstance(tgt, Sym) and tgt.name in fi.params() and fi.name not in M4_READ_ONLY_API:
                    # an annotating helper: whoever calls it decides whose metadata changes
                    writers[fi.name] = (fi, tgt.name)
                    r.ok(f'{fi.qualname}: annotates its argument {tgt.name} (call sites checked)')
                else:
                    r.fail(f'{fi.qualname}:metadata', f'mutates the metadata of {str(tgt)[:80]}, an object it did not construct', fi.where)
    # call sites of the annotating helpers
    rounds = 0
    checked = set()
    while writers and rounds < 4:
        rounds += 1
        new_writers: Dict[str, Tuple[FunctionInfo, str]] = {}
        for fi in ctx.model.all_functions():
            names = {x.attr if isinstance(x, ast.Attribute) else x.id for n_ in ast.walk(fi.node) if isinstance(n_, ast.Call) for x in [n_.func] if isinstance(x, (ast.Attribute, ast.Name))}
            hit = [w for w in writers if w in names and writers[w][0] is not fi]
            if not hit or (fi.key, tuple(sorted(hit))) in checked:
                continue
            checked.add((fi.key, tuple(sorted(hit))))
            try:
                outs = Evaluator(ctx.model, inline=lambda f, d: f.name not in writers and ctx.ev.inline(f, d)).run(fi)
            except AnalysisError:
                continue
            for o in outs:
                for c in list(o.effects) + list(o.trace) + ([o.value] if o.value is not None else []):
                    for x in walk(c):
                        if isinstance(x, Call) and call_name(x) in hit:
                            wfi, wparam = writers[call_name(x)]
                            ps = wfi.params()
                            if wfi.cls is not None and wfi.kind == 'method' and ps and ps[0] == wparam:
                                arg = call_recv(x)
                            else:
                                idx = ps.index(wparam) - (1 if wfi.cls is not None and wfi.kind == 'method' else 0)
                                arg = x.args[idx] if 0 <= idx < len(x.args) else x.kw(wparam)
                            n += 1
                            if arg is not None and fresh(arg):
                                r.ok(f'{fi.qualname}: {call_name(x)}() on its own fresh object')
                            elif isinstance(arg, Sym) and arg.name in fi.params() and fi.name not in M4_READ_ONLY_API:
                                new_writers[fi.name] = (fi, arg.name)
                            else:
                                r.fail(f'{fi.qualname}:{call_name(x)}', f'{call_name(x)}() changes the metadata of {str(arg)[:80]}, an object {fi.qualname} did not construct', fi.where)
        writers = {k: v for k, v in new_writers.items()}
    r.floor('metadata mutation sites', n, 2)
    return r


def M5(ctx: Ctx) -> RuleResult:
    r = RuleResult('M5', 'HplExpression.cast returns self (type unchanged) or self.but(data_type=narrowed); never writes')
    ex = ctx.model.cls('HplExpression', 'M5')
    fi = ex.methods.get('cast')
    if fi is None:
        raise AnalysisError('M5', 'HplExpression.cast not found')
    for c in ctx.model.subclasses(ex, strict=True):
        if 'cast' in c.methods:
            r.fail(f'{c.name}.cast', 'cast overridden in a subclass', c.methods['cast'].where)
    self_t = Sym('self', 'HplExpression')
    t = Sym('t')
    outs = ctx.ev.run(fi, {'self': self_t, 't': t})
    saw_self = saw_copy = False
    for o in outs:
        for e in o.effects:
            for x in walk(e):
                if isinstance(x, Call) and isinstance(x.func, Ext) and 'setattr' in x.func.name:
                    r.fail('HplExpression.cast:write', 'cast() writes to an object (narrowing in place)', fi.where)
                if isinstance(x, Call) and call_name(x) == '_type_check' and x.kw('force') == Const(True):
                    r.fail('HplExpression.cast:force', 'cast() narrows in place through _type_check(force=True)', fi.where)
        if o.kind == 'raise':
            r.ok(f'raises {str(o.value)[:40]}')
            continue
        if o.kind != 'return':
            r.fail('HplExpression.cast:path', f'path does not return: {o}', fi.where)
            continue
        v = o.value
        if v == self_t:
            # guard must be: narrowed == self.data_type
            gs = norm_guards(o.guards)
            ok = any(pol and isinstance(g, Op) and g.op in ('==', 'is') and Attr(self_t, 'data_type') in g.args for g, pol in gs)
            if ok:
                saw_self = True
                r.ok('returns self when the narrowed type equals the current type')
            else:
                r.fail('HplExpression.cast:self', f'returns self on a path that did not establish that the type is unchanged: [{guards_repr(gs)[:120]}]', fi.where)
        elif isinstance(v, Call) and call_name(v) == 'but' and call_recv(v) == self_t and [k for k, _ in v.kwargs] == ['data_type']:
            saw_copy = True
            nt = v.kwargs[0][1]
            if not any(isinstance(x, Op) and x.op == '&' and set(x.args) == {Attr(self_t, 'data_type'), t} for x in walk(nt)):
                r.fail('HplExpression.cast:type', f'the copy does not carry the intersection of the current type and t: {str(nt)[:120]}', fi.where)
            else:
                r.ok('returns self.but(data_type=self.data_type & t)')
        else:
            r.fail('HplExpression.cast:return', f'returns {str(v)[:100]}: neither self nor self.but(data_type=...)', fi.where)
    if not saw_self or not saw_copy:
        r.fail('HplExpression.cast:shape', f'expected both a "return self" and a "return self.but(data_type=...)" path (self={saw_self}, copy={saw_copy})', fi.where)
    return r


_RAW = ('copy.copy', 'copy.deepcopy', 'deepcopy', 'copy', 'object.__new__', '__new__', 'object.__setattr__', 'setattr', 'evolve', 'attrs.evolve')


def M6(ctx: Ctx, strict: bool = False) -> RuleResult:
    r = RuleResult('M6', 'rewrite.py and parser.py create AST nodes only through validating means (constructor, factory, but): no copy/__new__/__setattr__/__dict__/evolve')
    n = 0
    for mname in ('hpl.rewrite', 'hpl.parser', 'hpl.ast.predicates', 'hpl.ast.events', 'hpl.ast.properties', 'hpl.ast.specs'):
        mod = ctx.model.module(mname, 'M6')
        only_raw = mname not in ('hpl.rewrite', 'hpl.parser')
        for node in ast.walk(mod.tree):
            if isinstance(node, ast.Call):
                n += 1
                fsrc = ast.unparse(node.func)
                base = fsrc.split('.')[-1]
                if fsrc in _RAW or base in ('deepcopy', '__new__', '__reduce__', '__setstate__'):
                    if only_raw and fsrc in ('object.__setattr__',):
                        continue  # M1 decides those
                    fi = _enclosing(ctx, mod, node)
                    r.fail(f'{fi.qualname if fi else mod.name}:{fsrc}', f'{fsrc}() creates/changes an AST node without running converters and validators', f'{mod.relpath}:{node.lineno}')
            if isinstance(node, ast.Attribute) and node.attr in ('__dict__', '__slots__'):
                fi = _enclosing(ctx, mod, node)
                r.fail(f'{fi.qualname if fi else mod.name}:{node.attr}', f'{node.attr} access', f'{mod.relpath}:{node.lineno}')
        for imp, (m, a) in mod.imports.items():
            if m == 'copy' or (m in ('attrs', 'attr') and a in ('evolve', 'assoc')):
                r.fail(f'{mname}:import {m}.{a}', f'{mname} imports {m}.{a}', mod.relpath)
    r.ok(f'{n} call sites scanned in rewrite/parser/ast modules')
    r.floor('call sites scanned', n, 300)
    return r


RULES = {'M1': M1, 'M3': M3, 'M4': M4, 'M5': M5, 'M6': M6}


# ----------------------------------------------------------------- M2 (lite)
def forcing_fields(ctx: Ctx) -> Dict[str, Dict[str, Tuple]]:
    """class -> {field: type descriptor} for fields whose validator narrows the argument object in place"""
    def build():
        from .rules_attrs import field_narrowings
        from .rules_slots import slot_table
        out: Dict[str, Dict[str, Tuple]] = {}
        for cname, slots in slot_table(ctx).items():
            c = ctx.model.cls(cname)
            for s in slots:
                for mech, td, narrows, where in field_narrowings(ctx, c, s.f):
                    if narrows and 'force' in mech:
                        out.setdefault(cname, {})[s.name] = td
        return out
    return ctx.memo('forcing_fields', build)


def slot_const_types(ctx: Ctx) -> Dict[Tuple[str, str], Set[str]]:
    """(class, slot) -> constant type set the stored child is narrowed to (A3), where it is a constant"""
    def build():
        from .rules_attrs import field_narrowings
        from .rules_slots import slot_table
        out = {}
        for cname, slots in slot_table(ctx).items():
            c = ctx.model.cls(cname)
            for s in slots:
                for mech, td, narrows, where in field_narrowings(ctx, c, s.f):
                    if narrows and td[0] == 'const':
                        out[(cname, s.name)] = set(td[1])
        return out
    return ctx.memo('slot_const_types', build)


_PASS_THROUGH = {'tuple', 'list', 'reversed', 'sorted', 'set', 'iter', 'enumerate'}


class _Prov:
    """flow-insensitive may-provenance of local names inside one function"""

    def __init__(self, ctx: Ctx, fi: FunctionInfo):
        self.ctx, self.fi = ctx, fi
        self.defs: Dict[str, List[ast.expr]] = {}     # name -> value expressions
        self.elems: Dict[str, List[ast.expr]] = {}    # name -> expressions whose value is appended / iterated into it
        self.iter_of: Dict[str, List[ast.expr]] = {}  # loop var -> iterables
        self.classes: Dict[str, Set[str]] = {}        # name -> classes established by isinstance / annotation
        for a in fi.node.args.posonlyargs + fi.node.args.args + fi.node.args.kwonlyargs:
            c = ctx.ev.ann_class(a.annotation, fi.module)
            if c is not None:
                self.classes.setdefault(a.arg, set()).add(c.name)
        for node in ast.walk(fi.node):
            if isinstance(node, ast.Assign):
                for t in node.targets:
                    if isinstance(t, ast.Name):
                        self.defs.setdefault(t.id, []).append(node.value)
            elif isinstance(node, ast.AnnAssign) and isinstance(node.target, ast.Name) and node.value is not None:
                self.defs.setdefault(node.target.id, []).append(node.value)
                c = ctx.ev.ann_class(node.annotation, fi.module)
                if c is not None and c.name not in ('HplExpression', 'HplAstObject'):
                    self.classes.setdefault(node.target.id, set()).add(c.name)
            elif isinstance(node, (ast.For, ast.comprehension)):
                if isinstance(node.target, ast.Name):
                    self.iter_of.setdefault(node.target.id, []).append(node.iter)
            elif isinstance(node, ast.Call) and isinstance(node.func, ast.Attribute) and isinstance(node.func.value, ast.Name) and node.func.attr in ('append', 'add', 'insert') and node.args:
                self.elems.setdefault(node.func.value.id, []).append(node.args[-1])
            elif isinstance(node, ast.Call) and isinstance(node.func, ast.Attribute) and isinstance(node.func.value, ast.Name) and node.func.attr in ('extend', 'update') and node.args:
                self.iter_of.setdefault('__elem_of__' + node.func.value.id, []).append(node.args[0])
            if isinstance(node, ast.Call) and isinstance(node.func, ast.Name) and node.func.id == 'isinstance' and len(node.args) == 2 and isinstance(node.args[0], ast.Name):
                names = [n.id for n in ast.walk(node.args[1]) if isinstance(n, ast.Name)]
                for n in names:
                    r = ctx.model.resolve_name(fi.module, n)
                    if r and r[0] == 'class':
                        self.classes.setdefault(node.args[0].id, set()).add(r[1].name)

    def types_of(self, e: ast.expr, elem: bool = False, depth: int = 0, seen: Optional[Set] = None) -> Optional[Set[str]]:
        """union of the constant slot types the value of `e` (or, with elem, an element of it) may be drawn
        from; None = undecided (unknown provenance); set() = fresh / bounded elsewhere"""
        seen = seen if seen is not None else set()
        key = (ast.dump(e), elem)
        if key in seen or depth > 12:
            return set()
        seen.add(key)
        ctx = self.ctx
        if isinstance(e, ast.Call):
            f = e.func
            if isinstance(f, ast.Attribute) and f.attr == 'cast' and e.args:
                from .rules_lattice import flagset
                t = ctx.ev.expr(e.args[0], _State(), self.fi.module, self.fi, 0)
                fs = flagset(ctx, t)
                return set(fs) if fs is not None else None
            if isinstance(f, ast.Name) and (f.id in _PASS_THROUGH or f.id.startswith('_simplify')) and e.args:
                return self.types_of(e.args[0], elem, depth + 1, seen)
            # constructors / factories / helper calls build fresh nodes or are decided at their own sites
            return set() if not elem else None
        if isinstance(e, (ast.Tuple, ast.List, ast.Set)):
            if not elem:
                return set()
            out: Set[str] = set()
            for x in e.elts:
                t = self.types_of(x, False, depth + 1, seen)
                if t is None:
                    return None
                out |= t
            return out
        if isinstance(e, ast.Subscript):
            return self.types_of(e.value, True, depth + 1, seen)
        if isinstance(e, ast.Attribute):
            base = e.value
            classes: Set[str] = set()
            if isinstance(base, ast.Name):
                classes = set(self.classes.get(base.id, set()))
            table = slot_const_types(ctx)
            hits = [table[(c, e.attr)] for c in classes if (c, e.attr) in table]
            if hits:
                out = set()
                for h in hits:
                    out |= h
                return out
            return None
        if isinstance(e, ast.Name):
            out: Set[str] = set()
            found = False
            srcs: List[Tuple[ast.expr, bool]] = []
            for d in self.defs.get(e.id, []):
                srcs.append((d, elem))
            for it in self.iter_of.get(e.id, []):
                srcs.append((it, True)) if not elem else srcs.append((it, True))
            if elem:
                for x in self.elems.get(e.id, []):
                    srcs.append((x, False))
                for it in self.iter_of.get('__elem_of__' + e.id, []):
                    srcs.append((it, True))
            if not srcs:
                return None  # parameter or unknown
            for s, el in srcs:
                t = self.types_of(s, el, depth + 1, seen)
                if t is None:
                    continue  # undecided source: cannot prove a violation from it
                found = True
                out |= t
            return out if found else None
        if isinstance(e, ast.IfExp):
            a, b = self.types_of(e.body, elem, depth + 1, seen), self.types_of(e.orelse, elem, depth + 1, seen)
            if a is None and b is None:
                return None
            return (a or set()) | (b or set())
        return None


def M2(ctx: Ctx) -> RuleResult:
    r = RuleResult('M2', 'forcing constructors (operand validators narrow the argument in place) outside parser/AST classes receive only arguments whose provenance type is inside the parameter type')
    forcing = forcing_fields(ctx)
    if not forcing:
        raise AnalysisError('M2', 'no forcing constructor found (anchor vanished)')
    from .rules_lattice import flagset
    from .rules_tables import binary_rows, unary_rows
    n_sites = n_decided = 0
    for mname in ('hpl.rewrite', 'hpl.ast.predicates', 'hpl.ast.events', 'hpl.ast.properties'):
        mod = ctx.model.module(mname, 'M2')
        for fi in list(mod.functions.values()) + [m for c in mod.classes.values() for m in c.methods.values()]:
            prov = None
            for node in ast.walk(fi.node):
                if not isinstance(node, ast.Call):
                    continue
                try:
                    ft = ctx.ev.expr(node.func, _State(), mod, fi, 0)
                except AnalysisError:
                    continue
                target = None  # (class, {param position/name -> field})
                if isinstance(ft, ClassRef) and ft.name in forcing:
                    c = ctx.model.cls(ft.name)
                    pos, kwo = c.init_params()
                    target = (ft.name, {i: f.name for i, f in enumerate(pos)}, {f.name: f.name for f in pos + kwo}, None)
                elif isinstance(ft, BoundMethod) and isinstance(ft.recv, ClassRef) and ft.recv.name in forcing:
                    m = ctx.ev.callee(ft)
                    if m is not None and m.kind == 'classmethod':
                        params = m.params()[1:]
                        outs = ctx.ev.run(m, {p: Sym(p) for p in params})
                        if len(outs) == 1 and isinstance(outs[0].value, New) and outs[0].value.cls in forcing:
                            nv = outs[0].value
                            p2f = {}
                            for fname, v in nv.fields:
                                if isinstance(v, Sym) and v.name in params:
                                    p2f[v.name] = fname
                            target = (nv.cls, {i: p2f.get(p) for i, p in enumerate(params)}, {p: p2f.get(p) for p in params}, nv)
                if target is None:
                    continue
                cls_name, posmap, kwmap, nv = target
                n_sites += 1
                # operator of this construction (for opattr parameter types)
                op_term = None
                if nv is not None:
                    op_term = nv.get('operator')
                else:
                    for i, a in enumerate(node.args):
                        if posmap.get(i) == 'operator':
                            op_term = ctx.ev.expr(a, _State(), mod, fi, 0)
                    for kw in node.keywords:
                        if kwmap.get(kw.arg) == 'operator':
                            op_term = ctx.ev.expr(kw.value, _State(), mod, fi, 0)
                args: List[Tuple[str, ast.expr]] = []
                for i, a in enumerate(node.args):
                    if posmap.get(i):
                        args.append((posmap[i], a))
                for kw in node.keywords:
                    if kw.arg and kwmap.get(kw.arg):
                        args.append((kwmap[kw.arg], kw.value))
                for fname, aexpr in args:
                    td = forcing[cls_name].get(fname)
                    if td is None:
                        continue
                    want: Optional[Set[str]] = None
                    if td[0] == 'const':
                        want = set(td[1])
                    elif td[0] == 'opattr' and op_term is not None:
                        rows = list(unary_rows(ctx).values()) + list(binary_rows(ctx).values())
                        tok = None
                        if isinstance(op_term, Const):
                            tok = op_term.value
                        elif isinstance(op_term, __import__('hplsa.terms', fromlist=['EnumMember']).EnumMember):
                            v = ctx.ev.enum_value(op_term, 0)
                            if isinstance(v, New):
                                t = v.get('token')
                                tok = t.value if isinstance(t, Const) else None
                        if tok is not None:
                            col = {'parameter': 'parameter', 'parameter1': 'p1', 'parameter2': 'p2'}[td[1]]
                            for row in rows:
                                if row['token'] == tok and col in row and ((cls_name == 'HplUnaryOperator') == ('parameter' in row)):
                                    want = set(row[col])
                    if want is None:
                        continue  # operator is symbolic: same-operator rewraps are not decided by the lite rule
                    if prov is None:
                        prov = _Prov(ctx, fi)
                    got = prov.types_of(aexpr)
                    key = f'{fi.qualname}:{cls_name}.{fname}<-{ast.unparse(aexpr)[:40]}'
                    if got is None:
                        continue
                    n_decided += 1
                    if got - want:
                        r.fail(key, f'{ast.unparse(node)[:80]}: the argument for {fname} may be a caller-owned node typed {sorted(got)} (wider than the parameter type {sorted(want)}); the operand validator narrows it in place', f'{mod.relpath}:{node.lineno}', sorted(want), sorted(got))
                    else:
                        r.ok(f'{key}: provenance {sorted(got) or "fresh"} inside {sorted(want)}')
    r.counts['forcing call sites'] = n_sites
    r.counts['decided'] = n_decided
    r.notes.append(f'{n_sites - n_decided} forcing call sites have arguments of undecided provenance (operands of operator nodes / parameters): not decided by this rule')
    r.floor('forcing call sites', n_sites, 30)
    return r


RULES['M2'] = M2


# ------------------------------------------------------- M2g (guard-sensitive)
def M2g(ctx: Ctx) -> RuleResult:
    r = RuleResult('M2g', 'forcing constructors, guard-sensitive: operands re-wrapped under a constant operator have a type upper bound (from the guards on the node they are read from, fixed slot types, casts, dispatcher guards) inside the parameter type; undecided sites are counted, not reported')
    from .rules_lattice import flagset
    from .rules_rewrite import Shapes, canon, rewrite_eval, IH_FUNCS, _fname
    from .rules_tables import binary_rows, unary_rows, oracle
    from .terms import EnumMember, walk, alternatives
    from .util import outcome_terms
    forcing = forcing_fields(ctx)
    preds = oracle('operators.json')['predicates']
    urows = {row['token']: row for row in unary_rows(ctx).values()}
    brows = {row['token']: row for row in binary_rows(ctx).values()}
    slot_types = slot_const_types(ctx)
    ev = rewrite_eval(ctx)
    BOOL = {'BOOL'}
    KIND_TYPES = {'not': BOOL, 'and': BOOL, 'or': BOOL, 'implies': BOOL, 'iff': BOOL}

    def op_kind_types(kind: str, field: str, arity: Optional[int]) -> Optional[Set[str]]:
        """is_<kind> on an operator definition -> union of the parameter types at `field` over the tokens it recognises"""
        out: Set[str] = set()
        found = False
        if arity in (None, 1) and f'is_{kind}' in preds['unary'] and field in ('operand1', 'operand'):
            for tok in preds['unary'][f'is_{kind}']:
                if tok in urows:
                    out |= set(urows[tok]['parameter'])
                    found = True
        if arity in (None, 2) and f'is_{kind}' in preds['binary'] and field in ('operand1', 'operand2'):
            for tok in preds['binary'][f'is_{kind}']:
                if tok in brows:
                    out |= set(brows[tok]['p1' if field == 'operand1' else 'p2'])
                    found = True
        return out if found else None

    # (f) dispatcher guards: helper -> facts about its first parameter
    mods = [ctx.model.module('hpl.rewrite', 'M2g'), ctx.model.module('hpl.ast.predicates', 'M2g')]
    dispatch: Dict[str, Set[str]] = {}
    calls_count: Dict[str, int] = {}
    for mod in mods:
        for fi in mod.functions.values():
            for n in ast.walk(fi.node):
                if isinstance(n, ast.Call) and isinstance(n.func, ast.Name) and n.func.id in mod.functions:
                    calls_count[n.func.id] = calls_count.get(n.func.id, 0) + 1
    outcomes_cache = {}
    for mod in mods:
        for fi in list(mod.functions.values()) + [m for c in mod.classes.values() for m in c.methods.values()]:
            try:
                outcomes_cache[fi.key] = ev.run(fi)
            except AnalysisError:
                outcomes_cache[fi.key] = []
    for key, outs in outcomes_cache.items():
        for o in outs:
            if o.kind == 'return' and _fname(o.value) and o.value.args:
                h = _fname(o.value)
                arg = o.value.args[0]
                kinds = set()
                for t, pol in o.guards:
                    for x in walk(t):
                        if pol and isinstance(x, Attr) and x.name.startswith('is_') and isinstance(x.base, Attr) and x.base.name == 'operator' and canon(x.base.base) == canon(arg):
                            kinds.add(x.name[3:])
                if kinds and calls_count.get(h, 0) == 1:
                    dispatch.setdefault(h, set()).update(kinds)

    def ub(x: Term, sh: Shapes, fi: FunctionInfo, depth: int = 0) -> Optional[Set[str]]:
        if depth > 8:
            return None
        if isinstance(x, New):
            return set()
        if isinstance(x, Call) and call_name(x) == 'cast' and x.args:
            fs = flagset(ctx, x.args[0])
            return set(fs) if fs is not None else None
        fn = _fname(x)
        if fn and (fn.startswith('_simplify') or fn in IH_FUNCS) and x.args:
            return ub(x.args[0], sh, fi, depth + 1)
        c = canon(x)
        if isinstance(c, Attr):
            base = c.base
            k = sh.kind.get(base)
            if c.name in ('operand1', 'operand2'):
                if k in KIND_TYPES:
                    return set(KIND_TYPES[k])
                # operator kind guard on the node: base.operator.is_K
                for t, pol in getattr(sh, 'raw', []):
                    for y in walk(t):
                        if pol and isinstance(y, Attr) and y.name.startswith('is_') and isinstance(y.base, Attr) and y.base.name == 'operator' and canon(y.base.base) == base:
                            v = op_kind_types(y.name[3:], c.name, None)
                            if v is not None:
                                return v
                # dispatcher guard for the helper's own parameter
                if isinstance(base, Sym) and fi.name in dispatch and base.name == (fi.params()[0] if fi.params() else None):
                    acc: Set[str] = set()
                    ok = True
                    arity = 1 if base.cls == 'HplUnaryOperator' else 2 if base.cls == 'HplBinaryOperator' else None
                    for kind in dispatch[fi.name]:
                        v = op_kind_types(kind, c.name, arity)
                        if v is None:
                            ok = False
                        else:
                            acc |= v
                    if ok and acc:
                        return acc
                return None
            bt = ctx.ev.type_of(base)
            cls_names = [bt.name] if bt is not None else []
            if k in ('quant', 'forall', 'exists') or (bt is not None and bt.name == 'HplQuantifier'):
                cls_names = ['HplQuantifier']
            for cn in cls_names:
                if (cn, c.name) in slot_types:
                    return set(slot_types[(cn, c.name)])
            if c.name == 'condition' and bt is not None and any(b.name == 'HplPredicate' for b in bt.mro()):
                return set(BOOL)
            return None
        return None

    n_sites = n_decided = 0
    seen = set()
    for key, outs in outcomes_cache.items():
        fi = ctx.ev._fn_by_key[key]
        for o in outs:
            sh = Shapes()
            sh.raw = list(o.guards) + [(a, True) for a in o.asserts]
            for g, pol in o.guards:
                sh.read(g, pol)
            for a in o.asserts:
                sh.read(a, True)
            terms = outcome_terms(o) + list((o.env or {}).values())
            for t in terms:
                for x in walk(t):
                    if not (isinstance(x, New) and x.cls in forcing):
                        continue
                    op = x.get('operator')
                    tok = None
                    if isinstance(op, Const):
                        tok = op.value
                    elif isinstance(op, EnumMember):
                        v = ctx.ev.enum_value(op, 0)
                        if isinstance(v, New) and isinstance(v.get('token'), Const):
                            tok = v.get('token').value
                    for fname, td in forcing[x.cls].items():
                        arg = x.get(fname)
                        if arg is None:
                            continue
                        if td[0] == 'const':
                            want = set(td[1])
                        elif tok is not None:
                            row = urows.get(tok) if x.cls == 'HplUnaryOperator' else brows.get(tok)
                            if row is None:
                                continue
                            want = set(row['parameter'] if x.cls == 'HplUnaryOperator' else row['p1' if td[1] == 'parameter1' else 'p2'])
                        else:
                            continue  # same-operator rewraps: R6 decides operand bookkeeping
                        sk = (fi.qualname, x.cls, fname, repr(canon(arg))[:120])
                        if sk in seen:
                            continue
                        seen.add(sk)
                        n_sites += 1
                        got = ub(arg, sh, fi)
                        if got is None:
                            continue
                        n_decided += 1
                        if got - want:
                            r.fail(f'{fi.qualname}:{x.cls}.{fname}<-{repr(canon(arg))[:50]}', f'{fi.qualname} wraps {repr(canon(arg))[:60]} (type upper bound {sorted(got)}) as {fname} of a {tok or x.cls} node, whose validator narrows it in place to {sorted(want)}: a caller-owned node changes type', f'{fi.module.relpath}:{o.lineno}', sorted(want), sorted(got))
                        else:
                            r.ok(f'{fi.qualname}: {fname} <- {repr(canon(arg))[:50]} bounded by {sorted(got) or "fresh"}')
    r.counts['argument sites'] = n_sites
    r.counts['decided'] = n_decided
    r.counts['dispatcher facts'] = len(dispatch)
    r.notes.append(f'{n_sites - n_decided} argument sites undecided (parameters without dispatcher facts, symbolic operators)')
    r.floor('argument sites', n_sites, 30)
    return r


RULES['M2g'] = M2g

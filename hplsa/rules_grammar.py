"""E1 grammar rules G1-G8 over the lark-compiled grammar model."""
from __future__ import annotations

import ast
import re
from typing import Dict, FrozenSet, List, Optional, Set, Tuple

from .ctx import Ctx
from .grammar import Expansion, Item, Terminal, View
from .model import AnalysisError, FunctionInfo
from .report import RuleResult
from .rx import IDENT_TAILS, enumerate_language, is_word
from .rules_tables import binary_rows, unary_rows
from .terms import Const, EnumMember

VIEWS = ('embedded:HPL_GRAMMAR', 'embedded:PREDICATE_GRAMMAR', 'lark:HPL_GRAMMAR', 'lark:PREDICATE_GRAMMAR')
EMBEDDED = ('embedded:HPL_GRAMMAR', 'embedded:PREDICATE_GRAMMAR')


def lexemes(t: Terminal) -> Optional[Set[str]]:
    if t.kind == 'str':
        return {t.value}
    return enumerate_language(t.value)


def G1(ctx: Ctx) -> RuleResult:
    r = RuleResult('G1', 'one grammar, two copies: compiled .lark files (joined as build_grammars.py joins them) == compiled embedded strings; *_OPERATOR constants are lexemes')
    gm = ctx.gm
    for g in ('PREDICATE_GRAMMAR', 'HPL_GRAMMAR'):
        a, b = gm.view(f'embedded:{g}'), gm.view(f'lark:{g}')
        ca, cb = a.canonical(), b.canonical()
        for part in ('rules', 'terminals', 'ignore'):
            if ca[part] == cb[part]:
                r.ok(f'{g}.{part}: {len(ca[part])} identical entries')
            else:
                sa, sb = set(map(repr, ca[part])), set(map(repr, cb[part]))
                only_a = sorted(sa - sb)[:3]
                only_b = sorted(sb - sa)[:3]
                r.fail(f'{g}:{part}', f'embedded grammar.py and the packaged .lark files disagree on {part}: only embedded {only_a}; only .lark {only_b}', 'src/hpl/grammar.py', only_b, only_a)
    # the predicate grammar is a sub-grammar of the HPL grammar (same rules / terminals for the shared part)
    h, p = gm.view('embedded:HPL_GRAMMAR'), gm.view('embedded:PREDICATE_GRAMMAR')
    hr = {(e.origin, e.alias or '', tuple(e.symbols), e.empty_indices, e.priority or 0) for e in h.expansions}
    horigins = set(h.origins())
    missing = [x for x in ((e.origin, e.alias or '', tuple(e.symbols), e.empty_indices, e.priority or 0) for e in p.expansions) if x not in hr and x[0] in horigins]
    if missing:
        r.fail('PREDICATE_GRAMMAR:subset', f'predicate grammar rules differ from the same rules inside HPL_GRAMMAR: {missing[:2]}', 'src/hpl/grammar.py')
    else:
        r.ok(f'PREDICATE_GRAMMAR rules are a subset of HPL_GRAMMAR rules ({len(p.expansions)})')
    for name, t in p.terminals.items():
        ht = h.terminals.get(name)
        if ht is None or (ht.kind, ht.value, ht.flags, ht.priority) != (t.kind, t.value, t.flags, t.priority):
            r.fail(f'PREDICATE_GRAMMAR:{name}', f'terminal {name} differs between the two embedded grammars', 'src/hpl/grammar.py')
    # constants
    all_lex: Set[str] = set()
    for t in h.terminals.values():
        ls = lexemes(t)
        if ls:
            all_lex |= ls
    for k, v in gm.constants.items():
        if v in all_lex:
            r.ok(f'grammar.{k} = {v!r} is a lexeme')
        else:
            r.fail(f'grammar.{k}', f'constant {k} = {v!r} is not a lexeme of any terminal: the operator table would be detached from the lexer', 'src/hpl/grammar.py')
    r.floor('operator constants', len(gm.constants), 8)
    return r


# ------------------------------------------------------------------- G2
CHAIN = [
    ({'implies', 'iff'}, 'left'),
    ({'or'}, 'left'),
    ({'and'}, 'left'),
    ({'=', '!=', '<', '<=', '>', '>=', 'in'}, 'none'),
    ({'+', '-'}, 'left'),
    ({'*', '/'}, 'left'),
    ({'**'}, 'left'),
]


def binary_levels(v: View, start: str) -> Tuple[List[Dict], Dict]:
    """follow the operator-level chain from `start`; returns (levels, info about prefix ops and atoms)"""
    levels: List[Dict] = []
    info: Dict = {'prefix': [], 'atoms': None, 'paren': None}
    cur = start
    seen = set()
    while cur not in seen:
        seen.add(cur)
        exps = v.rules_of(cur)
        if not exps:
            break
        shapes = [[(n, t) for n, t, f in e.symbols if not (t and f)] for e in exps]
        if cur.startswith('_'):
            # choice rule: alternatives are single symbols, prefix-operator rules, or parenthesised re-entry
            nxt = None
            for e, sh in zip(exps, shapes):
                full = [(n, t, f) for n, t, f in e.symbols]
                if len(sh) == 1 and not sh[0][1]:
                    alt = sh[0][0]
                    if len(full) == 3 and full[0][1] and full[2][1]:
                        info['paren'] = (cur, alt, full[0][0], full[2][0])
                        continue
                    alt_exps = v.rules_of(alt)
                    alt_sh = [[(n, t) for n, t, f in x.symbols if not (t and f)] for x in alt_exps]
                    is_prefix = alt_exps and all(s and s[0][1] for s in alt_sh) and not alt.startswith('_')
                    if is_prefix and all(len(s) >= 2 for s in alt_sh):
                        info['prefix'].append((cur, alt, alt_sh))
                    elif alt.startswith('_') and all(len(s) == 1 and not s[0][1] for s in alt_sh) and len(alt_sh) > 3:
                        info['atoms'] = (cur, alt)
                    else:
                        if nxt is None:
                            nxt = alt
                        else:
                            info.setdefault('ambiguous', []).append((cur, nxt, alt))
            if nxt is None:
                break
            cur = nxt
            continue
        two = sorted(shapes, key=len)
        if len(two) == 2 and len(two[0]) == 1 and len(two[1]) == 3 and two[1][1][1] and not two[0][0][1]:
            s1 = two[0][0][0]
            x, tname, s2 = two[1][0][0], two[1][1][0], two[1][2][0]
            levels.append({'rule': cur, 'terminal': tname, 'left': x, 'right': s2, 'next': s1})
            cur = s1
            continue
        if len(shapes) == 1 and len(shapes[0]) == 1 and not shapes[0][0][1]:
            cur = shapes[0][0][0]
            continue
        break
    return levels, info


def G2(ctx: Ctx) -> RuleResult:
    r = RuleResult('G2', 'precedence chain: implies/iff < or < and < not/quantifier < relational (non-associative) < +,- < *,/ < ** ; every binary level left-recursive; parentheses re-enter at the loosest level in an inlined rule')
    for vn in EMBEDDED:
        v = ctx.gm.view(vn)
        start = 'condition'
        if not v.rules_of(start):
            raise AnalysisError('G2', f'{vn}: rule condition not found')
        for entry in ('hpl_expression', 'hpl_predicate'):
            for e in v.rules_of(entry):
                kept = [n for n, t, f in e.symbols if not (t and f)]
                if kept != [start]:
                    r.fail(f'{vn}:{entry}', f'{entry} does not enter the operator chain at its loosest level ({start}): {kept}', 'src/hpl/grammar.py')
        levels, info = binary_levels(v, start)
        where = 'src/hpl/grammar.py'
        got = []
        for lv in levels:
            t = v.terminals.get(lv['terminal'])
            lex = lexemes(t) if t else None
            assoc = 'left' if (lv['left'] == lv['rule'] and lv['right'] != lv['rule']) else 'right' if (lv['right'] == lv['rule'] and lv['left'] != lv['rule']) else 'none' if (lv['left'] != lv['rule'] and lv['right'] != lv['rule']) else 'both'
            got.append((lex, assoc, lv))
        if len(got) != len(CHAIN):
            r.fail(f'{vn}:chain-length', f'found {len(got)} binary operator levels {[ (sorted(g[0]) if g[0] else None) for g in got]}, expected {len(CHAIN)}', where)
        for i, (want_lex, want_assoc) in enumerate(CHAIN):
            if i >= len(got):
                break
            lex, assoc, lv = got[i]
            key = f'{vn}:level{i + 1}({lv["rule"]})'
            if lex is None or set(lex) != want_lex:
                r.fail(key + ':operators', f'level {i + 1} ({lv["rule"]}) has operators {sorted(lex) if lex else None}, expected {sorted(want_lex)}: precedence differs from the documented chain', where, sorted(want_lex), sorted(lex) if lex else None)
            elif assoc != want_assoc:
                r.fail(key + ':assoc', f'rule {lv["rule"]} is {assoc}-recursive, expected {want_assoc}: "a {sorted(lex)[0]} b {sorted(lex)[0]} c" groups differently', where, want_assoc, assoc)
            elif want_assoc == 'left' and lv['right'] != lv['next']:
                r.fail(key + ':operand', f'right operand of {lv["rule"]} is {lv["right"]}, expected the next tighter level {lv["next"]}', where)
            elif want_assoc == 'none' and not (lv['left'] == lv['right'] == lv['next']):
                r.fail(key + ':operand', f'operands of {lv["rule"]} are {lv["left"]}/{lv["right"]}, expected both the next tighter level {lv["next"]}', where)
            else:
                r.ok(f'{vn} level {i + 1} {lv["rule"]}: {sorted(lex)} {assoc}')
        # prefix operators sit between level 3 (and) and level 4 (relational)
        pre = {alt: sh for (_, alt, sh) in info['prefix']}
        lv3_next = got[2][2]['next'] if len(got) > 2 else None
        for (choice, alt, shapes) in info['prefix']:
            tname = shapes[0][0][0]
            t = v.terminals.get(tname)
            lex = lexemes(t) if t else None
            operand = shapes[0][-1][0]
            if lex and lex <= {'not', 'forall', 'exists'}:
                if choice != lv3_next:
                    r.fail(f'{vn}:{alt}:level', f'prefix operator {alt} is attached at {choice}, expected directly below the conjunction level ({lv3_next})', where)
                elif operand != choice:
                    r.fail(f'{vn}:{alt}:operand', f'operand of {alt} is {operand}, expected {choice} (so that "not not p" and "not forall ..." nest)', where)
                else:
                    r.ok(f'{vn} prefix {alt}: {sorted(lex)} operand {operand}')
            elif lex == {'-'}:
                last = got[-1][2]['next'] if got else None
                if choice != last or operand != choice:
                    r.fail(f'{vn}:{alt}:level', f'unary minus {alt} attached at {choice} with operand {operand}, expected the tightest level {last}', where)
                else:
                    r.ok(f'{vn} prefix {alt}: unary minus at the tightest level')
        if not any(lexemes(v.terminals[sh[0][0][0]]) == {'not'} for (_, _, sh) in info['prefix'] if sh[0][0][0] in v.terminals):
            r.fail(f'{vn}:negation', 'no prefix rule for "not" found in the chain', where)
        if info['paren'] is None:
            r.fail(f'{vn}:paren', 'no parenthesised alternative found at the tightest level', where)
        else:
            choice, inner, lp, rp = info['paren']
            loosest = levels[0]['rule'] if levels else None
            last = got[-1][2]['next'] if got else None
            if inner != loosest:
                r.fail(f'{vn}:paren:inner', f'parentheses enclose {inner}, expected the loosest level {loosest}', where)
            elif choice != last or not choice.startswith('_'):
                r.fail(f'{vn}:paren:node', f'parenthesised alternative lives in {choice}: it must be the inlined tightest-level rule ({last}) so that redundant parentheses create no node', where)
            else:
                r.ok(f'{vn} parentheses: "(" {inner} ")" inlined at {choice}')
        if info.get('ambiguous'):
            r.fail(f'{vn}:chain-shape', f'chain branches: {info["ambiguous"]}', where)
    return r


# ------------------------------------------------------------------- G3
def G3(ctx: Ctx) -> RuleResult:
    r = RuleResult('G3', 'operator inventory: every operator lexeme of the grammar has exactly one table row of the right arity; quantifier lexemes == QuantifierType values')
    v = ctx.gm.hpl
    un = {row['token'] for row in unary_rows(ctx).values()}
    bi = {row['token'] for row in binary_rows(ctx).values()}
    levels, info = binary_levels(v, 'condition')
    n = 0
    for lv in levels:
        t = v.terminals[lv['terminal']]
        for lx in sorted(lexemes(t) or []):
            n += 1
            if lx in bi:
                r.ok(f'binary lexeme {lx!r} ({t.name}) has a BuiltinBinaryOperator row')
            else:
                r.fail(f'{t.name}:{lx}', f'grammar accepts binary operator {lx!r} but no BuiltinBinaryOperator has that token: parsing it raises ValueError', 'src/hpl/grammar.py')
    qt = ctx.model.cls('QuantifierType', 'G3')
    qvals = set()
    for m in qt.enum_members:
        val = ctx.ev.enum_value(EnumMember('QuantifierType', m), 0)
        if isinstance(val, Const):
            qvals.add(val.value)
    for (choice, alt, shapes) in info['prefix']:
        t = v.terminals.get(shapes[0][0][0])
        lex = lexemes(t) or set()
        for lx in sorted(lex):
            n += 1
            if lx in ('forall', 'exists') or t.name.startswith('QUANT'):
                if lx in qvals:
                    r.ok(f'quantifier lexeme {lx!r} is a QuantifierType value')
                else:
                    r.fail(f'{t.name}:{lx}', f'quantifier lexeme {lx!r} is not a QuantifierType value {sorted(qvals)}', 'src/hpl/grammar.py')
            elif lx in un:
                r.ok(f'unary lexeme {lx!r} ({t.name}) has a BuiltinUnaryOperator row')
            else:
                r.fail(f'{t.name}:{lx}', f'grammar accepts unary operator {lx!r} but no BuiltinUnaryOperator has that token', 'src/hpl/grammar.py')
    # lookup idiom: for member in Enum.__members__.values(): if member.token == op: return member.value
    from .terms import Evaluator as _Ev, helper_inline as _hi, Attr as _Attr, Loop as _Loop, Op as _Op, Sym as _Sym, norm_guards as _ng, walk as _walk
    for fn, enum in (('_convert_unary_operator', 'BuiltinUnaryOperator'), ('_convert_binary_operator', 'BuiltinBinaryOperator')):
        fi = ctx.model.func('hpl.ast.expressions', fn, 'G3')
        op = _Sym('op')
        outs = _Ev(ctx.model, inline=_hi(('hpl.ast.expressions',), exclude=(fn,))).run(fi, {fi.params()[0]: op})
        found = False
        raises = any(o.kind == 'raise' and 'ValueError' in repr(o.value) for o in outs)
        for o in outs:
            for e in o.effects:
                if isinstance(e, _Loop) and enum in repr(e.iter) and '__members__' in repr(e.iter):
                    for rg, val in e.returns:
                        for t, pol in _ng(rg):
                            if pol and isinstance(t, _Op) and t.op == '==' and op in t.args:
                                other = [a for a in t.args if a != op][0]
                                if isinstance(other, _Attr) and other.name == 'token' and isinstance(val, _Attr) and val.name == 'value' and val.base == other.base:
                                    found = True
        if not found:
            # next((member.value for member in Enum.__members__.values() if member.token == op), None) ... raise ValueError
            from .terms import Call as _Call, Comp as _Comp, Ext as _Ext
            for o in outs:
                for t in [g for g, _ in o.guards] + ([o.value] if o.value is not None else []):
                    for x in _walk(t):
                        if isinstance(x, _Call) and isinstance(x.func, _Ext) and x.func.name == 'next' and x.args and isinstance(x.args[0], _Comp) and len(x.args[0].gens) == 1:
                            comp = x.args[0]
                            tgt, it, ifs = comp.gens[0]
                            each = _Sym(f'each:{tgt}')
                            if enum in repr(it) and '__members__' in repr(it) and comp.elt == _Attr(each, 'value') and len(ifs) == 1 \
                                    and isinstance(ifs[0], _Op) and ifs[0].op == '==' and set(ifs[0].args) == {_Attr(each, 'token'), op}:
                                found = True
        if not found:
            # a token -> definition table built from the members, looked up with the lexeme: after folding, one path per
            # member with the guard `op == <its token>` returning <its value>
            from .terms import Const as _Const, EnumMember as _EM, expand_outcomes as _xo
            eci = ctx.model.cls(enum, 'G3')
            rows_ = {}
            for o in _xo(outs):
                if o.kind != 'return':
                    continue
                from .terms import reduce_guards as _rg, flat_guards as _fg
                for t, pol in list(_rg(o.guards)) + list(_fg(o.guards)):
                    if pol and isinstance(t, _Op) and t.op == '==' and op in t.args:
                        other = [a for a in t.args if a != op][0]
                        if isinstance(other, _Const):
                            rows_[other.value] = o.value
            want_ = {}
            for mname in eci.enum_members:
                v_ = ctx.ev.enum_value(_EM(enum, mname), 0)
                tok_ = v_.get('token') if hasattr(v_, 'get') else None
                if isinstance(tok_, _Const):
                    want_[tok_.value] = v_
            if want_ and all(rows_.get(k) == v for k, v in want_.items()):
                found = True
        if found and raises:
            r.ok(f'{fn}: member whose token equals the lexeme -> its definition; ValueError otherwise')
        else:
            r.fail(fn, 'operator lookup is no longer "first member whose token == lexeme -> member.value, else ValueError"', fi.where)
    r.floor('operator lexemes', n, 20)
    return r


# ------------------------------------------------------------------- G4
def _sort_key(t: Terminal):
    try:
        import re._parser as sp
    except ImportError:  # pragma: no cover
        import sre_parse as sp
    try:
        mw = sp.parse(t.regexp()).getwidth()[1]
    except Exception:
        mw = 0
    return (-t.priority, -mw, -len(t.value), t.name)


def state_lexer(v: View, accepted: Set[str]):
    """replicates lark's BasicLexer construction for one contextual state: returns
    (ordered scanning terminals, unless map: regexp terminal -> {string value: string terminal})"""
    terms = [v.terminals[n] for n in accepted if n in v.terminals] + [v.terminals[n] for n in v.ignore if n in v.terminals and n not in accepted]
    unless: Dict[str, Dict[str, str]] = {}
    removed: Set[str] = set()
    for retok in [t for t in terms if t.kind == 're']:
        for strtok in [t for t in terms if t.kind == 'str']:
            if strtok.priority != retok.priority:
                continue
            try:
                mo = re.fullmatch(retok.value, strtok.value)
            except re.error:
                mo = None
            if mo:
                unless.setdefault(retok.name, {})[strtok.value] = strtok.name
                if set(strtok.flags) <= set(retok.flags):
                    removed.add(strtok.name)
    scan = sorted([t for t in terms if t.name not in removed], key=_sort_key)
    return scan, unless


def lex_one(scan: List[Terminal], unless: Dict[str, Dict[str, str]], text: str) -> Optional[Tuple[str, str]]:
    for t in scan:
        try:
            mo = re.match(t.regexp(), text)
        except re.error:
            continue
        if mo and mo.end() > 0:
            val = mo.group(0)
            name = unless.get(t.name, {}).get(val, t.name)
            return name, val
    return None


def _can_start_with_ident(v: View, names: Set[str]) -> bool:
    for n in names:
        t = v.terminals.get(n)
        if t is None:
            continue
        for c in 'aZ_0gx':
            try:
                if re.match(t.regexp(), c) or re.match(t.regexp(), c + 'a') or re.match(t.regexp(), c + 'lobally') or (lexemes(t) and any(w[:1].isalnum() or w[:1] == '_' for w in lexemes(t))):
                    return True
            except re.error:
                pass
    return False


def G4(ctx: Ctx) -> RuleResult:
    r = RuleResult('G4', 'names are lexed by longest match: in every LALR state no alphabetic keyword terminal can match a proper prefix of an identifier run')
    views = VIEWS if ctx.tier == 'thorough' else EMBEDDED
    n_states = 0
    n_probes = 0
    for vn in views:
        v = ctx.gm.view(vn)
        bad: Dict[Tuple[str, str], Dict] = {}
        word_terms: Dict[str, Set[str]] = {}
        for t in v.terminals.values():
            lx = lexemes(t)
            if lx and all(is_word(w) for w in lx):
                word_terms[t.name] = lx
        for sid, accepted in v.states().items():
            n_states += 1
            kws = [n for n in accepted if n in word_terms]
            if not kws:
                continue
            scan, unless = state_lexer(v, accepted)
            for k in kws:
                for w in word_terms[k]:
                    for tail in IDENT_TAILS:
                        n_probes += 1
                        text = w + tail
                        got = lex_one(scan, unless, text)
                        if got and got[0] == k and got[1] == w:
                            # keyword matched a proper prefix of an identifier-like run
                            names = [t.name for t in scan if t.kind == 're' and t.name != k and re.fullmatch(t.regexp(), text)]
                            if not names and not _can_start_with_ident(v, v.after_terminal(k)):
                                continue  # nothing that may follow the keyword can start inside a word: the split text is rejected anyway
                            kind = 'steals the prefix of a name' if names else 'glues keyword and following text'
                            e = bad.setdefault((k, w), {'states': 0, 'kind': kind, 'names': names, 'probe': text})
                            e['states'] += 1
                            if names:
                                e['kind'] = 'steals the prefix of a name'
                                e['names'] = names
                            break
        for (k, w), e in sorted(bad.items()):
            r.fail(f'{vn.split(":")[1]}:{k}:{w}', f'terminal {k} matches {w!r} inside {e["probe"]!r} in {e["states"]} LALR state(s): {e["kind"]}' + (f' ({e["names"][0]} would have matched the whole run)' if e['names'] else ''), 'src/hpl/grammars/tokens.lark' if vn.startswith('lark') else 'src/hpl/grammar.py', 'no match (word boundary)', f'{k}={w!r}')
        if not bad:
            r.ok(f'{vn}: {len(word_terms)} keyword terminals safe in all states')
        r.counts[f'{vn.split(":")[1]} keyword terminals'] = len(word_terms)
    r.counts['states'] = n_states
    r.counts['probes'] = n_probes
    r.floor('LALR states', n_states, 200)
    return r


# ------------------------------------------------------------------- G5
def G5(ctx: Ctx) -> RuleResult:
    r = RuleResult('G5', 'layout: WS is ignored, no other terminal can match whitespace, punctuation is filtered out')
    for vn in EMBEDDED:
        v = ctx.gm.view(vn)
        if 'WS' not in v.ignore:
            r.fail(f'{vn}:WS', 'WS is not ignored', 'src/hpl/grammar.py')
            continue
        ws = v.terminals.get('WS')
        if ws is None or not all(re.fullmatch(ws.regexp(), s) for s in (' ', '\n', '\t', ' \r\n\t ')):
            r.fail(f'{vn}:WS:pattern', 'WS does not match every run of blanks, tabs and line breaks', 'src/hpl/grammar.py')
        else:
            r.ok(f'{vn}: WS ignored and covers blanks/tabs/newlines')
        if len(v.ignore) != 1:
            r.fail(f'{vn}:ignore', f'other terminals are ignored as well: {v.ignore}', 'src/hpl/grammar.py')
        for t in v.terminals.values():
            if t.name == 'WS':
                continue
            for s in (' ', '\n', '\t', '  '):
                try:
                    mo = re.match(t.regexp(), s)
                except re.error:
                    mo = None
                if mo and mo.end() > 0:
                    r.fail(f'{vn}:{t.name}:ws', f'terminal {t.name} can match whitespace: layout would change the token stream', 'src/hpl/grammar.py')
                    break
            lx = lexemes(t)
            if lx and any(re.search(r'\s', w) for w in lx):
                r.fail(f'{vn}:{t.name}:ws-inside', f'terminal {t.name} has a lexeme containing whitespace {sorted(lx)}', 'src/hpl/grammar.py')
        n = 0
        for e in v.expansions:
            for name, is_term, filt in e.symbols:
                if is_term and name in v.terminals and v.terminals[name].kind == 'str' and not re.search(r'[A-Za-z0-9]', v.terminals[name].value):
                    val = v.terminals[name].value
                    if val in ('(', ')', '{', '}', ',', ':', '#', '.') and not filt:
                        r.fail(f'{vn}:{e.origin}:{name}', f'punctuation {val!r} is kept as a child of {e.origin}', 'src/hpl/grammar.py')
                    n += 1
        r.ok(f'{vn}: {n} punctuation occurrences filtered')
    return r


# ------------------------------------------------------------------- G6
def transformer_methods(ctx: Ctx) -> Tuple[Dict[str, FunctionInfo], Dict[str, bool]]:
    """callbacks of PropertyTransformer by rule name (methods, and class attributes bound to a method, to a
    v_args-wrapped method or to a function built by a module-level factory), and whether each receives its children inline"""
    def build():
        import copy
        pt = ctx.model.cls('PropertyTransformer', 'G6')
        cls_inline = any('inline=True' in d.replace(' ', '') for d in pt.decorators if d.startswith('v_args'))
        methods: Dict[str, FunctionInfo] = {}
        inline: Dict[str, bool] = {}
        class_assigns: Dict[str, ast.expr] = {}
        for k in reversed(pt.mro()):
            # callbacks inherited from base transformers of the package count too; a class-level v_args applies to
            # the methods defined in that class
            k_inline = any('inline=True' in d.replace(' ', '') for d in k.decorators if d.startswith('v_args'))
            class_assigns.update(k.class_assigns)
            for name, fi in k.methods.items():
                il = k_inline
                for d in fi.decorators:
                    if d.startswith('v_args'):
                        il = 'inline=True' in d.replace(' ', '')
                methods[name] = fi
                inline[name] = il
        mod = pt.module

        def resolve(val: ast.expr, depth: int = 0):
            """-> (FunctionDef node, inline override | None) or None"""
            if depth > 4:
                return None
            if isinstance(val, ast.Name):
                if val.id in methods and methods[val.id].cls is not None:
                    return methods[val.id].node, (inline[val.id] if any(d.startswith('v_args') for d in methods[val.id].decorators) else None)
                if val.id in class_assigns:
                    return resolve(class_assigns[val.id], depth + 1)
                return None
            if isinstance(val, ast.Call) and isinstance(val.func, ast.Call) and ast.unparse(val.func.func).split('.')[-1] == 'v_args' and len(val.args) == 1:
                inner = resolve(val.args[0], depth + 1)
                if inner is None:
                    return None
                il = None
                for kw in val.func.keywords:
                    if kw.arg == 'inline' and isinstance(kw.value, ast.Constant):
                        il = bool(kw.value.value)
                return inner[0], il if il is not None else inner[1]
            if isinstance(val, ast.Call) and isinstance(val.func, ast.Name) and val.func.id in mod.functions and not val.keywords \
                    and all(isinstance(a, ast.Constant) for a in val.args):
                # a callback built by a module-level factory: the nested function it returns, with the factory's
                # parameters replaced by the constant arguments of this call
                fac = mod.functions[val.func.id].node
                nested = {n.name: n for n in fac.body if isinstance(n, ast.FunctionDef)}
                ret = [n for n in fac.body if isinstance(n, ast.Return)]
                if len(ret) == 1 and isinstance(ret[0].value, ast.Name) and ret[0].value.id in nested:
                    params = [a.arg for a in fac.args.posonlyargs + fac.args.args]
                    if len(params) != len(val.args):
                        return None
                    binding = dict(zip(params, val.args))
                    node = copy.deepcopy(nested[ret[0].value.id])

                    class Sub(ast.NodeTransformer):
                        def visit_Name(self, n):
                            if isinstance(n.ctx, ast.Load) and n.id in binding:
                                return ast.copy_location(ast.Constant(binding[n.id].value), n)
                            return n
                    node = ast.fix_missing_locations(Sub().visit(node))
                    return node, None
            return None
        for name, val in class_assigns.items():
            if name.startswith('_') or name in methods:
                continue
            got = resolve(val)
            if got is None:
                continue
            node, il = got
            methods[name] = FunctionInfo(name, f'{pt.name}.{name}', mod, node, pt, 'method')
            inline[name] = cls_inline if il is None else il
        return methods, inline
    return ctx.memo('transformer_methods', build)


def callback_rules(ctx: Ctx, v: View) -> Set[str]:
    out: Set[str] = set()
    for st in v.starts:
        for o in v.reachable(st):
            for e in v.rules_of(o):
                cb = e.callback
                if not cb.startswith('_'):
                    out.add(cb)
    return out


def _len_constraints(fi: FunctionInfo, param: str) -> Optional[Set[int]]:
    """set of child counts admitted by `assert len(p) == a or len(p) == b` / `assert len(p) >= k` (None: unconstrained)"""
    allowed: Optional[Set[int]] = None
    for node in ast.walk(fi.node):
        if isinstance(node, ast.Assert):
            s = set()
            lo = None
            for c in ast.walk(node.test):
                if isinstance(c, ast.Compare) and isinstance(c.left, ast.Call) and ast.unparse(c.left) == f'len({param})' and len(c.ops) == 1 and isinstance(c.comparators[0], ast.Constant):
                    k = c.comparators[0].value
                    if isinstance(c.ops[0], ast.Eq):
                        s.add(k)
                    elif isinstance(c.ops[0], ast.GtE):
                        lo = k
                    elif isinstance(c.ops[0], ast.Gt):
                        lo = k + 1
            if isinstance(node.test, ast.UnaryOp) and isinstance(node.test.op, ast.Not) and ast.unparse(node.test.operand) == param:
                s.add(0)
            if s:
                allowed = s if allowed is None else allowed & s
            if lo is not None:
                rng = set(range(lo, 64))
                allowed = rng if allowed is None else allowed & rng
    return allowed


def _max_const_index(fi: FunctionInfo, param: str) -> int:
    mx = -1
    for node in ast.walk(fi.node):
        if isinstance(node, ast.Subscript) and isinstance(node.value, ast.Name) and node.value.id == param and isinstance(node.slice, ast.Constant) and isinstance(node.slice.value, int):
            mx = max(mx, node.slice.value if node.slice.value >= 0 else 0)
    return mx


def G6(ctx: Ctx) -> RuleResult:
    r = RuleResult('G6', 'every reachable grammar rule has a transformer callback whose signature / length assertions fit every child layout of the rule')
    methods, inline = transformer_methods(ctx)
    n = 0
    for vn in EMBEDDED:
        v = ctx.gm.view(vn)
        for cb in sorted(callback_rules(ctx, v)):
            fi = methods.get(cb)
            key = f'{vn.split(":")[1]}:{cb}'
            if fi is None:
                r.fail(key + ':missing', f'grammar rule {cb} has no PropertyTransformer.{cb}: lark would hand a raw Tree to the parent callback', 'src/hpl/parser.py')
                continue
            lays, trunc = v.layouts(cb)
            counts = {len(l) for l in lays}
            n += 1
            if inline[cb]:
                a = fi.node.args
                pos = [x.arg for x in a.posonlyargs + a.args][1:]
                req = len(pos) - len(a.defaults)
                mx = 10 ** 6 if a.vararg else len(pos)
                bad = sorted(c for c in counts if not (req <= c <= mx))
                if bad:
                    r.fail(key + ':arity', f'{cb}{tuple(pos)} cannot take {bad} children; the rule yields child counts {sorted(counts)}', fi.where, sorted(counts), f'{req}..{mx}')
                else:
                    r.ok(f'{cb}: inline, child counts {sorted(counts)[:4]} fit ({req}..{mx if mx < 10**6 else "*"})')
            else:
                params = fi.params()[1:]
                if len(params) != 1:
                    r.fail(key + ':signature', f'non-inline callback {cb} must take exactly one children list', fi.where)
                    continue
                p = params[0]
                # follow a direct delegation `return self.other(children)`
                target = fi
                for node in ast.walk(fi.node):
                    if isinstance(node, ast.Return) and isinstance(node.value, ast.Call) and isinstance(node.value.func, ast.Attribute) and isinstance(node.value.func.value, ast.Name) and node.value.func.value.id == 'self' and len(node.value.args) == 1 and isinstance(node.value.args[0], ast.Name) and node.value.args[0].id == p and node.value.func.attr in methods and node.value.func.attr != cb:
                        target = methods[node.value.func.attr]
                tp = target.params()[1:][0] if target.params()[1:] else p
                allowed = _len_constraints(target, tp)
                mxi = _max_const_index(target, tp)
                if trunc:
                    counts = {c for c in counts}  # truncated: lower counts are exact, there is no upper bound
                if allowed is not None:
                    bad = sorted(c for c in counts if c not in allowed and not (trunc and c >= max(counts)))
                    if bad:
                        r.fail(key + ':arity', f'{target.name} asserts len({tp}) in {sorted(allowed)[:6]} but rule {cb} yields {bad} children', target.where, sorted(allowed)[:6], sorted(counts))
                        continue
                if mxi >= 0 and min(counts) <= mxi and (allowed is None or min(allowed) <= mxi):
                    # an index beyond the smallest layout must be guarded by a length test
                    guarded = _index_guarded(target, tp, min(counts))
                    if not guarded:
                        r.fail(key + ':index', f'{target.name} reads {tp}[{mxi}] but rule {cb} can yield only {min(counts)} children', target.where)
                        continue
                r.ok(f'{cb}: list callback ({target.name}), child counts {sorted(counts)[:5]}{"+" if trunc else ""} admitted')
    r.floor('callback rules checked', n, 60)
    return r


def _index_guarded(fi: FunctionInfo, param: str, min_count: int) -> bool:
    """every constant subscript >= min_count sits under an `if len(param) == k` (k > index) test"""
    for node in ast.walk(fi.node):
        if isinstance(node, ast.Subscript) and isinstance(node.value, ast.Name) and node.value.id == param and isinstance(node.slice, ast.Constant) and isinstance(node.slice.value, int) and node.slice.value >= min_count:
            ok = False
            for iff in ast.walk(fi.node):
                if isinstance(iff, ast.If) and any(node is x for b in iff.body for x in ast.walk(b)):
                    for c in ast.walk(iff.test):
                        if isinstance(c, ast.Compare) and ast.unparse(c.left) == f'len({param})' and isinstance(c.comparators[0], ast.Constant):
                            k = c.comparators[0].value
                            if (isinstance(c.ops[0], ast.Eq) and k > node.slice.value) or (isinstance(c.ops[0], (ast.GtE,)) and k > node.slice.value) or (isinstance(c.ops[0], ast.Gt) and k >= node.slice.value):
                                ok = True
            if not ok:
                return False
    return True


# ------------------------------------------------------------------- G7
def G7(ctx: Ctx) -> RuleResult:
    r = RuleResult('G7', 'terminal alternatives agree with the tables the callbacks dispatch on (constants, time units, booleans, range brackets)')
    v = ctx.gm.hpl
    pm = ctx.model.module('hpl.parser', 'G7')
    # CONSTANT
    nc = ctx.model.cls('NumberConstants', 'G7')
    t = v.terminals.get('CONSTANT')
    lx = lexemes(t) if t else None
    if lx is None:
        raise AnalysisError('G7', 'terminal CONSTANT not found or not finite')
    missing = sorted(lx - set(nc.enum_members))
    if missing:
        r.fail('CONSTANT', f'grammar accepts constants {missing} that NumberConstants does not define: KeyError while parsing', 'src/hpl/parser.py', sorted(nc.enum_members), sorted(lx))
    else:
        r.ok(f'CONSTANT {sorted(lx)} subset of NumberConstants {sorted(nc.enum_members)}')
    want_vals = {'PI': 'ext:math.pi', 'E': 'ext:math.e', 'INF': 'inf', 'NAN': 'nan'}
    for m in nc.enum_members:
        val = ctx.ev.enum_value(EnumMember('NumberConstants', m), 0)
        if m in want_vals:
            if repr(val) == want_vals[m]:
                r.ok(f'NumberConstants.{m} = {val!r}')
            else:
                r.fail(f'NumberConstants.{m}', f'constant {m} has value {val!r}, expected {want_vals[m]}', nc.where, want_vals[m], repr(val))
    # TIME_UNIT vs time_amount
    methods, _ = transformer_methods(ctx)
    ta = methods.get('time_amount')
    t = v.terminals.get('TIME_UNIT')
    lx = lexemes(t) if t else None
    if ta is None or lx is None:
        raise AnalysisError('G7', 'time_amount / TIME_UNIT not found')
    def dispatched_strings(name: str) -> Set[str]:
        """string constants a callback compares a child with (if-chains, asserts, membership tests, table lookups)"""
        from .rules_flows import callback_outcomes
        from .terms import Const as _C, Op as _O, Sym as _S, TupleT as _T, expand_outcomes as _xo, walk as _w
        _, outs_, _ = callback_outcomes(ctx, name)
        found: Set[str] = set()
        for o_ in _xo(outs_):
            for g_ in [g for g, _ in o_.guards] + list(o_.asserts):
                for x in _w(g_):
                    if isinstance(x, _O) and x.op in ('==', '!=', 'in', 'not in') and len(x.args) == 2 and isinstance(x.args[0], (_S,)) or \
                            (isinstance(x, _O) and x.op in ('==', '!=', 'in', 'not in') and len(x.args) == 2 and 'children' in repr(x.args[0])):
                        rhs = x.args[1]
                        rhs = getattr(rhs, 'value', rhs) if type(rhs).__name__ == 'GlobalVal' else rhs
                        if isinstance(rhs, _C) and isinstance(rhs.value, str):
                            found.add(rhs.value)
                        elif isinstance(rhs, _T):
                            found.update(y.value for y in rhs.items if isinstance(y, _C) and isinstance(y.value, str))
                        elif type(rhs).__name__ == 'DictT':
                            found.update(k.value for k, _ in rhs.items if isinstance(k, _C) and isinstance(k.value, str))
        return found
    units = dispatched_strings('time_amount')
    if units == lx:
        r.ok(f'TIME_UNIT {sorted(lx)} == units dispatched by time_amount')
    else:
        r.fail('TIME_UNIT', f'grammar time units {sorted(lx)} differ from those time_amount handles {sorted(units)}', ta.where, sorted(units), sorted(lx))
    # TRUE / FALSE
    bo = methods.get('boolean')
    tv = {n: v.terminals[n].value for n in ('TRUE', 'FALSE') if n in v.terminals}
    strs = dispatched_strings('boolean') if bo else set()
    if set(tv.values()) == strs and len(tv) == 2:
        r.ok(f'TRUE/FALSE lexemes {sorted(strs)} == strings dispatched by boolean()')
    else:
        r.fail('TRUE/FALSE', f'boolean lexemes {tv} differ from the strings boolean() compares with {sorted(strs)}', bo.where if bo else pm.relpath)
    # range brackets
    br = {n: v.terminals[n].value for n in ('L_RANGE_EXC', 'L_RANGE_INC', 'R_RANGE_EXC', 'R_RANGE_INC') if n in v.terminals}
    if len(br) == 4 and br['L_RANGE_EXC'].startswith('!') and not br['L_RANGE_INC'].startswith('!') and br['R_RANGE_EXC'].endswith('!') and not br['R_RANGE_INC'].endswith('!'):
        r.ok(f'range brackets {br}: exclusive ones carry the "!" on the outside')
    else:
        r.fail('RANGE brackets', f'bracket lexemes {br} do not agree with startswith("!")/endswith("!") in range_literal', 'src/hpl/grammar.py')
    rl = methods.get('range_literal')
    if rl is not None and len(br) == 4:
        # the callback evaluated at each of the four bracket combinations the grammar has: the flags must come out as
        # (left bracket is the exclusive one, right bracket is the exclusive one), however the callback computes them
        from .rules_flows import callback_outcomes, parser_eval
        from .terms import Const as _K, New as _New, Sym as _Sym, expand_outcomes, guards_consistent
        from .util import fold_closed
        fi, _, _ = callback_outcomes(ctx, 'range_literal')
        ps = fi.params()
        bad = None
        if len(ps) != 5:
            bad = f'unexpected parameters {ps}'
        else:
            ev = parser_eval(ctx)
            for ln, rn in (('L_RANGE_EXC', 'R_RANGE_EXC'), ('L_RANGE_EXC', 'R_RANGE_INC'), ('L_RANGE_INC', 'R_RANGE_EXC'), ('L_RANGE_INC', 'R_RANGE_INC')):
                ev._stack.append(fi.key)
                try:
                    lo = [o for o in expand_outcomes(ev.run(fi, {ps[1]: _K(br[ln]), ps[2]: _Sym('c1'), ps[3]: _Sym('c2'), ps[4]: _K(br[rn])}))
                          if guards_consistent(o.guards) and all(not (isinstance(fold_closed(g), _K) and bool(fold_closed(g).value) != pol) for g, pol in o.guards)]
                finally:
                    ev._stack.pop()
                rets = [o for o in lo if o.kind == 'return']
                if not rets or len(rets) != len(lo):
                    bad = f'no single result for {br[ln]} ... {br[rn]}'
                    break
                for o in rets:
                    val = o.value
                    if not isinstance(val, _New):
                        bad = f'result for {br[ln]} ... {br[rn]} is not a constructed range: {val!r}'
                        break
                    got = (fold_closed(val.get('exclude_min')), fold_closed(val.get('exclude_max')))
                    want = (_K(ln.endswith('EXC')), _K(rn.endswith('EXC')))
                    if got != want:
                        bad = f'{br[ln]} ... {br[rn]} gives exclude_min={got[0]!r}, exclude_max={got[1]!r}'
                        break
                if bad:
                    break
        if bad is None:
            r.ok('range_literal: exclude_min from the left bracket, exclude_max from the right bracket (evaluated at the four bracket pairs)')
        else:
            r.fail('range_literal:brackets', f'exclusivity flags do not follow the brackets: {bad}', rl.where)
    return r


# ------------------------------------------------------------------- G8
def G8(ctx: Ctx) -> RuleResult:
    r = RuleResult('G8', 'file structure: non-empty left-recursive list of properties; metadata keys are exactly id/title/description; LALR tables build without conflict for every start symbol')
    gm = ctx.gm
    for vn, view in gm.views.items():
        if view.error:
            r.fail(f'{vn}:compile', f'grammar does not compile: {view.error}', 'src/hpl/grammar.py')
        else:
            r.ok(f'{vn}: LALR(1) table built for starts {view.starts}')
    v = gm.hpl
    nul = v.nullable()
    for o in ('hpl_file', 'hpl_property'):
        if not v.rules_of(o):
            raise AnalysisError('G8', f'rule {o} not found')
        if o in nul:
            r.fail(f'{o}:nullable', f'{o} derives the empty string: an empty file would be accepted', 'src/hpl/grammar.py')
        else:
            r.ok(f'{o} is not nullable')
    lays, trunc = v.layouts('hpl_file')
    ok_items = all(all(it.kind == 'nt' and it.name.rstrip('.') in ('hpl_property',) or it.name.endswith('...') for it in l) for l in lays)
    min_len = min((len(l) for l in lays), default=0)
    if not ok_items:
        r.fail('hpl_file:children', f'children of hpl_file are not only properties: {[str(l) for l in lays[:3]]}', 'src/hpl/grammar.py')
    elif min_len < 1:
        r.fail('hpl_file:empty', 'hpl_file can have no property at all: an empty file is accepted', 'src/hpl/grammar.py')
    elif not trunc:
        r.fail('hpl_file:list', f'hpl_file admits only {sorted({len(l) for l in lays})} properties', 'src/hpl/grammar.py')
    else:
        r.ok('hpl_file: one or more hpl_property children, in source order')
    # source order: the list rule (if any) is left- or right-recursive with the single property on the other side, never reordered by lark
    # the kinds of annotation: the alternatives reachable from the `metadata` rule (through list / helper / inline
    # rules) that begin with a keyword, each named by its callback (a rule of its own, or an alternative with an alias)
    keys = {}
    seen_nt: Set[str] = set()
    todo = ['metadata']
    while todo:
        nt = todo.pop()
        if nt in seen_nt:
            continue
        seen_nt.add(nt)
        for e in v.rules_of(nt):
            first = e.symbols[0][0] if e.symbols else None
            if first in v.terminals and v.terminals[first].kind == 'str' and v.terminals[first].value.isalpha():
                keys[e.callback] = v.terminals[first].value
                continue
            todo.extend(n_ for n_, is_t, _ in e.symbols if not is_t)
    if keys == {'metadata_id': 'id', 'metadata_title': 'title', 'metadata_desc': 'description'}:
        r.ok(f'metadata keys: {keys}')
    else:
        r.fail('_metadata_item', f'annotation keys are {keys}, expected id/title/description', 'src/hpl/grammar.py')
    # hpl_property: optional metadata first, then scope, then pattern
    lays, _ = v.layouts('hpl_property')
    ok = all(len(l) == 3 and (l[0].kind == 'none' or l[0].name == 'metadata') for l in lays)
    (r.ok('hpl_property children: [metadata|None, scope, pattern]') if ok else r.fail('hpl_property', f'unexpected child layouts {lays[:3]}', 'src/hpl/grammar.py'))
    return r


RULES = {'G1': G1, 'G2': G2, 'G3': G3, 'G4': G4, 'G5': G5, 'G6': G6, 'G7': G7, 'G8': G8}
